"""C01 - compiled SQL returns exactly the multiset the program denotes."""
import os

from harness import common
from harness import families
from harness import gen
from harness import proggen
from harness import semrun

PROP = 'C01'


def Cases(tier):
  n = int(os.environ.get('VERIF_N', 0)) or (400 if tier == 'quick' else 8000)
  rng = common.Rng(PROP)
  cases = []
  for i in range(n):
    prog, query, feats = gen.Generate(rng, gen.CORE)
    cases.append({'id': 'g%d' % i, 'prog': prog, 'query': query, 'stages': True,
                  'meta': {'features': feats, 'source': 'random'}})
  # directed families (else-if chains exhaustively over thresholds / value
  # patterns, repeated functional calls, double negation, bound `in`)
  n_chain = 24 if tier == 'quick' else 64
  for k in range(n_chain):
    prog, query, feats = families.IfChain(rng, k * (64 // n_chain) if
                                          tier == 'quick' else k)
    cases.append({'id': 'ic%d' % k, 'prog': prog, 'query': query,
                  'stages': True, 'meta': {'features': feats}})
  for k in range(6 if tier == 'quick' else 60):
    for name, fn in families.SEM_FAMILIES[1:]:
      prog, query, feats = fn(rng)
      cases.append({'id': 'sf%d%s' % (k, name), 'prog': prog, 'query': query,
                    'stages': True, 'meta': {'features': feats}})
  # spec -> code: programs enumerated by TLC from spec/ProgGen.tla
  if tier == 'quick':
    pg, st, gen_, total = proggen.Cases('ProgGen_core_q.cfg', 250, rng, 'pg')
  else:
    pg, st, gen_, total = proggen.Cases('ProgGen_core_q.cfg', None, rng, 'pg')
    pg2, st2, gen2, total2 = proggen.Cases('ProgGen_core_t.cfg', 4000, rng, 'pgt')
    pg, st, gen_, total = pg + pg2, st + st2, gen_ + gen2, total + total2
  EXTRA.update(proggen_states=st, proggen_transitions=gen_,
               proggen_programs_enumerated=total, proggen_replayed=len(pg))
  return cases + pg + semrun.Reproducers(PROP)


EXTRA = {}

REQUIRED = ['fam_nested_in', 'fam_record_pattern', 'fam_param_alias', 'fam_dup_disjuncts', 'fam_implication_conj', 'fam_partial_call_in_combine', 'fam_repeated_inject', 'fam_multi_disj_conj', 'fam_in_expr_repeated', 'fam_union_named_positional',
            'fam_if_chain', 'fam_repeated_call', 'fam_double_negation',
            'fam_bound_in_repeated', 'proggen', 'pg_disjunction', 'pg_in', 'pg_assign', 'pg_dup_fact',
            'pcall_repeated', 'disjunction_of_atoms', 'if_chain',
            'named_args_reordered_between_rules',
            'disjunction_repeated_swapped',
            'join', 'disjunction', 'dup_fact', 'arith', 'assign', 'inc_bind',
            'if', 'list', 'record', 'pcall', 'inline', 'multi_rule', 'cmp']


def Run(tier):
  return semrun.StandardRun(
      PROP, tier, Cases(tier), REQUIRED,
      rule='random well-typed range-restricted core-fragment programs (harness/gen.py profile CORE, seed VERIF_SEED); each defined predicate is compiled and executed on SQLite by the real pipeline and TLC decides observed rows = LSem!Den as bags with the column names',
      assumptions=['spec/LSem.tla + LValues.tla encode docs/learn/logica.md',
                   'harness/ir.py renderer is trusted',
                   'fragment exclusions of harness/gen.py (R2 of DESIGN.md)'],
      extra_coverage=EXTRA)


def Replay(path):
  return semrun.StandardReplay(PROP, path)
