"""C01 - compiled SQL returns exactly the multiset the program denotes."""
import json

from harness import common
from harness import evidence
from harness import gen
from harness import semrun

PROP = 'C01'


def Cases(tier):
  import os
  n = int(os.environ.get('VERIF_N', 0)) or (600 if tier == 'quick' else 12000)
  rng = common.Rng('c01')
  cases = []
  for i in range(n):
    prog, query, feats = gen.Generate(rng, gen.CORE)
    cases.append({'id': 'g%d' % i, 'prog': prog, 'query': query,
                  'meta': {'features': feats, 'source': 'random'}})
  return cases + semrun.Reproducers(PROP)


REQUIRED = ['join', 'disjunction', 'dup_fact', 'arith', 'assign', 'inc_bind',
            'if', 'list', 'record', 'pcall', 'inline', 'multi_rule', 'cmp']


def Run(tier):
  clock = common.Clock()
  cases = Cases(tier)
  out = semrun.RunCases(PROP, cases)
  missing = [f for f in REQUIRED if not out.feature_counts.get(f)]
  coverage = {
      'states': max(1, out.tlc_states),
      'transitions': max(1, out.tlc_states),
      'traces_validated_against_impl': out.preds_judged,
      'evaluations': out.preds_judged,
      'distinct_nontrivial': len(out.nontrivial),
      'programs': out.cases,
      'rule': ('random well-typed range-restricted core-fragment programs '
               '(harness/gen.py profile CORE, seed VERIF_SEED); each defined '
               'predicate is compiled and executed on SQLite and TLC decides '
               'observed rows = LSem!Den as bags; distinct = distinct '
               '(program, predicate) pairs whose denoted bag is non-empty'),
      'samples': out.samples,
      'feature_counts': dict(out.feature_counts),
      'impl_status': dict(out.impl_status),
      'known_findings_hit': dict(out.known),
      'disagreements': len(out.disagreements),
      'exhaustive': False,
  }
  evidence.Write(PROP, tier, 'model_checking', coverage, clock(),
                 violations=len(out.violations),
                 assumptions=['LSem.tla encodes docs/learn/logica.md',
                              'harness/ir.py renderer is trusted',
                              'fragment exclusions of harness/gen.py'])
  if out.tlc_errors:
    print('MACHINERY: TLC errors:', json.dumps(out.tlc_errors)[:3000])
    return 2
  if missing:
    print('MACHINERY: constructs never generated:', missing)
    return 2
  print('C01 %s: %d programs, %d predicates judged, %d ok, %d disagreements '
        '(%d known), %.1fs (impl %.1fs, tlc %.1fs)' % (
            tier, out.cases, out.preds_judged, out.ok,
            len(out.disagreements), sum(out.known.values()), clock(),
            out.t_impl, out.t_tlc))
  return 1 if out.violations else 0


def Replay(path):
  from harness import semcheck
  with open(path) as f:
    rp = json.load(f)
  case = rp['case']
  out = semrun.RunCases(PROP, [case], tag='c01replay')
  return 1 if out.violations else 0
