"""C02 - aggregation, distinct and negation follow the documented semantics."""
import os

from harness import common
from harness import families
from harness import gen
from harness import proggen
from harness import semrun

PROP = 'C02'


def Cases(tier):
  n = int(os.environ.get('VERIF_N', 0)) or (250 if tier == 'quick' else 8000)
  rng = common.Rng(PROP)
  cases = []
  for i in range(n):
    prog, query, feats = gen.Generate(rng, gen.AGG)
    cases.append({'id': 'g%d' % i, 'prog': prog, 'query': query, 'stages': True,
                  'meta': {'features': feats, 'source': 'random'}})
  # directed families: sibling / nested combines with equal local names,
  # injection x combines, key-less aggregates, double negation
  fams = families.SEM_FAMILIES[1:] + families.C08_FAMILIES[:6]
  for k in range((3 if tier == 'quick' else 40) * len(fams)):
    name, fn = fams[k % len(fams)]
    prog, query, feats = fn(rng)
    cases.append({'id': 'sf%d' % k, 'prog': prog, 'query': query,
                  'stages': True, 'meta': {'features': feats}})
  # spec -> code: programs enumerated by TLC from spec/ProgGen.tla
  if tier == 'quick':
    pg, st, gen_, total = proggen.Cases('ProgGen_agg_q.cfg', 250, rng, 'pg')
  else:
    pg, st, gen_, total = proggen.Cases('ProgGen_agg_q.cfg', None, rng, 'pg')
    pg2, st2, gen2, total2 = proggen.Cases('ProgGen_agg_t.cfg', 4000, rng, 'pgt')
    pg, st, gen_, total = pg + pg2, st + st2, gen_ + gen2, total + total2
  EXTRA.update(proggen_states=st, proggen_transitions=gen_,
               proggen_programs_enumerated=total, proggen_replayed=len(pg))
  return cases + pg + semrun.Reproducers(PROP)


EXTRA = {}

REQUIRED = ['fam_dup_disjuncts', 'fam_implication_conj', 'fam_partial_call_in_combine', 'fam_repeated_inject', 'fam_multi_disj_conj', 'fam_in_expr_repeated', 'fam_union_named_positional',
            'proggen', 'pg_negation', 'pg_agg_Sum', 'pg_agg_List', 'pg_head_agg',
            'distinct', 'multi_body_agg', 'negation', 'neg_conj', 'nested_agg',
            'argminmax', 'fam_sibling_combines', 'fam_shared_local', 'aggexpr_corr0', 'aggexpr_corr1',
            'aggexpr_corr2', 'head_agg_Sum', 'head_agg_Min', 'head_agg_Max',
            'head_agg_Count', 'head_agg_List', 'head_agg_Set', 'head_agg_ArgMin',
            'head_agg_ArgMax', 'null_fact']


def Run(tier):
  return semrun.StandardRun(
      PROP, tier, Cases(tier), REQUIRED,
      rule='random programs of the aggregation profile (harness/gen.py profile AGG): predicate-level and multi-body aggregation, aggregating expressions in the three syntaxes correlated with 0/1/2 outer variables, nested combines and sibling combines sharing local names, negation of atoms and conjunctions, null facts, empty groups, ties; TLC decides observed rows = LSem!Den with LValues!Agg',
      assumptions=['spec/LSem.tla + LValues.tla encode docs/learn/logica.md',
                   'harness/ir.py renderer is trusted',
                   'fragment exclusions of harness/gen.py (R2 of DESIGN.md)'],
      extra_coverage=EXTRA)


def Replay(path):
  return semrun.StandardReplay(PROP, path)
