"""C03 - recursion is the bounded iteration, and the least fixpoint once it converges."""
import os

from harness import common
from harness import genrec
from harness import semrun

PROP = 'C03'


def Cases(tier):
  n = int(os.environ.get('VERIF_N', 0)) or (120 if tier == 'quick' else 1200)
  depths = genrec.DEPTHS_QUICK if tier == 'quick' else genrec.DEPTHS_THOROUGH
  rng = common.Rng(PROP)
  cases = []
  for i in range(n):
    name = genrec.FAMILIES[i % len(genrec.FAMILIES)]
    depth = depths[(i // len(genrec.FAMILIES)) % len(depths)]
    iterative = depth is not None and depth <= 20 and rng.random() < 0.25
    if iterative and rng.random() < 0.5:
      depth = rng.choice([10, 13])   # forced iterative above the ignition length
    cases.append(genrec.Case(name, depth, iterative, rng, 'r%d' % i))
  return cases + semrun.Reproducers(PROP)


REQUIRED = ['fam_' + f for f in genrec.FAMILIES] + [
    'depth_default', 'depth_gt20', 'depth_le20', 'iterative_forced',
    'workflow', 'single_statement']


def PlanModel():
  """Model-level part: spec/IterPlan.tla (generation arithmetic of the
  iterative plan) checked for every group size 1..5 and depth 0..60."""
  from harness import tlc
  r = tlc.Run('IterPlan', workers=4, timeout=900, tag='iterplan')
  if not r.ok:
    raise RuntimeError('IterPlan model check failed:\n' + r.out[-3000:])
  return r


def Run(tier):
  r = PlanModel()
  EXTRA = {'iterplan_states': r.distinct, 'iterplan_transitions': r.generated,
           'proggen_states': r.distinct, 'proggen_transitions': r.generated,
           'iterplan_model': 'IterPlan.tla: NoMixed, FinalGeneration '
                             '(depth+1 >= ignition => generation depth+1), '
                             'BelowIgnition, Terminates for group sizes 1..5 '
                             'x depths 0..60'}
  return semrun.StandardRun(
      PROP, tier, Cases(tier), REQUIRED,
      rule=('program families (transitive closure as set and as bag, counter, '
            'Min= shortest path, even/odd, 3-cycle cover, complete 3-cover and '
            'two-cycle cover without a cut, two dependent recursive '
            'predicates) over random graphs of <= 4 nodes / <= 6 edges, depths '
            '1,2,3,default 8,20,21,22,25 (thorough: more) and forced iterative '
            'mode; deep ones executed through concertina_lib.'
            'ExecuteLogicaProgram; TLC decides: exactly SimIter(depth+1) for '
            'self recursion, iterative execution and groups without a cut; '
            'SimIter(depth+1) <= rows <= least fixpoint (as sets) for the other '
            'mutually recursive groups'),
      assumptions=['as C01/C02',
                   'mutual-recursion families are monotone and set-valued '
                   '(distinct)'],
      extra_coverage=EXTRA)


def Replay(path):
  return semrun.StandardReplay(PROP, path)
