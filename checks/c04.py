"""C04 - functor application is predicate substitution."""
import os

from harness import common
from harness import genfun
from harness import semrun

PROP = 'C04'


def Cases(tier):
  n = int(os.environ.get('VERIF_N', 0)) or (150 if tier == 'quick' else 4000)
  rng = common.Rng(PROP)
  return [genfun.Generate(rng, 'f%d' % i) for i in range(n)] + (
      semrun.Reproducers(PROP))


REQUIRED = ['make_fresh', 'make_same_functor_other_binding',
            'make_same_functor_same_binding', 'make_functor_of_result',
            'make_two_args', 'make_arg_through_chain', 'make_arg_direct']


def Run(tier):
  return semrun.StandardRun(
      PROP, tier, Cases(tier), REQUIRED,
      rule=('random core/aggregation programs whose extensional predicates '
            'have two signature-compatible twins each, plus 1-4 functor '
            'applications N := F(A: B [, A2: B2]) - arguments reached directly '
            'or through chains of intermediate predicates, the same functor '
            'applied again with a different and with an equal binding, '
            'functors applied to functor results; the made predicates, the '
            'functor, its arguments and every other predicate are queried; '
            'TLC decides against LSem!Den of the program expanded by '
            'LSem!ExpandMakes (cloning + substitution)'),
      assumptions=['as C01/C02'])


def Replay(path):
  return semrun.StandardReplay(PROP, path)
