"""C04 - functor application is predicate substitution."""
import os

from harness import common
from harness import families
from harness import genfun
from harness import semrun

PROP = 'C04'


def Cases(tier):
  n = int(os.environ.get('VERIF_N', 0)) or (150 if tier == 'quick' else 1200)
  rng = common.Rng(PROP)
  cases = [genfun.Generate(rng, 'f%d' % i) for i in range(n)]

  # directed shapes: made predicates with own rules / own limit, dependency
  # order of functor applications
  reps = 4 if tier == 'quick' else 30
  for k in range(reps * len(families.C04_FAMILIES)):
    name, fn = families.C04_FAMILIES[k % len(families.C04_FAMILIES)]
    prog, query, feats = fn(rng)
    cases.append({'id': 'd%d' % k, 'prog': prog, 'query': query,
                  'stages': True, 'ordered': ['N'] if name == 'made_with_limit'
                  else [], 'meta': {'features': feats}})
  return cases + semrun.Reproducers(PROP)


REQUIRED = ['fam_arg_in_head', 'fam_two_instances_chain', 'fam_swap_bindings', 'fam_clone_limited_twice', 'fam_arg_inside_list',
            'fam_made_with_own_rules', 'fam_made_with_limit',
            'fam_make_order_chain', 'make_fresh', 'make_same_functor_other_binding',
            'make_same_functor_same_binding', 'make_functor_of_result',
            'make_two_args', 'make_arg_through_chain', 'make_arg_direct']


def Run(tier):
  return semrun.StandardRun(
      PROP, tier, Cases(tier), REQUIRED,
      rule=('random core/aggregation programs whose extensional predicates '
            'have two signature-compatible twins each, plus 1-4 functor '
            'applications N := F(A: B [, A2: B2]) - arguments reached directly '
            'or through chains of intermediate predicates, the same functor '
            'applied again with a different and with an equal binding, '
            'functors applied to functor results; the made predicates, the '
            'functor, its arguments and every other predicate are queried; '
            'TLC decides against LSem!Den of the program expanded by '
            'LSem!ExpandMakes (cloning + substitution)'),
      assumptions=['as C01/C02'])


def Replay(path):
  return semrun.StandardReplay(PROP, path)
