"""C06 - the C++ and Python parsers accept the same programs and build the
same rules.

Differential check (translation validation): no specification of the parse
tree is involved in the verdict - the two parsers of $LOGICA_REPO are compared
with each other.  The TLA+ side contributes the *inputs*: spec/LSyntaxGen.tla
(token-level grammar machine, per-production coverage), spec/LLexNoise.tla
(layout variants, shared with C15) and spec/LSyntaxCorrupt.tla (single-token
corruption operators).  The shared object is rebuilt from the current
parser_cpp/logica_parse.cpp (harness/cppbuild.py).
"""
import collections
import glob
import json
import os
import re

from harness import common
from harness import cppbuild
from harness import evidence
from harness import findings
from harness import syntaxgen as sg

PROP = 'C06'

PROFILES = {
    'quick': dict(ex_fuel=1, sim_num=60, sim_fuel=4, layouts_num=120,
                  corrupt_all=45, corrupt_sim=12),
    'thorough': dict(ex_fuel=2, sim_num=1500, sim_fuel=5, layouts_num=6000,
                     corrupt_all=400, corrupt_sim=200),
}

LIB_FILES = {
    'lib/m1.l': ('# library file one\n'
                 'Imp1(x) :- x in [1, 2, 3];\n'
                 'Helper(x) = x + 1;\n'
                 'Imp1(x) :- x == Helper(7), ~Blocked(x);\n'
                 'Blocked(x) :- x == "no;pe";\n'),
    'lib/sub/m2.l': ('import lib.m1.Imp1;\n'
                     '/* second file */\n'
                     'Imp2(x) :- Imp1(x), x > 1;\n'
                     'Total() += x :- Imp2(x);\n'),
}


def ImportRoot():
  root = common.BuildDir('c06', 'import_root')
  for rel, text in LIB_FILES.items():
    path = os.path.join(root, rel)
    os.makedirs(os.path.dirname(path), exist_ok=True)
    with open(path, 'w') as f:
      f.write(text)
  return root


def _Compare(job):
  text, root = job
  try:
    res = sg.ParseDifferential(text, import_root=root)
    return sg.CompareParsers(res), res['py'][0], res['cpp'][0]
  except BaseException as e:  # pylint: disable=broad-except
    if isinstance(e, KeyboardInterrupt):
      raise
    return ({'kind': 'harness', 'py': '?', 'cpp': '?',
             'py_msg': '%s: %s' % (type(e).__name__, str(e)[:200])}, '?', '?')


def CorpusJobs():
  repo = common.REPO
  it = os.path.join(repo, 'integration_tests')
  jobs = []
  for f in sorted(glob.glob(os.path.join(it, '*.l')) +
                  glob.glob(os.path.join(it, 'import_tests', '*.l'))):
    name = os.path.basename(f)
    root = repo
    if name == 'import_root_test.l':
      root = os.path.join(it, 'import_tests')
    elif name == 'import_roots_test.l':
      root = [repo, it, os.path.join(it, 'import_tests')]
    elif name == 'taxation.l':
      root = os.path.join(it, 'import_tests')
    with open(f) as fh:
      jobs.append((name, fh.read(), root))
  return jobs


def Signature(item):
  d = item['diff']
  sig = {'kind': d['kind'], 'source': item['source']}
  if d['kind'] == 'accept':
    sig['py'] = d['py']
    sig['cpp'] = d['cpp']
    sig['py_cls'] = d.get('py_cls', '')
  if 'op' in item:
    sig['op'] = re.sub(r'[()]', '', item['op'])
  if d['kind'] in ('main', 'imported'):
    sig['path_tail'] = '/'.join(d.get('path', '').split('/')[-2:])
  # comments removed (roughly; only to describe the failure)
  text = re.sub(r'/\*.*?\*/', '', item['text'], flags=re.S)
  text = re.sub(r'#[^\n]*', '', text)
  # constructs known to matter (narrow descriptions, see c06.notes.md)
  construct = 'other'
  if d['kind'] == 'main' and re.search(r"'[^']*\\[^\\'\"nrtxuU]",
                                       item['text']):
    construct = 'cpp-unknown-escape'
  elif (d['kind'] == 'accept' and d['py'] == 'ok' and d['cpp'] == 'rej' and
        re.search(r'import [ \t\n]+\S|[ \t\n] as |\sas [ \t\n]', text)):
    # extra whitespace next to the mandatory single spaces of an import
    construct = 'import-extra-whitespace'
  elif (d['kind'] == 'accept' and d['py'] == 'rej' and d['cpp'] == 'ok' and
        re.search(r'[A-Za-z0-9_]\[[\s()]*\]', text)):
    construct = 'empty-subscript'
  elif (d['kind'] == 'accept' and
        re.search(r'\|(,|;|:-|:|=|\?)|(,|;|:-|:|=|\?)\|', text)):
    # a separator directly next to a `|` (PY's "||" hack covers every
    # separator, CPP's only the separator `|`)
    construct = 'separator-next-to-pipe'
  sig['construct'] = construct
  return sig


def Run(tier):
  clock = common.Clock()
  prof = PROFILES[tier]
  rng = common.Rng('c06')
  seed = common.Seed()
  cppbuild.Prepare()
  root = ImportRoot()
  stats = collections.OrderedDict()
  tlc_states = tlc_trans = 0

  import concurrent.futures as cf
  with cf.ThreadPoolExecutor(max_workers=2) as ex:
    f1 = ex.submit(sg.RunGen, 'c06_ex', prof['ex_fuel'], 1, imports=True,
                   workers=8)
    f2 = ex.submit(sg.RunGen, 'c06_sim', prof['sim_fuel'], 3, imports=True,
                   simulate='num=%d' % max(5, prof['sim_num'] // 4), depth=500,
                   seed=seed + 11, workers=4)
    ex_cases, modelled, r1 = f1.result()
    sim_cases, _, r2 = f2.result()
  if not r1.ok or not ex_cases or not r2.ok:
    print((r1.out if not r1.ok else r2.out)[-3000:])
    return Fail(tier, clock, 'LSyntaxGen run failed')
  tlc_states += r1.distinct
  tlc_trans += r1.generated
  ex_cases = sg.DedupCases(ex_cases)
  keys = set(json.dumps(c['toks'], sort_keys=True) for c in ex_cases)
  sim_cases = [c for c in sg.DedupCases(sim_cases)
               if json.dumps(c['toks'], sort_keys=True) not in keys]
  cases = ex_cases + sim_cases
  tcs = [sg.TlcCase(c, 'p%06d' % i) for i, c in enumerate(cases)]
  tc_by_id = {t['id']: t for t in tcs}
  stats['programs_exhaustive'] = len(ex_cases)
  stats['programs_simulated'] = len(sim_cases)
  print('[%6.1fs] programs: %d exhaustive (fuel %d, %d TLC states) + %d '
        'simulated' % (clock(), len(ex_cases), prof['ex_fuel'], r1.distinct,
                       len(sim_cases)), flush=True)

  # layout variants (LLexNoise, shared with C15) and corruptions
  # (LSyntaxCorrupt), concurrently
  order = list(range(len(cases)))
  rng.shuffle(order)
  # greedy production cover first (so that every token kind, e.g. string
  # literals for CutString, is corrupted), then seeded random
  corrupt_all_idx = []
  covered = set()
  for i in order:
    new = set(cases[i]['prods']) - covered
    if new and len(corrupt_all_idx) < prof['corrupt_all']:
      corrupt_all_idx.append(i)
      covered |= new
  for i in order:
    if len(corrupt_all_idx) >= prof['corrupt_all']:
      break
    if i not in corrupt_all_idx:
      corrupt_all_idx.append(i)
  corrupt_all_idx.sort()
  def Triples(i):
    return {'id': tcs[i]['id'],
            'toks': [[t['k'], t['t'], t['g']] for t in cases[i]['toks']]}
  with cf.ThreadPoolExecutor(max_workers=3) as ex:
    fa = ex.submit(sg.RunNoise, 'c06_layouts', tcs, 5,
                   simulate='num=%d' % max(5, prof['layouts_num'] // 4),
                   depth=7, seed=seed + 12, workers=4)
    fb = ex.submit(sg.RunCorrupt, 'c06_all',
                   [Triples(i) for i in corrupt_all_idx])
    fc = ex.submit(sg.RunCorrupt, 'c06_sim',
                   [Triples(i) for i in order],
                   simulate='num=%d' % max(5, prof['corrupt_sim'] // 4),
                   seed=seed + 13)
    places, r3 = fa.result()
    cor_all, r4 = fb.result()
    cor_sim, r5 = fc.result()
  for r, what in ((r3, 'LLexNoise'), (r4, 'LSyntaxCorrupt exhaustive'),
                  (r5, 'LSyntaxCorrupt simulation')):
    if not r.ok:
      print(r.out[-3000:])
      return Fail(tier, clock, what + ' run failed')
  tlc_states += r4.distinct
  tlc_trans += r4.generated

  jobs = []          # (source, program id, text, extra)
  for t in tcs:
    jobs.append(('canonical', t['id'], sg.Render(t), {}))
    free = [b for b in range(len(t['toks']) + 1) if not t['glue'][b]]
    jobs.append(('layout', t['id'], sg.Render(
        t, {'sites': [{'b': b, 'k': 'sp', 'pos': 'L'} for b in free],
            'wraps': [], 'semi': 1}), {'layout': 'all-spaces+semi'}))
  # literal contents that need the lexical rules (separators, brackets,
  # comment markers, quotes of the other kind, escapes)
  tricky = {'dq': "a;b,(c /* # ' :- ", 'sq': 'a\\\'b\\\\c\\;d(" #',
            'tq': 'a"b\'c; ) /* \\'}
  # ... and characters of 2, 3 and 4 UTF-8 bytes (the C++ parser counts
  # bytes, the Python parser code points; heritage texts after such a
  # literal must still agree)
  uni = {'dq': 'a\u00e9\u20ac\U0001d11ez', 'sq': '\U0001d11e\u00e9;\u20ac',
         'tq': '\u20ac\U0001d11e\U0001d11e)'}
  n_uni_followed = 0
  for c, t in zip(cases, tcs):
    slots = sg.StringSlots(c['toks'])
    if slots:
      fill = {k: tricky[form] for k, (_, form) in enumerate(slots)}
      ft = sg.TlcCase(c, t['id'], str_fill=fill)
      jobs.append(('literal', t['id'], sg.Render(ft), {'fill': fill}))
      fill = {k: uni[form] for k, (_, form) in enumerate(slots)}
      ft = sg.TlcCase(c, t['id'], str_fill=fill)
      free = [b for b in range(len(ft['toks']) + 1) if not ft['glue'][b]]
      jobs.append(('unicode', t['id'], sg.Render(ft), {'fill': fill}))
      jobs.append(('unicode', t['id'], sg.Render(
          ft, {'sites': [{'b': b, 'k': 'sp', 'pos': 'L'} for b in free]}),
                   {'fill': fill, 'layout': 'all-spaces'}))
      if any(sum(1 for x in c['toks'][ti + 1:]
                 if x['k'] in ('var', 'num', 'pred', 'field')) >= 2
             for ti, _ in slots):
        n_uni_followed += 1
  # every ASCII layout character (CRLF line ends as a whole-file variant, a
  # stray \r / \f / \v / tab at every boundary) and empty / comment-only
  # statements at both ends of the file and next to every ';'
  layout_kinds = collections.Counter()
  for i, t in enumerate(tcs):
    free = [b for b in range(len(t['toks']) + 1) if not t['glue'][b]]
    k = ['cr', 'ff', 'vt', 'tab'][i % 4]
    sb = sg.StatementBoundaries(t)
    for name, lay in (
        ('crlf', {'sites': [{'b': b, 'k': 'crlf', 'pos': 'L'} for b in free]}),
        (k, {'sites': [{'b': b, 'k': k, 'pos': 'L'} for b in free]}),
        ('empty', {'empties': [{'b': b, 'c': 0} for b in sb]}),
        ('empty_comment', {'empties': [{'b': b, 'c': 1 + (i + b) % 2}
                                       for b in sb]})):
      jobs.append(('layout', t['id'], sg.Render(t, lay), {'layout': name}))
      layout_kinds[name] += 1
  seen = set()
  for p in places:
    lay = {'sites': p['sites'], 'wraps': p['wraps'],
           'nests': p.get('nests', []), 'empties': p.get('empties', []),
           'semi': p['semi']}
    key = (p['id'], json.dumps(lay, sort_keys=True))
    if key in seen:
      continue
    seen.add(key)
    jobs.append(('layout', p['id'], sg.Render(tc_by_id[p['id']], lay),
                 {'layout': lay}))
  per_op = collections.Counter()
  for c in cor_all + cor_sim:
    toks = [{'k': k, 't': t, 'g': g} for k, t, g in c['toks']]
    ctc = sg.TlcCase({'toks': toks, 'ranges': []}, c['id'])
    jobs.append(('corruption', c['id'], sg.Render(ctc),
                 {'op': c['op'], 'pos': c['pos']}))
  corpus = CorpusJobs()
  stats['corpus_files'] = len(corpus)

  # parse + compare
  uniq = collections.OrderedDict()
  for source, pid, text, extra in jobs:
    uniq.setdefault((text, 'gen'), (source, pid, text, extra, root))
  for name, text, croot in corpus:
    uniq.setdefault((text, name), ('corpus', name, text, {}, croot))
  items = list(uniq.values())
  results = common.ParallelMap(_Compare, [(it[2], it[4]) for it in items],
                               chunksize=16)
  print('[%6.1fs] compared %d distinct texts with both parsers'
        % (clock(), len(items)), flush=True)

  cls = findings.Classifier(PROP)
  known_repro = {}
  violations = []
  per_source = collections.Counter()
  accept = collections.Counter()
  cov = collections.Counter()
  for (source, pid, text, extra, _), (diff, pst, cst) in zip(items, results):
    per_source[source] += 1
    accept[(source, pst, cst)] += 1
    if source == 'corruption':
      per_op[re.sub(r'[()]', '', extra['op'])] += 1
    if source in ('canonical', 'layout') and pid in tc_by_id and pst == 'ok':
      pass
    if diff is None:
      continue
    item = {'source': source, 'program': pid, 'text': text, 'diff': diff}
    item.update(extra)
    if source == 'corpus':
      item['import_root'] = 'as integration_tests/run_tests.py'
    item['signature'] = Signature(item)
    known = cls.Match(item['signature'])
    if known:
      best = known_repro.get(known['id'])
      if best is None or len(item['text']) < len(best['text']):
        known_repro[known['id']] = item
      continue
    violations.append(item)
  for c, t in zip(cases, tcs):
    for p in c['prods']:
      cov[p] += 1

  missing = [p for p in modelled if cov.get(p, 0) == 0]
  need_ops = ['delete', 'duplicate', 'swap', 'unbalance_insert',
              'unbalance_kind', 'cut_string']
  missing_ops = [o for o in need_ops if per_op.get(o, 0) == 0]
  accepted_canon = sum(v for (s, a, b), v in accept.items()
                       if s == 'canonical' and a == 'ok' and b == 'ok')
  rejected_corrupt = sum(v for (s, a, b), v in accept.items()
                         if s == 'corruption' and a == 'rej' and b == 'rej')

  both_ok = sum(v for (s_, a, b), v in accept.items() if a == 'ok' and b == 'ok')
  accept_disagree = sum(v for (s_, a, b), v in accept.items() if a != b)
  with open(os.path.join(common.BuildDir('replay', PROP), 'all_failures.json'),
            'w') as f:
    json.dump(violations, f, indent=0)
  groups = collections.OrderedDict()
  for it in violations:
    groups.setdefault(json.dumps(it['signature'], sort_keys=True), []).append(it)
  for key, its in groups.items():
    its.sort(key=lambda it: len(it['text']))
    it = dict(its[0])
    it['count'] = len(its)
    it['more'] = [x['text'] for x in its[1:6]]
    it['import_root_files'] = LIB_FILES
    path = common.WriteReplay(PROP, 'v_' + common.Sha(key), it)
    common.Violation(PROP, path)
    print('  %s\n    text=%r\n    diff=%s (%d cases)' % (
        key, it['text'][:120], json.dumps(it['diff'])[:300], len(its)))
  known_lines = cls.Report()
  for fid, it in known_repro.items():
    it = dict(it)
    it['import_root_files'] = LIB_FILES
    common.WriteReplay(PROP, 'known_' + fid, it)

  coverage = {
      'programs': len(cases) + len(corpus),
      'disagreements_checked': len(items),
      'samples': [{'source': it[0], 'text': it[2][:200]}
                  for it in (items[:2] + items[len(items) // 2:
                                               len(items) // 2 + 2])],
      'evaluations': len(items),
      'distinct_nontrivial': both_ok + accept_disagree,
      'rule': ('non-trivial = distinct texts on which two trees were compared '
               '(both parsers accept) or the parsers disagree on acceptance; '
               'programs: every derivation of spec/LSyntaxGen.tla with <= %d '
               'non-default productions per statement incl. imports (%d) + %d '
               'simulated; per program the canonical text, the all-spaces '
               'layout with trailing semicolon and LLexNoise layouts (%d); '
               'single-token corruptions by spec/LSyntaxCorrupt.tla: all of '
               '%d programs + %d simulated; corpus: %d files of '
               'integration_tests (import roots as run_tests.py); relation: '
               'accept/reject agreement, main-file rules equal as a sequence, '
               'imported rules equal as a bag, heritage texts kept' % (
                   prof['ex_fuel'], len(ex_cases), len(sim_cases), len(seen),
                   len(corrupt_all_idx), len(cor_sim), len(corpus))),
      'tlc_states': tlc_states, 'tlc_transitions': tlc_trans,
      'per_production': dict(sorted(cov.items())),
      'per_corruption': dict(per_op),
      'per_source': dict(per_source),
      'accept_matrix': {'%s:%s/%s' % k: v for k, v in sorted(accept.items())},
      'both_accept_canonical': accepted_canon,
      'both_reject_corrupted': rejected_corrupt,
      'known_findings_reproduced': {k: len(v) for k, v in cls.hit.items()},
      'known_findings_not_reproduced': cls.NotReproduced(),
      'stats': stats,
      'unicode_literals_followed_by_tokens': n_uni_followed,
      'per_layout_kind': dict(layout_kinds),
  }
  for k in ('crlf', 'cr', 'ff', 'vt', 'tab', 'empty', 'empty_comment'):
    if not layout_kinds.get(k):
      missing.append('layout kind ' + k)
  if n_uni_followed == 0:
    missing.append('unicode literal followed by other tokens')
  if missing or missing_ops or accepted_canon == 0 or rejected_corrupt == 0:
    print('VACUITY: productions %s corruption operators %s accepted %d '
          'rejected-corruptions %d' % (missing, missing_ops, accepted_canon,
                                       rejected_corrupt))
    evidence.Write(PROP, tier, 'translation_validation', coverage, clock(),
                   violations=len(groups),
                   assumptions=ASSUMPTIONS + ['MACHINERY: vacuous'])
    return 2
  evidence.Write(PROP, tier, 'translation_validation', coverage, clock(),
                 violations=len(groups), assumptions=ASSUMPTIONS)
  print('[%6.1fs] C06 %s: %d texts compared (%d programs, %d corruptions, %d '
        'corpus files), %d violation group(s), %d known finding(s)' % (
            clock(), tier, len(items), len(cases), per_source['corruption'],
            len(corpus), len(groups), len(known_lines)), flush=True)
  return 1 if groups else 0


ASSUMPTIONS = [
    'purely differential: a defect shared by both parsers is invisible here '
    '(C15 / C11 / C01 look at those)',
    'rejection = any exception from parse.ParseFile (the property asks for '
    'accept/reject agreement, not for equal messages)',
    'imported rules are compared as a bag; which rules are imported is read '
    'from the PY parser (parsed_imports)',
]


def Fail(tier, clock, why):
  print('MACHINERY-FAILURE property=%s %s' % (PROP, why), flush=True)
  evidence.Write(PROP, tier, 'translation_validation',
                 {'programs': 0, 'disagreements_checked': 0, 'samples': [],
                  'evaluations': 0, 'distinct_nontrivial': 0,
                  'rule': 'machinery failure: ' + why}, clock(),
                 assumptions=['MACHINERY FAILURE: ' + why])
  return 2


def Replay(path):
  with open(path) as f:
    it = json.load(f)
  cppbuild.Prepare()
  root = ImportRoot()
  if it['source'] == 'corpus':
    for name, text, croot in CorpusJobs():
      if name == it['program']:
        root = croot
  res = sg.ParseDifferential(it['text'], import_root=root)
  diff = sg.CompareParsers(res)
  print('text: %r' % it['text'])
  for who in ('py', 'cpp'):
    r = res[who]
    print('  %s: %s %s' % (who, r[0], '' if r[0] == 'ok' else r[1:]))
  print('difference: %s' % json.dumps(diff))
  if diff:
    common.Violation(PROP, path)
    return 1
  print('parsers agree')
  return 0
