"""C07 - results do not depend on the textual order or naming used in a program."""
import json
import os

from harness import common
from harness import evidence
from harness import families
from harness import gen
from harness import meta
from harness import semrun

PROP = 'C07'


def Cases(tier):
  n = int(os.environ.get('VERIF_N', 0)) or (110 if tier == 'quick' else 1200)
  nvar = 4 if tier == 'quick' else 8
  rng = common.Rng('c07')
  cases = []
  fams = families.C08_FAMILIES + families.SEM_FAMILIES
  n_fam = (1 if tier == 'quick' else 12) * len(fams)
  for i in range(n + n_fam):
    if i >= n:
      # directed shapes (injection x combines x names, if-chains, repeated
      # calls ...) are permuted and renamed as well
      name, fn = fams[(i - n) % len(fams)]
      prog, query, feats = fn(rng)
    else:
      profile = gen.CORE if i % 2 == 0 else gen.AGG7
      prog, query, feats = gen.Generate(rng, profile)
    base = {'id': 'b%d' % i, 'prog': prog, 'query': query, 'keep_sql': True,
            'meta': {'features': feats + ['base'], 'source': 'random'}}
    cases.append(base)
    for k in range(nvar):
      kind = ['permute', 'rename_vars', 'rename_preds', 'all'][k % 4]
      v, m = prog, {q: q for q in [p['name'] for p in prog['preds']]}
      if kind in ('permute', 'all'):
        v = meta.Permute(v, rng)
      if kind in ('rename_vars', 'all'):
        v = meta.RenameVars(v, rng)
      if kind in ('rename_preds', 'all'):
        v, m = meta.RenamePreds(v, rng, keywords=(k >= 4 and rng.random() < 0.3))
      cases.append({'id': 'b%dv%d' % (i, k), 'prog': v,
                    'query': [m[q] for q in query], 'base': prog,
                    'base_id': 'b%d' % i,
                    'qmap': [(q, m[q], False) for q in query],
                    'meta': {'features': feats + ['variant_' + kind],
                             'source': 'random',
                             'sig': {'variant': kind,
                                     # a predicate was renamed to an SQL keyword
                                     'kw': 'yes' if any(
                                         x in meta.KEYWORD_PREDS
                                         for x in m.values()) else 'no'}}})
  return cases + semrun.Reproducers(PROP)


REQUIRED = ['fam_dup_disjuncts', 'fam_in_expr_repeated', 'fam_multi_disj_conj', 'fam_inject_combine', 'fam_if_chain', 'variant_permute', 'variant_rename_vars', 'variant_rename_preds',
            'variant_all', 'distinct', 'negation', 'multi_rule', 'disjunction']


def Run(tier):
  return semrun.StandardRun(
      PROP, tier, Cases(tier), REQUIRED,
      rule=('random core/aggregation programs (harness/gen.py) and their '
            'permutations (rules, facts, statements, conjuncts, disjuncts) and '
            'consistent renamings (variables from a shared pool, predicates); '
            'TLC checks Den(variant) = Den(base) on the specification and '
            'validates the rows the real pipeline returns for base and variant '
            'against Den; List order / ArgMin ties through permitted sets'),
      assumptions=['as C01/C02'], metamorphic=True)


def Replay(path):
  return semrun.StandardReplay(PROP, path, metamorphic=True)
