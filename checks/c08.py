"""C08 - plan-selecting annotations never change results."""
import itertools
import os

from harness import common
from harness import families
from harness import gen
from harness import meta
from harness import semrun

PROP = 'C08'


def Cases(tier):
  n = int(os.environ.get('VERIF_N', 0)) or (70 if tier == 'quick' else 300)
  per = 7 if tier == 'quick' else 30
  rng = common.Rng(PROP)
  cases = []
  n_fam = (2 if tier == 'quick' else 5) * len(families.C08_FAMILIES)
  for i in range(n + n_fam):
    if i >= n:
      # directed families: injection x combines x shared names, key-less
      # aggregates as intermediates, WITH / grounded chains
      name, fn = families.C08_FAMILIES[(i - n) % len(families.C08_FAMILIES)]
      prog, query, feats = fn(rng)
      inter = [q for q in query if q in meta.Intermediates(prog)]
      if not inter:
        # the intermediates are helpers that the family does not query
        inter = list(meta.Intermediates(prog))
    else:
      profile = gen.CORE if i % 2 == 0 else gen.AGG7
      prog, query, feats = gen.Generate(rng, profile)
      if i % 3 == 0:
        # caller and callee share variable names (injection must not capture)
        prog = meta.RenameVars(prog, rng)
        feats = feats + ['shared_var_names']
      inter = meta.Intermediates(prog)
      rng.shuffle(inter)
    inter = inter[:3]
    if not inter:
      continue
    bid = 'b%d' % i
    cases.append({'id': bid, 'prog': prog, 'query': query, 'keep_sql': True,
                  'meta': {'features': feats + ['base']}})
    plans = [a for a in itertools.product(meta.PLANS, repeat=len(inter))
             if any(x != 'none' for x in a)]
    if len(plans) > (per if i < n else (4 * per if tier == 'quick' else 2 * per)):
      # every single-predicate plan first, then a random sample of the rest
      single = [a for a in plans if sum(x != 'none' for x in a) == 1]
      rest = [a for a in plans if a not in single]
      rng.shuffle(single)
      rng.shuffle(rest)
      k_ = per if i < n else (4 * per if tier == 'quick' else 2 * per)
      plans = (single + rest)[:k_] if tier != 'quick' else (
          single[:(5 if i < n else 15)] + rest[:k_ - (5 if i < n else 15)])
    for k, a in enumerate(plans):
      assignment = dict(zip(inter, a))
      v = meta.Annotate(prog, assignment)
      used = sorted({x for x in a if x != 'none'})
      cases.append({'id': '%sv%d' % (bid, k), 'prog': v, 'query': query,
                    'base': prog, 'base_id': bid, 'keep_sql': True,
                    'qmap': [(q, q, False) for q in query],
                    'meta': {'features': feats + ['plan_' + x for x in used],
                             'sig': {'plan': '+'.join(used)}}})
  return cases + semrun.Reproducers(PROP)


REQUIRED = ['fam_inject_combine', 'fam_inject_negation', 'fam_shared_local',
            'fam_keyless_aggregate', 'fam_with_ground_chain',
            'plan_noinject', 'plan_with', 'plan_nowith', 'plan_ground',
            'plan_noinject_nowith', 'fam_inline_subquery_in_combine',
            'fam_argless_inject_twice', 'fam_nested_agg_helper',
            'inline', 'shared_var_names', 'negation',
            'distinct']


def Run(tier):
  return semrun.StandardRun(
      PROP, tier, Cases(tier), REQUIRED,
      rule=('random core/aggregation programs and assignments of {none, '
            '@NoInject, @With, @NoWith, @Ground} to up to three of their '
            'intermediate concrete predicates (all 124 assignments in the '
            'thorough tier, every single-predicate plan plus a sample in the '
            'quick tier), including programs calling injectible-only '
            'predicates with variable names shared between caller and callee; '
            'every defined predicate is queried under every plan; TLC '
            'validates each table against LSem!Den (which ignores the '
            'annotations) and the plan variants against their base'),
      assumptions=['as C01/C02',
                   '@Ground tables are created in the in-memory logica_test '
                   'dataset exactly as `logica.py run` does'],
      metamorphic=True)


def Replay(path):
  return semrun.StandardReplay(PROP, path, metamorphic=True)
