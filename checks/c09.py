"""C09 - every dialect compiles the core language into well-scoped SQL.

Decision procedure (DESIGN.md section 6 C09, Appendix A.6):

  spec/SqlScope.tla       push-down automaton over SQL token events (brackets,
                          alias scoping with correlation, WITH / CREATE order,
                          placeholder residue)
  spec/MCSqlScope.tla     the automaton model-checked on its own: all step
                          sequences up to a bound, lemmas against independent
                          characterisations + unit scenarios
  spec/SqlScopeTrace.tla  trace specification: one recorded script per line,
                          one event per TLC state, string tokens judged by
                          spec/StrLit.tla; prints the verdict and the clause
  harness/sqllex.py       trusted lexer SQL text -> events (calibrated: what
                          SQLite executes must be accepted)
  harness/c09run.py       workers: real pipeline per engine, outcome classes

What reaches the real code ($LOGICA_REPO): random typed programs of the
generator profiles CORE / AGG7 / SUGAR (plus @Ground / @NoWith / @Limit
variation) and one program per built-in of the function tables, each compiled
for the 8 engines predicate by predicate the way logica.py does.  Outcome
classes are monitored directly (INTERNAL = any exception that is not one of
the four diagnostics); the emitted SQL is judged by TLC.
"""
import collections
import concurrent.futures as cf
import json
import os
import re
import shutil
import sys

from harness import c09builtins
from harness import c09run
from harness import common
from harness import evidence
from harness import findings
from harness import gen
from harness import ir
from harness import tlc

PROP = 'C09'
ENGINES = c09run.ENGINES

TIERS = {
    'quick': dict(programs=84, bulk=False, shards=6, pool=common.NCPU,
                  mc=[('Br', 5), ('Scope', 5), ('With', 4), ('Misc', 4)]),
    'thorough': dict(programs=1500, bulk=True, shards=common.NCPU,
                     pool=common.NCPU, mc_workers=2,
                     mc=[('Br', 7), ('Scope', 7), ('With', 6), ('Misc', 6)]),
}

PROFILES = (('CORE', gen.CORE), ('AGG7', gen.AGG7), ('SUGAR', gen.SUGAR))

RULE = (
    'programs: harness/gen.py (typed by construction) with profiles CORE, '
    'AGG7, SUGAR in rotation, seeded by VERIF_SEED, plus random @Ground / '
    '@NoWith / @Limit annotations; built-ins: one program per key of '
    'QL.BUILT_IN_FUNCTIONS, BUILT_IN_INFIX_OPERATORS, ANALYTIC_FUNCTIONS and '
    'of every dialect\'s BuiltInFunctions()/InfixOperators() (thorough: also '
    'the bulk StandardSQL function table) with typed arguments from '
    'harness/c09builtins.py.  Every program is rendered with @Engine(e) for '
    'the 8 engines and every non-injectible predicate is compiled by a fresh '
    'LogicaProgram(...).FormattedPredicateSql(p).  evaluations = predicate '
    'compilations; a compilation is non-trivial when it produced SQL with at '
    'least one alias reference or WITH/CREATE table; distinct_nontrivial = '
    'number of distinct event traces among those (identical traces are sent '
    'to TLC once).  Verdict per compilation: outcome class in {ok, diagnostic}'
    ' (ParsingException, RuleCompileException, FunctorError, '
    'TypeErrorCaughtException) - anything else is INTERNAL and a violation; '
    'for ok: SqlScopeTrace accepts the events of defines_and_exports + '
    'main_predicate_sql (brackets, string literals per StrLit(dialect), alias '
    'scoping, WITH/CREATE before use, no placeholder).')


def _Cpu():
  import resource
  return sum(getattr(resource.getrusage(w), a)
             for w in (resource.RUSAGE_SELF, resource.RUSAGE_CHILDREN)
             for a in ('ru_utime', 'ru_stime'))


def _Log(msg):
  print('[c09] ' + msg, file=sys.stderr, flush=True)


# ---- cases ---------------------------------------------------------------------

def _Annotate(rng, prog, query):
  """Random plan annotations (they change how tables are emitted: CREATE TABLE
  scripts, inlined sub-queries instead of WITH, LIMIT)."""
  ann = []
  names = list(query)
  if rng.random() < 0.35:
    for p in rng.sample(names, min(len(names), rng.randint(1, 2))):
      ann.append('@Ground(%s);' % p)
  if rng.random() < 0.3:
    p = rng.choice(names)
    if '@Ground(%s);' % p not in ann:
      ann.append('@NoWith(%s);' % p)
  if rng.random() < 0.15:
    ann.append('@Limit(%s, %d);' % (rng.choice(names), rng.randint(1, 3)))
  prog['ann'] = list(prog.get('ann', [])) + ann
  return ann


# Hand-written typed programs for shapes the generator does not produce:
# field access on a record-valued column, a @Ground chain with Range / `in`,
# @OrderBy + @Limit, and string literals whose CONTENT looks like residue
# (must not be reported: it is inside literals).
FIXED = [
    ('record_column', ['Q', 'R'],
     'E(1, {a: 1, b: "u"});\nE(2, {a: 2, b: "v"});\nQ(r.a) :- E(x, r);\n'
     'R(x, c: r.b) :- E(x, r), r.a > 1;\n'),
    ('ground_chain', ['P', 'Q', 'R', 'S'],
     '@Ground(P);\n@Ground(Q);\n@NoWith(E);\nE(1, "a");\nE(2, "b");\n'
     'P(x, s) :- E(x, s), x > 0;\nQ(x, l) :- P(x, s), l == [x, 2];\n'
     'R(y, r: {a: y, b: s}) :- Q(x, l), y in l, P(y, s);\n'
     'S(z) :- R(y, r:), z == r.b, z in ["a", "b"], Size(Range(y)) > 0;\n'),
    ('order_limit', ['P', 'Q'],
     '@OrderBy(P, "col0 desc", "col1");\n@Limit(P, 2);\nE(1, "a");\n'
     'E(2, "b");\nE(3, "c");\nP(x, s) :- E(x, s);\n'
     'Q(x) :- P(x, s), ~E(x + 1, s);\n'),
    ('literal_content', ['T', 'U'],
     'S("it\'s");\nS("q\'q\'\'q");\n'
     'S("{0} %s /* nil */ -- None; UNUSED ( [ `");\n'
     'T(s ++ " {x} ") :- S(s);\n'
     'U(n? Count= s) distinct :- S(s), s != "{y} $";\n'),
]


# Shape A (required in every run): two WITH "parents" - a @Ground'ed predicate
# and the main predicate, or two @Ground'ed predicates - read the same
# non-injectable predicate T, and T reads further WITH tables (an aggregating
# predicate A and multi-row facts U); nothing below T is grounded.  Each
# emitted statement (CREATE TABLE .. AS WITH .., main query) must define, in
# its own WITH list and before use, every compiler-allocated table it reads.
# Both orders of the parents are compiled (Mab / Mba), in every dialect.
def ShapeA():
  base = ('U(1, "a");\nU(2, "b");\nU(3, "a");\n'
          'A(s, n? += x) distinct :- U(x, s);\n')
  t_kinds = {
      'agg': 'T(s, m? Max= n) distinct :- A(s, n:), U(x, s);\n',
      'multi': 'T(s, m: n) :- A(s, n:);\nT(s, m: x) :- U(x, s), x > 1;\n',
  }
  parents = {
      'ground_main': ('@Ground(G);\nG(s, m) :- T(s, m:), m > 0;\n'
                      'Mab(s, m2) :- G(s, m), T(s, m: m2);\n'
                      'Mba(s, m2) :- T(s, m: m2), G(s, m);\n',
                      ['Mab', 'Mba', 'G']),
      'two_grounds': ('@Ground(G1);\n@Ground(G2);\n'
                      'G1(s, m) :- T(s, m:), m > 0;\n'
                      'G2(s, m) :- T(s, m:), m < 9;\n'
                      'Mab(s, m, m2) :- G1(s, m), G2(s, m2);\n'
                      'Mba(s, m, m2) :- G2(s, m2), G1(s, m);\n',
                      ['Mab', 'Mba']),
  }
  out = []
  for tk, t in t_kinds.items():
    for pk, (par, preds) in parents.items():
      out.append(('shapeA_%s_%s' % (tk, pk), preds, base + t + par, {}))
  return out


# Shape B (required in every run): string constants with an apostrophe, a
# backslash, both, a double quote, a newline, a tab - as facts of a multi-row
# predicate (nested SELECTs), in a comparison, a concatenation, a list and a
# record - for every dialect.  SqlScopeTrace must find, for every such
# constant, a literal token that is one literal of the dialect (StrLit) and
# decodes to exactly the constant.  The newline constant is only placed in a
# top-level SELECT: inside nested SELECTs five dialects indent the line after
# a raw newline (known finding F-C10-newline-indent-sql, owned by C10).
SHAPE_B_STRINGS = collections.OrderedDict([
    ('apostrophe', "it's"), ('backslash', 'a\\b'), ('both', "a\\'b"),
    ('trailing_backslash', 'c\\'), ('double_quote', 'say "hi"'),
    ('two_apostrophes', "''"), ('tab', 'p\tq'), ('newline', 'x\ny'),
])


def LogicaLiteral(s):
  """"..." is verbatim in Logica (no escapes); anything it cannot hold is
  written as a '...' literal with Python escapes (parse.ParseString)."""
  if not any(c in s for c in '"\\\n\t'):
    return '"%s"' % s
  return "'%s'" % ''.join(
      {"'": "\\'", '\\': '\\\\', '\n': '\\n', '\t': '\\t'}.get(c, c)
      for c in s)


def ShapeB():
  st = SHAPE_B_STRINGS
  nested = [k for k in st if k != 'newline']
  facts = ''.join('S(%d, %s);\n' % (i, LogicaLiteral(st[k]))
                  for i, k in enumerate(nested))
  lit = LogicaLiteral
  body = (facts +
          'N(%s, 7);\n' % lit(st['newline']) +
          'Cmp(k) :- S(k, s), s != %s, s != %s;\n' % (lit(st['both']),
                                                      lit(st['backslash'])) +
          'Cat(k, s ++ %s ++ %s) :- S(k, s);\n' % (lit(st['apostrophe']),
                                                   lit(st['trailing_backslash'])) +
          'Lst(k) :- S(k, s), s in [%s, %s, %s];\n' % (
              lit(st['both']), lit(st['double_quote']), lit(st['tab'])) +
          'Rec(k, r: {a: %s, b: s}) :- S(k, s);\n' % lit(st['both']) +
          'Nl(k, %s ++ s) :- S(k, s), k == 0;\n' % lit(st['newline']))
  all_nested = [st[k] for k in nested]
  want = {
      'S': all_nested, 'N': [st['newline']],
      'Cmp': all_nested, 'Cat': all_nested, 'Lst': all_nested,
      'Rec': all_nested, 'Nl': all_nested + [st['newline']],
  }
  return [('shapeB_strings', list(want), body, want)]


# Shape C (required in every run): long predicate names that share long
# prefixes - total lengths around the 63-character identifier limit of some
# engines and around the 100-character rule of NamesAllocator.AllocateTable
# (no name-based alias from 100 characters on) - two distinct-denoted and one
# multi-rule predicate read by the same rule (M) and by different rules of
# the same query (Mdeep).  Their WITH names and from-list aliases must stay
# distinct (clauses with-dup / alias-dup) in every dialect.
LONG_LENGTHS = (62, 64, 67, 70, 97, 100, 104)


def ShapeC():
  stem = 'Pred' + 'abcdefghij' * 12
  out = []
  for n in LONG_LENGTHS:
    a, b, c = [stem[:n - 1] + x for x in 'ABC']
    body = ('U(1, "a");\nU(2, "b");\nU(3, "a");\n'
            '%s(s, n? += x) distinct :- U(x, s);\n'
            '%s(s) distinct :- U(x, s), x > 1;\n'
            '%s(x) :- U(x, s);\n%s(x + 10) :- U(x, s), x > 1;\n'
            'M(s, n, y) :- %s(s, n:), %s(s), %s(y);\n'
            'W2(s) distinct :- %s(s);\nW3(y) distinct :- %s(y);\n'
            'Mdeep(s, n, y) :- %s(s, n:), W2(s), W3(y);\n' % (
                a, b, c, c, a, b, c, b, c, a))
    out.append(('shapeC_long_names_%d' % n, ['M', 'Mdeep'], body, {}))
  return out


# Shape D (required in every run): record literals with null / untyped fields,
# flat and nested, as a fact argument, in a comparison, in a list.  Every
# dialect must answer with SQL or with one of the four diagnostics.
def ShapeD():
  body = ('U(1, "a");\nU(2, "b");\n'
          'Fact({a: 1, b: null});\nFact({a: 2, b: null});\n'
          'FactNested({a: {c: null, d: 1}, b: "u"});\n'
          'FactNested({a: {c: null, d: 2}, b: "v"});\n'
          'Flat(x, r) :- U(x, s), r == {a: x, b: null};\n'
          'Nested(x, r) :- U(x, s), r == {a: {c: null, d: s}, b: x};\n'
          'Cmp(x) :- U(x, s), {a: x, b: null} == {a: 1, b: null};\n'
          'InList(x, l) :- U(x, s), l == [{a: x, b: null}];\n'
          'Field(x, v) :- U(x, s), r == {a: x, b: null}, v == r.b;\n'
          'ReadFact(r.a) :- Fact(r);\n'
          'HeadOnly(x, {a: null, b: {c: null}}) :- U(x, s);\n')
  return [('shapeD_null_records',
           ['Fact', 'FactNested', 'Flat', 'Nested', 'Cmp', 'InList', 'Field',
            'ReadFact', 'HeadOnly'], body, {})]


# Converse demonstration inside every run: hand-made scripts with one defect
# each; SqlScopeTrace must reject them with the named clause (and accept the
# repaired twin), otherwise the run is a machinery failure.
SELFTEST = [
    ('sqlite', ['SELECT a.x FROM t AS b'], 'alias'),
    ('sqlite', ['SELECT a.x FROM t AS a'], ''),
    ('sqlite', ['SELECT (SELECT b.x FROM u AS b) AS c, b.y FROM t AS a'],
     'alias'),
    ('sqlite', ['SELECT (SELECT a.x FROM u AS b) AS c, a.y FROM t AS a'], ''),
    ('sqlite', ['SELECT a.x FROM t AS a UNION ALL SELECT a.y FROM u AS b'],
     'alias'),
    ('sqlite', ['WITH t_1_A AS (SELECT 1 AS x FROM t_0_B AS B), t_0_B AS '
                '(SELECT 1) SELECT A.x FROM t_1_A AS A'], 'with-order'),
    ('sqlite', ['WITH t_0_B AS (SELECT 1), t_1_A AS (SELECT 1 AS x FROM '
                't_0_B AS B) SELECT A.x FROM t_1_A AS A'], ''),
    ('sqlite', ['SELECT P.col0 FROM logica_test.P AS P',
                'CREATE TABLE logica_test.P AS SELECT 1 AS col0;'],
     'with-order'),
    ('sqlite', ['CREATE TABLE logica_test.P AS SELECT 1 AS col0;',
                'SELECT P.col0 FROM logica_test.P AS P'], ''),
    ('trino', ['SELECT ARRAY[1, 2 FROM t AS a'], 'bracket'),
    ('trino', ['SELECT ARRAY[1, 2] FROM t AS a'], ''),
    ('sqlite', ["SELECT 'abc FROM t"], 'string'),
    ('bigquery', ['SELECT "abc\\" FROM t'], 'string'),
    ('psql', ["SELECT (E.col1).a, E'it\\'s' FROM t AS E"], ''),
    ('sqlite', ['SELECT "unterminated FROM t'], 'bracket'),
    ('duckdb', ['SELECT LEN({0}) AS x'], 'placeholder'),
    ('duckdb', ['SELECT {a: 1, b: [2]} AS r'], ''),
    ('psql', ['SELECT {a: 1} AS r'], 'placeholder'),
    ('sqlite', ['SELECT JSON_GROUP_ARRAY(None) AS x'], 'placeholder'),
    ('sqlite', ['SELECT x %s y'], 'placeholder'),
    ('sqlite', ['/* nil */ SELECT 1'], 'placeholder'),
    # duplicates in one WITH list / one from-list
    ('sqlite', ['WITH Xa AS (SELECT 1 AS x), U AS (SELECT 2 AS x), Xa AS '
                '(SELECT 3 AS x) SELECT Xa.x FROM Xa AS Xa'], 'with-dup'),
    ('sqlite', ['SELECT P.x, P.y FROM t_0_A AS P, t_1_B AS P'], 'with-order'),
    ('sqlite', ['WITH t_0_A AS (SELECT 1 AS x), t_1_B AS (SELECT 2 AS y) '
                'SELECT P.x, P.y FROM t_0_A AS P, t_1_B AS P'], 'alias-dup'),
    ('trino', ['SELECT x_1, x_2 FROM UNNEST(ARRAY[1]) as pushkin(x_1), '
               'UNNEST(ARRAY[2]) as pushkin(x_2)'], ''),
    # shape A: every statement is scoped on its own
    ('sqlite', ['CREATE TABLE logica_test.G AS WITH t_1_U AS (SELECT 1 AS x), '
                't_0_T AS (SELECT U.x FROM t_1_U AS U) SELECT T.x FROM t_0_T '
                'AS T;',
                'WITH t_0_T AS (SELECT U.x FROM t_1_U AS U) SELECT T.x FROM '
                't_0_T AS T, logica_test.G AS G'], 'with-order'),
    ('sqlite', ['CREATE TABLE logica_test.G AS WITH t_1_U AS (SELECT 1 AS x), '
                't_0_T AS (SELECT U.x FROM t_1_U AS U) SELECT T.x FROM t_0_T '
                'AS T;',
                'WITH t_1_U AS (SELECT 1 AS x), t_0_T AS (SELECT U.x FROM '
                't_1_U AS U) SELECT T.x FROM t_0_T AS T, logica_test.G AS G'],
     ''),
    # shape B: literals are lexed with the dialect's rules and must decode to
    # the program's string
    ('duckdb', ["SELECT E'it\\\\'s' AS col0 UNION ALL SELECT E'q' AS col0"],
     'string', ["it's"]),
    ('duckdb', ["SELECT E'it''s' AS col0 UNION ALL SELECT E'q' AS col0"], '',
     ["it's", 'q']),
    ('duckdb', ["SELECT E'it\\\\''s' AS col0"], 'string-content', ["it's"]),
    ('clickhouse', ["SELECT 'a\\b' AS col0"], 'string-content', ['a\\b']),
    ('clickhouse', ["SELECT 'a\\q' AS col0"], 'string', ['a\\q']),
    ('clickhouse', ["SELECT 'a\\\\b' AS col0, 'it\\'s' AS col1"], '',
     ['a\\b', "it's"]),
    ('sqlite', ["SELECT 'a\\\\b' AS col0"], 'string-content', ['a\\b']),
    ('sqlite', ["SELECT 'a\\b' AS col0, 'c\\' AS col1"], '',
     ['a\\b', 'c\\']),
    ('bigquery', ['SELECT "say \\"hi\\"" AS col0, "x\\ny" AS col1'], '',
     ['say "hi"', 'x\ny']),
    ('psql', ["SELECT 'x\n  y' AS col0"], 'string-content', ['x\ny']),
]


def SelfTestLines():
  """[(id, json line without id, number of events)]"""
  from harness import sqllex
  lines = []
  for k, case in enumerate(SELFTEST):
    d, texts = case[:2]
    rec = {}
    c09run.Attach(rec, sqllex.Script(texts, d), d, case[3] if len(case) > 3
                  else ())
    lines.append(('selftest%02d' % k, rec['line'],
                  sum(rec['kinds'].values())))
  return lines


def SelfTestFailures(verdicts):
  bad = []
  for k, case in enumerate(SELFTEST):
    texts, clause = case[1], case[2]
    v = verdicts.get('selftest%02d' % k)
    if v is None or v['clause'] != clause:
      bad.append('self-test %d (%s) expected clause %r, got %r' % (
          k, texts[0][:60], clause, v and v['clause']))
  return bad


def GeneratedItems(n):
  items = []
  feats = collections.Counter()
  for name, preds, body, want in ([f + ({},) for f in FIXED] + ShapeA() +
                                  ShapeB() + ShapeC() + ShapeD()):
    for e in ENGINES:
      items.append({'id': 'f/%s/%s' % (name, e), 'engine': e, 'preds': preds,
                    'text': '@Engine("%s");\n%s' % (e, body), 'want': want,
                    'meta': {'kind': 'fixed', 'name': name}})
  for k in range(n):
    pname, prof = PROFILES[k % len(PROFILES)]
    rng = common.Rng('c09/%s/%d' % (pname, k))
    prog, query, features = gen.Generate(rng, prof)
    ann = _Annotate(rng, prog, query)
    for f in features:
      feats[f] += 1
    for a in ann:
      feats[a.split('(')[0]] += 1
    for e in ENGINES:
      items.append({'id': 'g%05d/%s' % (k, e), 'engine': e, 'preds': query,
                    'text': ir.RenderProgram(prog, '@Engine("%s");' % e),
                    'meta': {'kind': 'generated', 'profile': pname, 'k': k}})
  return items, feats


# ---- TLC -----------------------------------------------------------------------

def ParseVerdicts(out):
  res = []
  for m in re.finditer(r'<<"V",\s*"((?:[^"\\]|\\.)*)">>', out, re.S):
    try:
      res.append(json.loads(json.loads('"' + m.group(1).replace('\n', '') +
                                       '"')))
    except ValueError:
      pass
  return res


def ValidateTraces(lines, tag, shards):
  """lines: [(id, json text of {'d','ev','strs'}, number of events)]
  -> ({id: verdict}, stats, errors).  One TLC (1 worker) per shard."""
  d = common.BuildDir('trace', '%s_%d' % (tag, os.getpid()))
  order = sorted(lines, key=lambda l: -l[2])
  shards = max(1, min(shards, len(lines)))
  parts = [[] for _ in range(shards)]
  load = [0] * shards
  for l in order:                      # balance by number of events
    s = load.index(min(load))
    parts[s].append(l)
    load[s] += l[2] + 20
  paths = []
  for s, part in enumerate(parts):
    path = os.path.join(d, 'shard%02d.ndjson' % s)
    with open(path, 'w') as f:
      for lid, text, _ in part:
        f.write('{"id":"%s",%s\n' % (lid, text[1:]))
    paths.append(path)

  def One(path):
    return tlc.Run('SqlScopeTrace', workers=1, tag=tag, heap='2g',
                   env={'TRACE_FILE': path,
                        'JAVA_TOOL_OPTIONS': '-XX:ParallelGCThreads=2'})
  with cf.ThreadPoolExecutor(max_workers=len(paths)) as ex:
    results = list(ex.map(One, paths))
  verdicts, errors = {}, []
  states = generated = 0
  for path, part, r in zip(paths, parts, results):
    states += r.distinct
    generated += r.generated
    vs = ParseVerdicts(r.out)
    for v in vs:
      verdicts[v['id']] = v
    finished = ('Model checking completed' in r.out or
                'Accepted' in r.out or 'is violated' in r.out)
    if len(vs) != len(part) or not finished:
      errors.append((path, r.rc, r.out[-2500:]))
  shutil.rmtree(d, ignore_errors=True)   # concurrent runs use their own dir
  return verdicts, {'states': states, 'transitions': generated,
                    'shards': len(paths)}, errors


def ModelRuns(cfg, pool):
  futs = []
  for name, maxlen in cfg['mc']:
    cfgname = 'MCSqlScope_%s.cfg' % name
    path = os.path.join(common.BuildDir('c09cfg'),
                        '%s_%d_%d.cfg' % (name, maxlen, os.getpid()))
    with open(os.path.join(common.SPEC, cfgname)) as f:
      text = re.sub(r'MaxLen = \d+', 'MaxLen = %d' % maxlen, f.read())
    with open(path, 'w') as f:
      f.write(text)
    futs.append((name, maxlen, pool.submit(
        tlc.Run, 'MCSqlScope', cfg=path, workers=cfg.get('mc_workers', 1),
        tag='c09mc' + name,
        heap='3g', env={'JAVA_TOOL_OPTIONS': '-XX:ParallelGCThreads=2'})))
  return futs


# ---- outcomes ------------------------------------------------------------------

NONTRIVIAL = ('ref', 'use', 'create', 'with', 'withrec')


class Outcomes:
  """Folds worker results: outcome classes per engine, INTERNAL problems,
  the distinct traces to send to TLC and who produced them.  Heavy fields are
  dropped as soon as a result is folded (thorough tier: ~50k compilations)."""

  def __init__(self):
    self.per = {e: collections.Counter() for e in ENGINES}
    self.problems = []        # [(signature, {'item', 'pred', 'outcome'})]
    self.lines = {}           # key -> (json text, n events, non-trivial)
    self.owners = collections.defaultdict(list)   # key -> [(item id, pred)]
    self.harness_errors = []
    self.shape_a = collections.defaultdict(set)   # engine -> {(program, pred)}
    self.shape_b = collections.defaultdict(set)   # engine -> {kind of string}
    self.shape_c = collections.defaultdict(dict)  # engine -> {program: names}
    self.shape_d = collections.defaultdict(dict)  # engine -> {pred: outcome}
    self.executed = set()     # keys of scripts SQLite executed
    self.executed_by = collections.Counter()   # key -> executed scripts
    self.n_executed = 0
    self.sqlite_errors = []
    self.evaluations = 0
    self.kinds = collections.Counter()
    self.events = 0
    self.strs = 0

  def Add(self, items_by_id, results):
    for res in results:
      it = items_by_id[res['id']]
      e = res['engine']
      if res['parse'] is not None:
        pr = res['parse']
        self.evaluations += 1
        self.per[e]['parse_' + pr['status']] += 1
        if pr['status'] == 'internal':
          self.problems.append((
              {'kind': 'internal', 'engine': e, 'stage': 'parse',
               'cls': pr['cls'], 'msg': pr['msg'],
               'frames': ' '.join(pr['frames'])},
              {'item': it, 'pred': None, 'outcome': pr}))
        continue
      for p, rec in res['preds'].items():
        self.evaluations += 1
        self.per[e][rec['status']] += 1
        fam = it.get('meta', {}).get('name', '')
        if fam.startswith('shapeD'):
          self.shape_d[e][p] = (rec['status'] if rec['status'] == 'ok' else
                                '%s:%s' % (rec['status'], rec.get('cls')))
        if fam.startswith('shapeC') and rec['status'] == 'ok':
          self.shape_c[e][fam] = min(rec.get('long_names', 0),
                                     self.shape_c[e].get(fam, 9))
        if rec['status'] == 'internal':
          self.problems.append((
              {'kind': 'internal', 'engine': e, 'stage': 'compile',
               'cls': rec['cls'], 'msg': rec['msg'],
               'frames': ' '.join(rec['frames'])},
              {'item': it, 'pred': p,
               'outcome': {k: rec[k] for k in ('cls', 'msg', 'tb')}}))
        elif rec['status'] == 'diag':
          self.per[e]['diag:' + rec['cls']] += 1
        elif rec['status'] == 'harness':
          self.harness_errors.append('%s %s: %s' % (res['id'], p, rec['msg']))
        else:
          key = rec['key']
          if rec['shared_with'] and rec['creates']:
            self.shape_a[e].add((it['meta'].get('name', res['id']), p))
          for w in (it.get('want') or {}).get(p, ()):
            for kind, text in SHAPE_B_STRINGS.items():
              if text == w:
                self.shape_b[e].add(kind)
          self.per[e]['statements'] += rec['kinds'].get('end', 0)
          if key not in self.lines:
            nev = sum(rec['kinds'].values())
            self.lines[key] = (rec['line'], nev,
                               any(rec['kinds'].get(k) for k in NONTRIVIAL))
            self.kinds.update(rec['kinds'])
            self.events += nev
            self.strs += rec['nstr']
          self.owners[key].append((res['id'], p))
          if rec['exec'] == 'ok':
            self.executed.add(key)
            self.executed_by[key] += 1
            self.n_executed += 1
          elif rec['exec'] == 'error':
            self.sqlite_errors.append({'id': res['id'], 'pred': p,
                                       'msg': rec['exec_msg']})

  def Judge(self, items_by_id, tag, shards):
    """TLC verdicts -> (stats, sql problems, calibration mismatches, errors)."""
    todo = [(k, v[0], v[1]) for k, v in self.lines.items()] + SelfTestLines()
    verdicts, tstats, errors = ValidateTraces(todo, tag, shards)
    selftest_bad = SelfTestFailures(verdicts)
    problems, calib_bad = [], []
    validated = accepted_exec = 0
    for key in sorted(self.lines):
      v = verdicts.get(key)
      if v is None:
        continue
      validated += len(self.owners[key])
      for iid, _ in self.owners[key]:
        e = items_by_id[iid]['engine']
        self.per[e]['accepted' if v['ok'] else 'rejected'] += 1
      if v['ok']:
        accepted_exec += self.executed_by[key]
        continue
      iid, p = self.owners[key][0]
      it = items_by_id[iid]
      again = c09run.CompileItem(dict(it, preds=[p], keep_texts=True,
                                      execute=False))
      sig = {'kind': 'sql', 'engine': it['engine'], 'clause': v['clause'],
             'detail': v['detail']}
      if v['clause'] == 'string-content':
        sig['detail'] = 'no literal decodes to %r' % (
            (it.get('want') or {}).get(p, [])[v['at'] - 1:v['at']],)
      payload = {'item': it, 'pred': p, 'verdict': v,
                 'texts': again['preds'].get(p, {}).get('texts'),
                 'trace': json.loads(self.lines[key][0]),
                 'same_trace': len(self.owners[key])}
      # Calibration covers the clauses on which SQLite is at least as strict
      # as the property.  SQLite resolves the names of one WITH list lazily
      # (a forward reference executes) and ignores comments, so with-order
      # and placeholder verdicts stand on their own.
      if key in self.executed and v['clause'] in ('bracket', 'alias',
                                                  'string'):
        calib_bad.append((sig, payload))
      else:
        problems.append((sig, payload))
    stats = {
        'evaluations': self.evaluations,
        'per_engine': {e: dict(self.per[e]) for e in ENGINES},
        'traces': len(self.lines),
        'traces_nontrivial': sum(1 for v in self.lines.values() if v[2]),
        'events': self.events,
        'string_tokens': self.strs,
        'validated': validated,
        'calibration_executed': self.n_executed,
        'calibration_accepted': accepted_exec,
        'sqlite_errors': self.sqlite_errors,
        'tlc': tstats,
        'selftest_cases': len(SELFTEST),
        'selftest_failures': selftest_bad,
        'event_kinds': dict(self.kinds),
        'shape_a': {e: sorted('%s/%s' % x for x in self.shape_a[e])
                    for e in ENGINES},
        'shape_b': {e: sorted(self.shape_b[e]) for e in ENGINES},
        'harness_errors': self.harness_errors,
        'shape_c': {e: dict(self.shape_c[e]) for e in ENGINES},
        'shape_d': {e: dict(self.shape_d[e]) for e in ENGINES},
    }
    return stats, problems, calib_bad, errors


# ---- run -----------------------------------------------------------------------

def _Report(klass, problems, limit=3):
  """Prints VIOLATION lines (at most `limit` replay files per signature group)
  for problems that are not listed findings; returns (#printed, #suppressed)."""
  nviol = 0
  seen = collections.Counter()
  for sig, payload in problems:
    if klass.Match(sig):
      continue
    group = json.dumps({k: sig[k] for k in sorted(sig)
                        if k not in ('msg', 'detail')}, sort_keys=True)
    seen[group] += 1
    if seen[group] > limit:
      continue
    nviol += 1
    it = payload['item']
    name = 'c09_%s_%s' % (sig['kind'], common.Sha([sig, it['id'],
                                                   payload.get('pred')]))
    path = common.WriteReplay(PROP, name, {
        'signature': sig, 'engine': it['engine'], 'text': it['text'],
        'item': it['id'], 'pred': payload.get('pred'), 'preds': it['preds'],
        'observed': payload.get('outcome') or payload.get('verdict'),
        'sql': payload.get('texts'), 'trace': payload.get('trace')})
    common.Violation(PROP, path)
  return nviol, sum(max(0, c - limit) for c in seen.values())


def Run(tier):
  clock = common.Clock()
  cfg = dict(TIERS[tier])
  if os.environ.get('C09_PROGRAMS'):      # development / sensitivity runs
    cfg['programs'] = int(os.environ['C09_PROGRAMS'])
  klass = findings.Classifier(PROP)
  pool = cf.ThreadPoolExecutor(max_workers=4)
  mc = ModelRuns(cfg, pool)

  items, feats = GeneratedItems(cfg['programs'])
  bitems, bplan = c09builtins.Items(cfg['bulk'])
  if os.environ.get('C09_BUILTINS') == '0':   # development / sensitivity runs
    bitems = []
  _Log('%d generated/fixed items, %d built-in items' % (len(items),
                                                        len(bitems)))
  all_items = bitems + items
  by_id = {it['id']: it for it in all_items}
  out = Outcomes()
  bresults = []
  batch = 1600
  for i in range(0, len(all_items), batch):
    part = all_items[i:i + batch]
    results = common.ParallelMap(c09run.CompileItem, part,
                                 workers=cfg['pool'], chunksize=4)
    out.Add(by_id, results)
    for r in results:                   # built-in coverage needs status only
      if r['id'].startswith('b/'):
        for rec in r['preds'].values():
          for k in ('line', 'kinds', 'tb'):
            rec.pop(k, None)
        bresults.append(r)
    del results
    _Log('compiled %d/%d items at %.1fs' % (min(i + batch, len(all_items)),
                                            len(all_items), clock()))
  stats, problems, calib_bad, errors = out.Judge(by_id, 'c09', cfg['shards'])
  _Log('judged at %.1fs' % clock())
  bstats = c09builtins.Coverage(bitems, bresults, bplan)

  machinery = []
  if errors:
    machinery.append('SqlScopeTrace did not finish on %d shard(s): %s' % (
        len(errors), errors[0][2][-800:]))
  machinery += stats['selftest_failures']
  mc_stats = {}
  for name, maxlen, fut in mc:
    r = fut.result()
    mc_stats[name] = {'max_steps': maxlen, 'states': r.distinct,
                      'transitions': r.generated, 'ok': bool(r.ok)}
    if not r.ok:
      machinery.append('MCSqlScope_%s failed: %s' % (name, r.out[-800:]))
  pool.shutdown()
  for f in os.listdir(common.BuildDir('c09cfg')):
    if f.endswith('_%d.cfg' % os.getpid()):
      os.unlink(os.path.join(common.BuildDir('c09cfg'), f))

  nviol, suppressed = _Report(klass, out.problems + problems)
  for sig, payload in calib_bad:
    machinery.append('CALIBRATION-MISMATCH: SQLite executed a script that '
                     'SqlScopeTrace rejects (%s): %s' % (
                         json.dumps(sig), json.dumps(payload['texts'])[:1500]))
  known_lines = klass.Report()

  # vacuity (R4)
  for e in ENGINES:
    if not stats['per_engine'][e].get('accepted'):
      machinery.append('no compiled statement was accepted for ' + e)
  for kind in ('open', 'close', 'select', 'from', 'union', 'alias', 'ref',
               'with', 'withrec', 'use', 'create', 'str', 'end'):
    if not stats['event_kinds'].get(kind):
      machinery.append('event kind %s never produced by the lexer' % kind)
  machinery += ['harness wrote a program wrongly: ' + m
                for m in stats['harness_errors']]
  need_a = {'%s/%s' % (f[0], p) for f in ShapeA() for p in ('Mab', 'Mba')}
  for e in ENGINES:
    lack = sorted(need_a - set(stats['shape_a'][e]))
    if lack:
      machinery.append(
          'shape A (shared multi-level WITH table under two parents, both '
          'orders) not produced for %s: %s' % (e, lack))
    lack = sorted(set(SHAPE_B_STRINGS) - set(stats['shape_b'][e]))
    if lack:
      machinery.append('shape B (string constants %s) not compiled to SQL '
                       'for %s' % (lack, e))
  for e in ENGINES:
    short = [f[0] for f in ShapeC()
             if int(f[0].split('_')[-1]) < 100 and
             stats['shape_c'][e].get(f[0], 0) < 3]
    missing = [f[0] for f in ShapeC() if f[0] not in stats['shape_c'][e]]
    if short or missing:
      machinery.append(
          'shape C (three long predicate names sharing a prefix, as WITH '
          'names / aliases of one query) not produced for %s: %s' % (
              e, short + missing))
    lack = [p for p in ShapeD()[0][1] if p not in stats['shape_d'][e]]
    if lack:
      machinery.append('shape D (records with null fields) not compiled for '
                       '%s: %s' % (e, lack))
  if stats['calibration_executed'] < max(cfg['programs'], 1):
    machinery.append('calibration vacuous: SQLite executed only %d scripts' %
                     stats['calibration_executed'])
  for m in machinery:
    print('MACHINERY: ' + m[:3000], flush=True)

  samples = []
  for key, (text, nev, nontrivial) in out.lines.items():
    if nontrivial and nev < 80:
      iid, p = out.owners[key][0]
      samples.append({'item': iid, 'pred': p, 'program': by_id[iid]['text'],
                      'events': json.loads(text)['ev']})
    if len(samples) >= 3:
      break
  states = stats['tlc']['states'] + sum(m['states'] for m in mc_stats.values())
  trans = stats['tlc']['transitions'] + sum(
      m['transitions'] for m in mc_stats.values())
  gen_err = [x for x in stats['sqlite_errors'] if not x['id'].startswith('b/')]
  coverage = {
      'evaluations': stats['evaluations'],
      'distinct_nontrivial': stats['traces_nontrivial'],
      'rule': RULE,
      'samples': samples,
      'states': states,
      'transitions': trans,
      'traces_validated_against_impl': stats['validated'],
      'distinct_traces_sent_to_tlc': stats['traces'],
      'events_validated': stats['events'],
      'string_tokens_judged_by_StrLit': stats['string_tokens'],
      'event_kinds': stats['event_kinds'],
      'per_engine': stats['per_engine'],
      'calibration': {
          'sqlite_scripts_executed_ok': stats['calibration_executed'],
          'of_which_accepted_by_SqlScopeTrace': stats['calibration_accepted'],
          'sqlite_execution_errors_generated_programs': len(gen_err),
          'sqlite_execution_errors_builtin_programs':
              len(stats['sqlite_errors']) - len(gen_err),
          'sqlite_execution_error_samples':
              (gen_err + stats['sqlite_errors'])[:6]},
      'builtins': bstats,
      'generator_features': dict(feats),
      'programs': cfg['programs'],
      'fixed_programs': [f[0] for f in FIXED + ShapeA() + ShapeB() + ShapeC() +
                         ShapeD()],
      'required_shape_C_long_names': stats['shape_c'],
      'required_shape_D_null_records': stats['shape_d'],
      'required_shape_A_scripts': stats['shape_a'],
      'required_shape_B_string_kinds': stats['shape_b'],
      'model_check_SqlScope': mc_stats,
      'trace_tlc': stats['tlc'],
      'defect_catalogue': '%d of %d hand-made scripts judged as expected' % (
          stats['selftest_cases'] - len(stats['selftest_failures']),
          stats['selftest_cases']),
      'known_findings': known_lines,
      'violations_not_replayed_same_group': suppressed,
      'machinery_failures': [m[:500] for m in machinery],
      'cpu_s_self_and_children': round(_Cpu(), 1),
  }
  evidence.Write(
      PROP, tier, 'exploration', coverage, clock(), violations=nviol,
      assumptions=[
          'harness/sqllex.py (trusted) maps SQL text to events; calibrated on '
          'every script SQLite executed in this run',
          'seven of the eight engines are not available offline: their SQL is '
          'judged statically only',
          'internal errors are detected by monitoring the exception class of '
          'the real pipeline, not by the specification'])
  _Log('done at %.1fs (cpu %.0fs): %d evaluations, %d traces, violations=%d'
       % (clock(), _Cpu(), stats['evaluations'], stats['traces'], nviol))
  if nviol:
    return 1
  if machinery:
    return 2
  return 0


def Replay(path):
  with open(path) as f:
    doc = json.load(f)
  item = {'id': 'replay/' + doc['engine'], 'engine': doc['engine'],
          'text': doc['text'],
          'preds': [doc['pred']] if doc.get('pred') else doc['preds']}
  by_id = {item['id']: item}
  out = Outcomes()
  out.Add(by_id, [c09run.CompileItem(item)])
  klass = findings.Classifier(PROP)
  stats, problems, calib_bad, errors = out.Judge(by_id, 'c09replay', 1)
  print(json.dumps({'signature_recorded': doc.get('signature'),
                    'now': stats['per_engine'][doc['engine']]},
                   sort_keys=True))
  if errors or stats['selftest_failures']:
    print('MACHINERY: ' + (errors[0][2][-1500:] if errors else
                           '; '.join(stats['selftest_failures'])))
    return 2
  nviol, _ = _Report(klass, out.problems + problems + calib_bad)
  klass.Report()
  return 1 if nviol else 0
