"""C09 - every dialect compiles the core language into well-scoped SQL.

Decision procedure (DESIGN.md section 6 C09, Appendix A.6):

  spec/SqlScope.tla       push-down automaton over SQL token events (brackets,
                          alias scoping with correlation, WITH / CREATE order,
                          placeholder residue)
  spec/MCSqlScope.tla     the automaton model-checked on its own: all step
                          sequences up to a bound, lemmas against independent
                          characterisations + unit scenarios
  spec/SqlScopeTrace.tla  trace specification: one recorded script per line,
                          one event per TLC state, string tokens judged by
                          spec/StrLit.tla; prints the verdict and the clause
  harness/sqllex.py       trusted lexer SQL text -> events (calibrated: what
                          SQLite executes must be accepted)
  harness/c09run.py       workers: real pipeline per engine, outcome classes

What reaches the real code ($LOGICA_REPO): random typed programs of the
generator profiles CORE / AGG7 / SUGAR (plus @Ground / @NoWith / @Limit
variation) and one program per built-in of the function tables, each compiled
for the 8 engines predicate by predicate the way logica.py does.  Outcome
classes are monitored directly (INTERNAL = any exception that is not one of
the four diagnostics); the emitted SQL is judged by TLC.
"""
import collections
import concurrent.futures as cf
import json
import os
import re
import sys

from harness import c09builtins
from harness import c09run
from harness import common
from harness import evidence
from harness import findings
from harness import gen
from harness import ir
from harness import tlc

PROP = 'C09'
ENGINES = c09run.ENGINES

TIERS = {
    'quick': dict(programs=120, bulk=False, shards=8, pool=common.NCPU,
                  mc=[('Br', 6), ('Scope', 6), ('With', 5), ('Misc', 5)]),
    'thorough': dict(programs=1800, bulk=True, shards=common.NCPU,
                     pool=common.NCPU,
                     mc=[('Br', 7), ('Scope', 7), ('With', 6), ('Misc', 6)]),
}

PROFILES = (('CORE', gen.CORE), ('AGG7', gen.AGG7), ('SUGAR', gen.SUGAR))

RULE = (
    'programs: harness/gen.py (typed by construction) with profiles CORE, '
    'AGG7, SUGAR in rotation, seeded by VERIF_SEED, plus random @Ground / '
    '@NoWith / @Limit annotations; built-ins: one program per key of '
    'QL.BUILT_IN_FUNCTIONS, BUILT_IN_INFIX_OPERATORS, ANALYTIC_FUNCTIONS and '
    'of every dialect\'s BuiltInFunctions()/InfixOperators() (thorough: also '
    'the bulk StandardSQL function table) with typed arguments from '
    'harness/c09builtins.py.  Every program is rendered with @Engine(e) for '
    'the 8 engines and every non-injectible predicate is compiled by a fresh '
    'LogicaProgram(...).FormattedPredicateSql(p).  evaluations = predicate '
    'compilations; a compilation is non-trivial when it produced SQL with at '
    'least one alias reference or WITH/CREATE table; distinct_nontrivial = '
    'number of distinct event traces among those (identical traces are sent '
    'to TLC once).  Verdict per compilation: outcome class in {ok, diagnostic}'
    ' (ParsingException, RuleCompileException, FunctorError, '
    'TypeErrorCaughtException) - anything else is INTERNAL and a violation; '
    'for ok: SqlScopeTrace accepts the events of defines_and_exports + '
    'main_predicate_sql (brackets, string literals per StrLit(dialect), alias '
    'scoping, WITH/CREATE before use, no placeholder).')


def _Log(msg):
  print('[c09] ' + msg, file=sys.stderr, flush=True)


# ---- cases ---------------------------------------------------------------------

def _Annotate(rng, prog, query):
  """Random plan annotations (they change how tables are emitted: CREATE TABLE
  scripts, inlined sub-queries instead of WITH, LIMIT)."""
  ann = []
  names = list(query)
  if rng.random() < 0.35:
    for p in rng.sample(names, min(len(names), rng.randint(1, 2))):
      ann.append('@Ground(%s);' % p)
  if rng.random() < 0.3:
    p = rng.choice(names)
    if '@Ground(%s);' % p not in ann:
      ann.append('@NoWith(%s);' % p)
  if rng.random() < 0.15:
    ann.append('@Limit(%s, %d);' % (rng.choice(names), rng.randint(1, 3)))
  prog['ann'] = list(prog.get('ann', [])) + ann
  return ann


def GeneratedItems(n):
  items = []
  feats = collections.Counter()
  for k in range(n):
    pname, prof = PROFILES[k % len(PROFILES)]
    rng = common.Rng('c09/%s/%d' % (pname, k))
    prog, query, features = gen.Generate(rng, prof)
    ann = _Annotate(rng, prog, query)
    for f in features:
      feats[f] += 1
    for a in ann:
      feats[a.split('(')[0]] += 1
    for e in ENGINES:
      items.append({'id': 'g%05d/%s' % (k, e), 'engine': e, 'preds': query,
                    'text': ir.RenderProgram(prog, '@Engine("%s");' % e),
                    'meta': {'kind': 'generated', 'profile': pname, 'k': k}})
  return items, feats


# ---- TLC -----------------------------------------------------------------------

def ParseVerdicts(out):
  res = []
  for m in re.finditer(r'<<"V",\s*"((?:[^"\\]|\\.)*)">>', out, re.S):
    try:
      res.append(json.loads(json.loads('"' + m.group(1).replace('\n', '') +
                                       '"')))
    except ValueError:
      pass
  return res


def ValidateTraces(lines, tag, shards):
  """lines: [{'id','d','ev','strs'}] -> ({id: verdict}, stats, errors)."""
  d = common.BuildDir('trace', tag)
  for f in os.listdir(d):
    os.unlink(os.path.join(d, f))
  # balance the shards by number of events
  order = sorted(lines, key=lambda l: -len(l['ev']))
  shards = max(1, min(shards, len(lines)))
  parts = [[] for _ in range(shards)]
  load = [0] * shards
  for l in order:
    s = load.index(min(load))
    parts[s].append(l)
    load[s] += len(l['ev']) + 20
  paths = []
  for s, part in enumerate(parts):
    path = os.path.join(d, 'shard%02d.ndjson' % s)
    with open(path, 'w') as f:
      for l in part:
        f.write(json.dumps(l, separators=(',', ':')) + '\n')
    paths.append(path)

  def One(path):
    return tlc.Run('SqlScopeTrace', workers=1, tag=tag, heap='2g',
                   env={'TRACE_FILE': path,
                        'JAVA_TOOL_OPTIONS': '-XX:ParallelGCThreads=2'})
  with cf.ThreadPoolExecutor(max_workers=len(paths)) as ex:
    results = list(ex.map(One, paths))
  verdicts, errors = {}, []
  states = generated = 0
  for path, part, r in zip(paths, parts, results):
    states += r.distinct
    generated += r.generated
    vs = ParseVerdicts(r.out)
    for v in vs:
      verdicts[v['id']] = v
    finished = ('Model checking completed' in r.out or
                'Accepted' in r.out or 'is violated' in r.out)
    if len(vs) != len(part) or not finished:
      errors.append((path, r.rc, r.out[-2500:]))
  return verdicts, {'states': states, 'transitions': generated,
                    'shards': len(paths)}, errors


def ModelRuns(cfg, pool):
  futs = []
  for name, maxlen in cfg['mc']:
    cfgname = 'MCSqlScope_%s.cfg' % name
    path = os.path.join(common.BuildDir('c09cfg'), '%s_%d.cfg' % (name, maxlen))
    with open(os.path.join(common.SPEC, cfgname)) as f:
      text = re.sub(r'MaxLen = \d+', 'MaxLen = %d' % maxlen, f.read())
    with open(path, 'w') as f:
      f.write(text)
    futs.append((name, maxlen, pool.submit(
        tlc.Run, 'MCSqlScope', cfg=path, workers=2, tag='c09mc' + name,
        heap='3g', env={'JAVA_TOOL_OPTIONS': '-XX:ParallelGCThreads=2'})))
  return futs


# ---- run -----------------------------------------------------------------------

def _Key(engine, trace):
  return common.Sha([engine, trace])


def _NonTrivial(trace):
  return any(e[0] in ('ref', 'use', 'create', 'with', 'withrec')
             for e in trace['ev'])


def Judge(items, results, klass, tag, shards):
  """Outcome classes + TLC verdicts -> (stats, problems)."""
  per = {e: collections.Counter() for e in ENGINES}
  problems = []       # [(signature, payload)]
  lines, owners = {}, collections.defaultdict(list)
  by_id = {it['id']: it for it in items}
  evaluations = 0
  calib = []
  sqlite_errors = []
  for res in results:
    it = by_id[res['id']]
    e = res['engine']
    if res['parse'] is not None:
      pr = res['parse']
      evaluations += 1
      per[e]['parse_' + pr['status']] += 1
      if pr['status'] == 'internal':
        problems.append(({'kind': 'internal', 'engine': e, 'stage': 'parse',
                          'cls': pr['cls'], 'msg': pr['msg'],
                          'frames': ' '.join(pr['frames'])},
                         {'item': it, 'outcome': pr}))
      continue
    for p, rec in res['preds'].items():
      evaluations += 1
      per[e][rec['status']] += 1
      if rec['status'] == 'internal':
        problems.append(({'kind': 'internal', 'engine': e, 'stage': 'compile',
                          'cls': rec['cls'], 'msg': rec['msg'],
                          'frames': ' '.join(rec['frames'])},
                         {'item': it, 'pred': p, 'outcome': {
                             k: rec[k] for k in ('cls', 'msg', 'tb')}}))
      elif rec['status'] == 'diag':
        per[e]['diag:' + rec['cls']] += 1
      else:
        per[e]['statements'] += sum(
            1 for ev in rec['trace']['ev'] if ev[0] == 'end')
        key = _Key(e, rec['trace'])
        if key not in lines:
          lines[key] = {'id': key, 'd': e, 'ev': rec['trace']['ev'],
                        'strs': rec['trace']['strs']}
        owners[key].append((res['id'], p))
        if rec['exec'] == 'ok':
          calib.append((key, res['id'], p))
        elif rec['exec'] == 'error':
          sqlite_errors.append({'id': res['id'], 'pred': p,
                                'msg': rec['exec_msg']})
  verdicts, tstats, errors = ValidateTraces(list(lines.values()), tag, shards)
  texts = {}
  for res in results:
    for p, rec in res['preds'].items():
      if rec['status'] == 'ok':
        texts[(res['id'], p)] = rec['texts']
  bad_keys = {k for k, v in verdicts.items() if not v['ok']}
  calib_bad = []
  for key in sorted(bad_keys):
    v = verdicts[key]
    for (iid, p) in owners[key]:
      it = by_id[iid]
      per[it['engine']]['rejected'] += 1
    iid, p = owners[key][0]
    it = by_id[iid]
    executed = any(k == key for k, _, _ in calib)
    sig = {'kind': 'sql', 'engine': it['engine'], 'clause': v['clause'],
           'detail': v['detail']}
    payload = {'item': it, 'pred': p, 'verdict': v, 'texts': texts[(iid, p)],
               'trace': lines[key], 'same_trace': len(owners[key])}
    if executed and v['clause'] != 'placeholder':
      calib_bad.append((sig, payload))
    else:
      problems.append((sig, payload))
  for key, owner in owners.items():
    if key in verdicts and verdicts[key]['ok']:
      for (iid, p) in owner:
        per[by_id[iid]['engine']]['accepted'] += 1
  stats = {
      'evaluations': evaluations,
      'per_engine': {e: dict(per[e]) for e in ENGINES},
      'traces': len(lines),
      'traces_nontrivial': sum(1 for l in lines.values() if _NonTrivial(l)),
      'events': sum(len(l['ev']) for l in lines.values()),
      'string_tokens': sum(len(l['strs']) for l in lines.values()),
      'validated': sum(len(owners[k]) for k in verdicts),
      'calibration_executed': len(calib),
      'calibration_accepted': sum(
          1 for k, _, _ in calib if k in verdicts and verdicts[k]['ok']),
      'sqlite_errors': sqlite_errors,
      'tlc': tstats,
      'event_kinds': dict(collections.Counter(
          e[0] for l in lines.values() for e in l['ev'])),
  }
  return stats, problems, calib_bad, errors, lines, owners


def Run(tier):
  clock = common.Clock()
  cfg = dict(TIERS[tier])
  if os.environ.get('C09_PROGRAMS'):      # development / sensitivity runs
    cfg['programs'] = int(os.environ['C09_PROGRAMS'])
  klass = findings.Classifier(PROP)
  pool = cf.ThreadPoolExecutor(max_workers=4)
  mc = ModelRuns(cfg, pool)

  items, feats = GeneratedItems(cfg['programs'])
  bitems, bplan = c09builtins.Items(cfg['bulk'])
  _Log('%d generated items, %d built-in items' % (len(items), len(bitems)))
  all_items = items + bitems
  results = common.ParallelMap(c09run.CompileItem, all_items,
                               workers=cfg['pool'], chunksize=4)
  _Log('compiled at %.1fs' % clock())
  stats, problems, calib_bad, errors, lines, owners = Judge(
      all_items, results, klass, 'c09', cfg['shards'])
  _Log('judged at %.1fs' % clock())
  bstats = c09builtins.Coverage(bitems, results, bplan)

  machinery = []
  if errors:
    machinery.append('SqlScopeTrace did not finish on %d shard(s): %s' % (
        len(errors), errors[0][2][-800:]))
  mc_stats = {}
  for name, maxlen, fut in mc:
    r = fut.result()
    mc_stats[name] = {'max_steps': maxlen, 'states': r.distinct,
                      'transitions': r.generated, 'ok': bool(r.ok)}
    if not r.ok:
      machinery.append('MCSqlScope_%s failed: %s' % (name, r.out[-800:]))
  pool.shutdown()

  # violations / known findings
  nviol = 0
  seen = collections.Counter()
  for sig, payload in problems:
    if klass.Match(sig):
      continue
    group = json.dumps({k: sig[k] for k in sorted(sig) if k != 'msg'},
                       sort_keys=True)
    seen[group] += 1
    if seen[group] > 3:     # one replay file per group is enough; keep three
      continue
    nviol += 1
    it = payload['item']
    name = 'c09_%s_%s' % (sig['kind'], common.Sha([sig, it['id'],
                                                   payload.get('pred')]))
    path = common.WriteReplay(PROP, name, {
        'signature': sig, 'engine': it['engine'], 'text': it['text'],
        'pred': payload.get('pred'), 'preds': it['preds'],
        'observed': payload.get('outcome') or payload.get('verdict'),
        'sql': payload.get('texts'), 'trace': payload.get('trace')})
    common.Violation(PROP, path)
  suppressed = sum(max(0, c - 3) for c in seen.values())
  for sig, payload in calib_bad:
    machinery.append('CALIBRATION-MISMATCH: SQLite executed a script that '
                     'SqlScopeTrace rejects (%s): %s' % (
                         json.dumps(sig), json.dumps(payload['texts'])[:1500]))
  known_lines = klass.Report()

  # vacuity (R4)
  for e in ENGINES:
    if not stats['per_engine'][e].get('accepted'):
      if not any(s['kind'] == 'internal' and s['engine'] == e
                 for s, _ in problems):
        machinery.append('no compiled statement was validated for ' + e)
  for kind in ('open', 'close', 'select', 'from', 'union', 'alias', 'ref',
               'with', 'withrec', 'use', 'create', 'str', 'end'):
    if not stats['event_kinds'].get(kind):
      machinery.append('event kind %s never produced by the lexer' % kind)
  if stats['calibration_executed'] < cfg['programs']:
    machinery.append('calibration vacuous: SQLite executed only %d scripts' %
                     stats['calibration_executed'])
  for m in machinery:
    print('MACHINERY: ' + m[:3000], flush=True)

  samples = []
  for key in list(lines)[:400]:
    l = lines[key]
    if _NonTrivial(l) and len(l['ev']) < 80:
      iid, p = owners[key][0]
      samples.append({'item': iid, 'pred': p, 'events': l['ev']})
    if len(samples) >= 3:
      break
  states = stats['tlc']['states'] + sum(m['states'] for m in mc_stats.values())
  trans = stats['tlc']['transitions'] + sum(
      m['transitions'] for m in mc_stats.values())
  coverage = {
      'evaluations': stats['evaluations'],
      'distinct_nontrivial': stats['traces_nontrivial'],
      'rule': RULE,
      'samples': samples,
      'states': states,
      'transitions': trans,
      'traces_validated_against_impl': stats['validated'],
      'distinct_traces_sent_to_tlc': stats['traces'],
      'events_validated': stats['events'],
      'string_tokens_judged_by_StrLit': stats['string_tokens'],
      'event_kinds': stats['event_kinds'],
      'per_engine': stats['per_engine'],
      'calibration': {
          'sqlite_scripts_executed_ok': stats['calibration_executed'],
          'of_which_accepted_by_SqlScopeTrace': stats['calibration_accepted'],
          'sqlite_execution_errors': len(stats['sqlite_errors']),
          'sqlite_execution_error_samples': stats['sqlite_errors'][:5]},
      'builtins': bstats,
      'generator_features': dict(feats),
      'programs': cfg['programs'],
      'model_check_SqlScope': mc_stats,
      'trace_tlc': stats['tlc'],
      'known_findings': known_lines,
      'violations_not_replayed_same_group': suppressed,
      'machinery_failures': [m[:500] for m in machinery],
  }
  evidence.Write(
      PROP, tier, 'exploration', coverage, clock(), violations=nviol,
      assumptions=[
          'harness/sqllex.py (trusted) maps SQL text to events; calibrated on '
          'every script SQLite executed in this run',
          'seven of the eight engines are not available offline: their SQL is '
          'judged statically only',
          'internal errors are detected by monitoring the exception class of '
          'the real pipeline, not by the specification'])
  _Log('done at %.1fs: %d evaluations, %d traces, violations=%d' % (
      clock(), stats['evaluations'], stats['traces'], nviol))
  if nviol:
    return 1
  if machinery:
    return 2
  return 0


def Replay(path):
  with open(path) as f:
    doc = json.load(f)
  item = {'id': 'replay', 'engine': doc['engine'], 'text': doc['text'],
          'preds': [doc['pred']] if doc.get('pred') else doc['preds']}
  res = c09run.CompileItem(item)
  klass = findings.Classifier(PROP)
  stats, problems, calib_bad, errors, _, _ = Judge(
      [item], [res], klass, 'c09replay', 1)
  print(json.dumps({'signature_recorded': doc.get('signature'),
                    'per_engine': stats['per_engine'][doc['engine']]},
                   sort_keys=True))
  if errors:
    print('MACHINERY: ' + errors[0][2][-1500:])
    return 2
  bad = 0
  for sig, payload in problems + calib_bad:
    if klass.Match(sig):
      continue
    bad += 1
    print('reproduced: %s' % json.dumps(sig, sort_keys=True))
    path2 = common.WriteReplay(PROP, 'replayed_' + common.Sha(sig), {
        'signature': sig, 'engine': doc['engine'], 'text': doc['text'],
        'pred': payload.get('pred'), 'preds': item['preds'],
        'observed': payload.get('outcome') or payload.get('verdict'),
        'sql': payload.get('texts')})
    common.Violation(PROP, path2)
  klass.Report()
  return 1 if bad else 0
