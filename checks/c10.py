"""C10 - string literals and flag values are data, never SQL.

Decision procedure (DESIGN.md section 6, C10).  All verdicts are taken by TLC:

  spec/StrLit.tla      literal syntax of the 8 SQL dialects (Lex/Decode/
                       IsOneLiteral), reference encoder, SameShape
  spec/LLexStr.tla     Logica literal forms ("...", '...', triple-quoted)
  spec/StrLitLemma.tla model-level lemmas over ALL strings <= N over the
                       special alphabet (one TLC state per string)
  spec/C10Trace.tla    judges what the real code did with strings
  spec/Flags*.tla      flag graphs: model + cases (spec -> code) and
                       FlagsTrace (code -> spec)

What reaches the real code ($LOGICA_REPO):
  (a) QL.ConvertToSql of a string literal and of FlagValue(flag) in each of the
      8 dialects, for every string <= N               (harness/strlit.py)
  (b) the whole pipeline on SQLite with the string in each position (fact,
      list element, record field, ++ operand, flag default, user flag through
      logica.ReadUserFlags), as a top-level SELECT and inside a UNION ALL
  (c) compile-only in all 8 dialects, literal located in the statement and
      decoded by the dialect's specification, statement shape compared with
      the one compiled for a plain string
  (d) flags: Annotations.BuildFlagValues / LogicaProgram.UseFlagsAsParameters
      / FlagValue for every flag graph TLC enumerates, in resource-limited
      worker processes, plus a sample through the pipeline on SQLite.
"""
import collections
import concurrent.futures as cf
import json
import os
import re
import shutil
import sys
import traceback

from harness import common
from harness import evidence
from harness import findings
from harness import flagscheck
from harness import strlit

PROP = 'C10'

TIERS = {
    'quick': dict(n=3, pipe_full=2, pipe_nested_full=2, pipe_allforms=1,
                  pipe_full_positions=strlit.POSITIONS,
                  pipe_sample=100, flag_vals=30,
                  pipe_batch=40, sql_extra=14, sql_batch=50,
                  flag_cfgs=['FlagsQ1', 'FlagsQ2'], flag_model_only=[],
                  flag_sim=None, grow_sample=12, flag_pipe=60),
    'thorough': dict(n=4, pipe_full=3, pipe_nested_full=2, pipe_allforms=2,
                     pipe_full_positions=('fact', 'record', 'user'),
                     pipe_sample=1200, flag_vals=400,
                     pipe_batch=40, sql_extra=230, sql_batch=50,
                     flag_cfgs=['FlagsT1', 'FlagsT2'],
                     flag_model_only=['FlagsT3'],
                     flag_sim=('FlagsT3S', 'num=200'), grow_sample=200,
                     flag_pipe=1500),
}

RULE = (
    'strings: for every string s over the alphabet (\' " \\ NL TAB % { } $ # - '
    '/ * ; ` ( ) e-acute U+1D11E a space) up to length N: in each dialect d the '
    'text emitted for the literal s and for FlagValue of a flag valued s is '
    'exactly one literal token of d (StrLit!IsOneLiteral) and StrLit!Decode(d, '
    'text) = s; on SQLite the query returns Ctx(pos, LLexStr!LDecode(literal '
    'as written)) for every position and context; compile-only: the statement '
    'equals the one compiled for the plain string "qzq" outside the literal '
    'and the literal decodes to s (StrLit!SameShape).  A string containing '
    'positions = fact, list element, record field, ++ operand, flag default, '
    'user flag, and argument of a built-in call (Element, Join, Greatest, '
    'ToString, Format, Upper, Size, Like); literal forms "..", \'..\' with '
    'escapes, \'..\' with lone backslashes, triple-quoted.  A string containing '
    'the documented parameter form ${...} with an undefined name may be '
    'rejected with a diagnostic or transported verbatim.  flags: '
    'FlagsSem!Allowed - acyclic configuration: exactly the full expansion with '
    'the user value overriding the default; cyclic configuration: a '
    'diagnostic (RuleCompileException) or a text on which nothing is left to '
    'expand; never memory/time exhaustion.  distinct_nontrivial = number of '
    'enumerated strings containing at least one character other than "a" and '
    'space, plus the number of distinct flag configurations exported by TLC; '
    'evaluations = texts emitted by QL.ConvertToSql that TLC lexed + pipeline '
    'results + compiled statements + flag outcomes.')


# Flag values that look like numbers / keywords: they are strings all the same.
NUMERIC = ['02139', '007', '00', '0', '1', '-1', '-0', '+1', '1.50', '3.0',
           '.5', '5.', '1e3', '0x10', '123456789012345678901234567890',
           '9223372036854775808', 'true', 'null', 'NULL', '']
_NUMERIC_RE = re.compile(r'^-?\d+(\.\d+)?$')


def _Log(msg):
  print('[c10] ' + msg, flush=True)


# ---------------------------------------------------------------------------
# Selecting strings.

def _Selections(cfg):
  rng = common.Rng('c10-strings')
  alls = list(strlit.AllStrings(cfg['n']))
  full = [s for s in alls if len(s) <= cfg['pipe_full']]
  longer = [s for s in alls if len(s) > cfg['pipe_full']]
  sample = rng.sample(longer, min(cfg['pipe_sample'], len(longer)))
  # Hand-picked shapes that must always be present (injection idioms, format
  # and parameter forms) - all within the alphabet and the tier's bound.
  must = [s for s in ("';--", "*/", "/*", "\\'", "''", '"""'[:cfg['n']],
                      '%(a)', '{a}', '${a}'[:cfg['n']], '$a', "a\n-",
                      '\\\\' + "'", '`a`', "\u00e9\U0001D11E", "'a'", '${}')
          if len(s) <= cfg['n']]
  # Idioms with characters outside the enumerated alphabet (C10Trace!
  # ExtraChars): python-format and str.format placeholders as data, and a
  # lone backslash before Latin-1 / other BMP / astral characters.
  must += ['%s', ' %s ', '%d{1}', '{0}', '{0}{1}', '%(a)s', '%%s', '{{0}}',
           '\\\u0414', 'a\\\u0414\\\u2192', '\\\u2192', '\\\u00e9',
           '\\\U0001D11E', "\\\u0414'"]
  for s in must + NUMERIC:
    if s not in sample and s not in full:
      sample.append(s)
  return alls, full, sample


# Built-in call positions that are exhaustive like the others (one per template
# style + the pass-through); the rest take the shortest strings and the sample.
FN_FULL = ('element', 'joinsep', 'format', 'upper')


def _PipeTasks(cfg, full, sample):
  """All literal forms for the shortest strings; the primary form (and the
  triple-quoted one for a fifth of the strings) for the rest.  Exhaustive up to
  cfg['pipe_full'] at top level in cfg['pipe_full_positions']; the nested
  context and the other positions are exhaustive up to
  cfg['pipe_nested_full'] and sampled beyond."""
  tasks = []
  allf = [s for s in full if len(s) <= cfg['pipe_allforms']]
  tasks += strlit.PipeTasks(allf, cfg['pipe_batch'],
                            positions=strlit.POSITIONS)
  rest = [s for s in full if len(s) > cfg['pipe_allforms']] + sample
  in_sample = set(sample)
  fn_rest = [s for s in full if len(s) <= cfg['pipe_allforms']]

  def Primary(s, pos, ctx):
    if (pos in strlit.FN_EXPR and pos not in FN_FULL and len(s) > 1 and
        s not in in_sample):
      return []
    if s not in in_sample and (
        (ctx == 'nested' and len(s) > cfg['pipe_nested_full']) or
        (pos not in cfg['pipe_full_positions'] and
         len(s) > cfg['pipe_nested_full'])):
      return []
    # How a literal is read does not depend on where it stands: the
    # lone-backslash writing and the triple-quoted form are exercised in a
    # few positions only.
    return ['argv', strlit.PrimaryForm(s)] + (
        ['sqraw'] if (pos, ctx) in (('fact', 'top'), ('concat', 'nested'),
                                    ('upper', 'top')) else []) + (
        ['tq'] if strlit.ShardOf(s, 5) == 0 and pos not in strlit.FN_EXPR
        else [])
  tasks += strlit.PipeTasks(rest, cfg['pipe_batch'], forms_for=Primary)
  tasks += strlit.PipeTasks(fn_rest, cfg['pipe_batch'], forms_for=Primary,
                            positions=strlit.FN_POSITIONS)
  # Flag values read through FlagValue / ${flag} in other places than the head
  # of a fact: the number-looking values, the shortest strings and a slice of
  # the sample; the raw ${flag} form only for values without SQL-special
  # characters (it is textual substitution by design).
  fvals = NUMERIC + [s for s in full if len(s) == 1] + sample[:cfg['flag_vals']]
  plain = [s for s in fvals if not set(s) & set('\'"\\\n\t${}`')]

  def FlagForms(s, pos, ctx):
    if pos.endswith('param') and s not in plain:
      return []
    return ['argv', strlit.PrimaryForm(s)]
  tasks += strlit.PipeTasks(list(dict.fromkeys(fvals)), cfg['pipe_batch'],
                            forms_for=FlagForms,
                            positions=strlit.FLAG_POSITIONS)
  return tasks


def _SqlStrings(cfg, full, sample):
  rng = common.Rng('c10-sql')
  base = [s for s in full if len(s) <= 1] + ['02139', '1.50', '-0', 'true']
  pool = [s for s in full if len(s) > 1] + sample
  return base + rng.sample(pool, min(cfg['sql_extra'], len(pool)))


# ---------------------------------------------------------------------------
# Classification of bad records into signatures (findings.Classifier).

def _IndentOnly(got, exp):
  """The value differs from the expected one only by blanks inserted after
  newlines (what re-indenting the SQL text does to a multi-line literal)."""
  return ('\n' in exp and got != exp and
          re.sub(r'\n +', '\n', got) == re.sub(r'\n +', '\n', exp))


def _StringSignatures(rec, verdict, unit_bad=frozenset()):
  """-> list of (signature, human text).  unit_bad: (string, dialect) pairs
  whose emitted literal TLC rejected at the unit level in the same run."""
  s = rec['s'] if rec['k'] == 'unit' else rec['_key']
  out = []
  if rec['k'] == 'unit':
    for b in verdict['bad']:
      out.append(({'k': 'unit', 'd': b['d'], 'backslash': '\\' in s},
                  'unit %s via=%s: %s; s=%r emitted=%r' % (
                      b['d'], b['via'], b['why'], s,
                      rec[b['via']][b['d']])))
    return out
  why = list(verdict['bad'])[0]['why']
  sig = {'k': rec['k'], 'why': why}
  detail = rec.get('detail', '')
  if why == 'value-differs':
    exp = ('a' + s + 'a') if rec['pos'] in (
        'concat', 'joinsep', 'dcat', 'ucat', 'dparam', 'uparam') else s
    sig['indent_only'] = _IndentOnly(rec['got'], exp)
  if why.startswith('status-reject') or why.startswith('param-form'):
    sig['dollar_brace'] = '${' in s
    sig['params_undefined'] = ('Parameters' in detail and
                               'undefined' in detail)
  if rec['k'] == 'sql':
    sig['d'] = rec['d']
    sig['backslash'] = '\\' in s
    sig['unit_literal_bad'] = (s, rec['d']) in unit_bad
    try:
      emitted = strlit.EmitLiteral(rec['d'], s)
    except Exception:  # pylint: disable=broad-except
      emitted = ''
    sig['raw_newline_in_literal'] = '\n' in emitted
    # The statement is the reference statement with the emitted literal in
    # place of the marker, up to blanks inserted after newlines.
    ref = rec['ref']
    try:
      marker = strlit.EmitLiteral(rec['d'], strlit.MARKER)
    except Exception:  # pylint: disable=broad-except
      marker = None
    sig['indent_only'] = bool(
        marker and ref.count(marker) == 1 and
        _IndentOnly(rec['sql'], ref.replace(marker, emitted)))
  text = '%s %s/%s/%s: %s; s=%r got=%r %s' % (
      rec['k'], rec.get('d', 'sqlite'), rec['pos'], rec['ctx'], why, s,
      rec.get('got', '')[:80], detail[:160])
  return [(sig, text)]


def _FlagSignature(rec, verdict, case):
  why = verdict['why']
  e = {f: (case['usr'][f]['v'] if case['usr'][f]['has'] else
           case['def'][f]['v'] if case['def'][f]['has'] else [['r', f]])
       for f in case['def']}
  read = case['text'][0][1]
  sig = {'k': 'flags', 'via': rec['via'], 'cyclic': bool(case['cyclic']),
         'blowup': rec['status'] in ('timeout', 'memory'),
         'nested_ref': any(t[0] == 'r' for t in e[read]) and
                       e[read] != [['r', read]],
         'quote': any(t[0] == 'l' and t[1] == 39 for v in e.values()
                      for t in v)}
  text = 'flags %s/%s %s: text=%r flags=%r status=%s out=%r expected=%r %s' % (
      rec['via'], rec['level'], why, flagscheck.Mat(case['text']),
      {f: flagscheck.Mat(v) for f, v in sorted(e.items())}, rec['status'],
      strlit.Txt(rec['out'])[:60], strlit.Txt(verdict.get('exp', []))[:60],
      rec.get('detail', '')[:160])
  return sig, text


# ---------------------------------------------------------------------------
def _ModelRuns(cfg, pool):
  """Starts the TLC model runs (threads; each is a java subprocess)."""
  futs = {'lemma': pool.submit(strlit.Lemma, cfg['n'])}
  for c in cfg['flag_cfgs']:
    futs[c] = pool.submit(flagscheck.RunModel, c)
  for c in cfg['flag_model_only']:
    futs[c] = pool.submit(flagscheck.RunModel, c)
  if cfg['flag_sim']:
    futs['sim'] = pool.submit(flagscheck.RunModel, cfg['flag_sim'][0],
                              cfg['flag_sim'][1], common.Seed() + 1)
  return futs


# Development aid only (never a registered command): C10_SMOKE=1 shrinks the
# run to seconds of work; the evidence file says so.
SMOKE = dict(n=2, pipe_full=1, pipe_nested_full=1, pipe_allforms=1,
             pipe_full_positions=strlit.POSITIONS,
             pipe_sample=40, flag_vals=10, pipe_batch=40, sql_extra=4, sql_batch=50,
             flag_cfgs=['FlagsQ2'], flag_model_only=[], flag_sim=None,
             grow_sample=4, flag_pipe=12)


def Run(tier):
  clock = common.Clock()
  cfg = SMOKE if os.environ.get('C10_SMOKE') else TIERS[tier]
  klass = findings.Classifier(PROP)
  machinery = []
  violations = []        # (signature, text, replay payload)
  cov = collections.OrderedDict()

  with cf.ThreadPoolExecutor(max_workers=8) as pool:
    futs = _ModelRuns(cfg, pool)

    # ---- strings: record what the real code does -------------------------
    alls, full, sample = _Selections(cfg)
    unit = strlit.UnitRecords(alls)
    _Log('unit: %d strings x 8 dialects x {literal, FlagValue} recorded '
         '(%.0fs)' % (len(unit), clock()))
    ptasks = _PipeTasks(cfg, full, sample)
    pipe = strlit.PipeRecords(ptasks)
    _Log('pipeline(SQLite): %d records from %d programs (%.0fs)' % (
        len(pipe), len(ptasks), clock()))
    stasks = strlit.SqlTasks(_SqlStrings(cfg, full, sample), cfg['sql_batch'])
    sql = strlit.SqlRecords(stasks)
    _Log('compile-only: %d records from %d programs (%.0fs)' % (
        len(sql), len(stasks), clock()))
    srecs = unit + pipe + sql
    sfut = pool.submit(strlit.Validate, srecs, 'c10_%d' % os.getpid())

    # ---- flags: TLC's cases against the real code ------------------------
    model_stats = {}
    cases = []
    for name in cfg['flag_cfgs'] + cfg['flag_model_only'] + (
        ['sim'] if cfg['flag_sim'] else []):
      r, cs = futs[name].result()
      model_stats[name] = {'ok': r.ok, 'generated': r.generated,
                           'distinct': r.distinct, 'cases': len(cs),
                           'wall_s': round(r.wall, 1)}
      if not r.ok and name != 'sim':
        machinery.append('TLC %s failed: %s' % (name, r.out[-1500:]))
      if name == 'sim' and not cs:
        machinery.append('TLC simulate produced no cases: %s' % r.out[-800:])
      cases += cs
    _Log('flags models: %s (%.0fs)' % (json.dumps(model_stats), clock()))
    rng = common.Rng('c10-flags')
    rng.shuffle(cases)
    grows = [c for c in cases if c['grows']]
    calm = [c for c in cases if not c['grows']]
    run_cases = calm + grows[:cfg['grow_sample']]
    rng.shuffle(run_cases)
    funit = flagscheck.RunUnit(run_cases)
    fpipe = flagscheck.RunPipe(grows[:2] + calm[:cfg['flag_pipe']])
    _Log('flags: %d unit + %d pipeline records from %d cases (%d predicted '
         'to grow, %d of them replayed) (%.0fs)' % (
             len(funit), len(fpipe), len(cases), len(grows),
             min(len(grows), cfg['grow_sample']), clock()))
    frecs = funit + fpipe
    ffut = pool.submit(flagscheck.Validate, frecs,
                       'c10flags_%d' % os.getpid())

    # ---- verdicts --------------------------------------------------------
    lemma, carry = futs['lemma'].result()
    sbad, ssum, serr, sstats = sfut.result()
    fbad, fsum, ferr, fstats = ffut.result()
  _Log('TLC verdicts in (%.0fs)' % clock())
  for tag in ('c10_%d', 'c10flags_%d'):
    shutil.rmtree(os.path.join(common.BUILD, 'trace', tag % os.getpid()),
                  ignore_errors=True)

  if not lemma.ok or not carry:
    machinery.append('StrLitLemma failed: ' + lemma.out[-1500:])
  for e in serr + ferr:
    machinery.append('trace validation failed on %s rc=%s: %s' % (
        e[0], e[1], e[2][-1500:]))

  # strings
  byid = {r['id']: r for r in srecs}
  unit_bad = frozenset(
      (byid[rid]['s'], b['d']) for rid, v in sbad.items()
      if byid[rid]['k'] == 'unit' for b in v['bad'] if b['via'] == 'lit')
  for rid, v in sorted(sbad.items()):
    rec = byid[rid]
    for sig, text in _StringSignatures(rec, v, unit_bad):
      if not klass.Match(sig):
        violations.append((sig, text, {'kind': rec['k'], 'record': {
            a: b for a, b in rec.items() if a not in ('ref', 'sql')},
                                       'verdict': v, 'signature': sig}))
  # flags
  casebyid = {c['id']: c for c in cases}
  fbyid = {r['id']: r for r in frecs}
  for rid, v in sorted(fbad.items()):
    rec = fbyid[rid]
    case = casebyid[rid.split('/')[0]]
    sig, text = _FlagSignature(rec, v, case)
    if not klass.Match(sig):
      violations.append((sig, text, {'kind': 'flags', 'case': case,
                                     'record': rec, 'verdict': v,
                                     'signature': sig}))

  # ---- coverage / vacuity ------------------------------------------------
  unit_distinct = sum(s['unit_distinct'] for s in ssum)
  misplaced = sum(s['misplaced'] for s in ssum)
  judged = sum(s['records'] for s in ssum)
  per_pos = collections.Counter('%s/%s' % (r['pos'], r['ctx']) for r in pipe)
  per_form = collections.Counter(r['form'] for r in pipe)
  per_status = collections.Counter(r['status'] for r in pipe)
  per_dialect_sql = collections.Counter(r['d'] for r in sql)
  sql_status = collections.Counter(r['status'] for r in sql)
  fl_cyclic = sum(s['cyclic'] for s in fsum)
  fl_over = sum(s['overridden'] for s in fsum)
  fl_judged = sum(s['records'] for s in fsum)
  fl_status = collections.Counter('%s/%s/%s' % (r['via'], r['level'],
                                                r['status']) for r in frecs)
  if carry and unit_distinct != carry['total']:
    machinery.append('unit coverage: %d distinct strings judged, the model '
                     'has %d' % (unit_distinct, carry['total']))
  if misplaced:
    machinery.append('%d records outside their shard/alphabet' % misplaced)
  if judged != len(srecs) or fl_judged != len(frecs):
    machinery.append('TLC judged %d/%d string and %d/%d flag records' % (
        judged, len(srecs), fl_judged, len(frecs)))
  numeric_reads = collections.Counter(
      r['pos'] for r in pipe
      if r['pos'] in ['default', 'user'] + strlit.FLAG_POSITIONS and
      _NUMERIC_RE.match(r['_key']))
  for pos in ['default', 'user'] + strlit.FLAG_POSITIONS:
    if not numeric_reads.get(pos):
      machinery.append('required feature missing: number-looking flag value '
                       'read in position %s' % pos)
  for pos in strlit.POSITIONS + strlit.FN_POSITIONS + strlit.FLAG_POSITIONS:
    for ctx in (('top',) if pos in strlit.TOP_ONLY else ('top', 'nested')):
      if not per_pos.get('%s/%s' % (pos, ctx)):
        machinery.append('position %s/%s never exercised' % (pos, ctx))
  per_dialect_fn = collections.Counter(
      r['d'] for r in sql if r['pos'] in strlit.FN_EXPR and
      r['status'] == 'ok')
  for d in strlit.DIALECTS:
    if not per_dialect_fn.get(d):
      machinery.append('built-in call positions never compiled for %s' % d)
  for d in strlit.DIALECTS:
    if not per_dialect_sql.get(d):
      machinery.append('dialect %s never compiled' % d)
  for f in strlit.FORMS + ['argv']:
    if not per_form.get(f):
      machinery.append('literal form %s never exercised' % f)
  if per_status.get('ok', 0) < 0.9 * len(pipe):
    machinery.append('pipeline mostly failing: %r' % dict(per_status))
  if sql_status.get('ok', 0) < 0.9 * len(sql):
    machinery.append('compilation mostly failing: %r' % dict(sql_status))
  if not fl_cyclic or fl_cyclic == fl_judged or not fl_over:
    machinery.append('flags vacuous: cyclic=%d overridden=%d of %d' % (
        fl_cyclic, fl_over, fl_judged))

  # ---- report ------------------------------------------------------------
  known_lines = klass.Report()
  shown = collections.Counter()
  nviol = 0
  for sig, text, payload in violations:
    key = json.dumps(sig, sort_keys=True)
    shown[key] += 1
    if shown[key] > 3:       # at most 3 replays per distinct signature
      continue
    nviol += 1
    payload['text'] = text
    path = common.WriteReplay(PROP, 'c10_%s_%s%03d' % (
        tier, '' if common.REPO == '/repo' else common.Sha(common.REPO)[:6] + '_',
        nviol), payload)
    print('  ' + text[:400], flush=True)
    common.Violation(PROP, path)
  for m in machinery:
    print('MACHINERY-FAILURE property=%s %s' % (PROP, m[:2000]), flush=True)

  nontrivial = sum(1 for s in alls if any(c not in 'a ' for c in s))
  states = (lemma.distinct + sstats['tlc_states'] + fstats['tlc_states'] +
            sum(m['distinct'] for m in model_stats.values()))
  transitions = (lemma.generated + sstats['tlc_states'] + fstats['tlc_states']
                 + sum(m['generated'] for m in model_stats.values()))
  cov.update({
      'states': states,
      'transitions': transitions,
      'traces_validated_against_impl': len(srecs) + len(frecs),
      'evaluations': len(unit) * 16 + len(pipe) + len(sql) + len(frecs),
      'distinct_nontrivial': nontrivial + len(cases),
      'rule': RULE,
      'exhaustive': False,
      'smoke_run': bool(os.environ.get('C10_SMOKE')),
      'explanation': 'unit level and lemmas exhaustive up to N; pipeline '
                     'exhaustive up to pipeline_sqlite.exhaustive_up_to_len, '
                     'sampled beyond; flag configurations exhaustive per cfg '
                     'except those predicted to grow (sampled)',
      'samples': [
          {'unit': {'s': unit[len(unit) // 3]['s'],
                    'emitted': dict(unit[len(unit) // 3]['lit'])}},
          {'pipe': {a: b for a, b in pipe[len(pipe) // 2].items()
                    if a in ('pos', 'ctx', 'form', 'lit', 'status', 'got')}},
          {'flags': {'text': flagscheck.Mat(frecs[0]['text']),
                     'def': {f: flagscheck.Mat(v['v']) if v['has'] else None
                             for f, v in frecs[0]['def'].items()},
                     'usr': {f: flagscheck.Mat(v['v'])
                             for f, v in frecs[0]['usr'].items() if v['has']},
                     'status': frecs[0]['status'],
                     'out': strlit.Txt(frecs[0]['out'])}}],
      'lemma': {'N': cfg['n'], 'strings': carry and carry['total'],
                'states': lemma.distinct, 'carry': carry and carry['carry'],
                'param_form_strings': carry and carry['param'],
                'wall_s': round(lemma.wall, 1)},
      'unit': {'strings': len(unit), 'distinct_judged_by_tlc': unit_distinct,
               'dialects': strlit.DIALECTS, 'via': ['literal', 'FlagValue'],
               'texts_judged': len(unit) * 16},
      'pipeline_sqlite': {'records': len(pipe), 'programs': len(ptasks),
                          'exhaustive_up_to_len': cfg['pipe_full'],
                          'all_forms_up_to_len': cfg['pipe_allforms'],
                          'sampled_longer': len(sample),
                          'per_position_context': dict(sorted(per_pos.items())),
                          'per_form': dict(sorted(per_form.items())),
                          'per_status': dict(sorted(per_status.items())),
                          'number_looking_flag_values_read': dict(
                              sorted(numeric_reads.items()))},
      'compile_only': {'records': len(sql), 'programs': len(stasks),
                       'per_position': dict(sorted(collections.Counter(
                           r['pos'] for r in sql).items())),
                       'per_dialect': dict(sorted(per_dialect_sql.items())),
                       'per_status': dict(sorted(sql_status.items()))},
      'flags': {'models': model_stats, 'cases': len(cases),
                'cases_predicted_to_grow': len(grows),
                'grow_cases_replayed': min(len(grows), cfg['grow_sample']),
                'records': len(frecs), 'cyclic_records': fl_cyclic,
                'records_with_user_override': fl_over,
                'per_via_level_status': dict(sorted(fl_status.items()))},
      'tlc_bad_records': {'strings': len(sbad), 'flags': len(fbad)},
      'known_findings_reproduced': known_lines,
      'known_findings_not_reproduced': klass.NotReproduced(),
      'machinery_failures': machinery,
  })
  evidence.Write(PROP, tier, 'model_checking', cov, clock(),
                 violations=nviol, assumptions=[
                     'the literal syntaxes in spec/StrLit.tla are the '
                     'engines\' documented lexical rules (no engine except '
                     'SQLite runs offline)',
                     'octal, \\x and \\U escapes are outside the modelled '
                     'alphabet; a text relying on them is not accepted',
                     'a string containing ${name} is the documented parameter '
                     'form: expansion semantics, not verbatim transport',
                     'a SQLite record is observed through its JSON text'])
  _Log('done: %d TLC-bad string records, %d TLC-bad flag records, %d '
       'violation replays, %d known findings reproduced (%.0fs)' % (
           len(sbad), len(fbad), nviol, len(known_lines), clock()))
  if machinery:
    return 2
  return 1 if nviol else 0


# ---------------------------------------------------------------------------
def Replay(path):
  """Re-runs the real code for the stored case and lets TLC judge it again."""
  with open(path) as f:
    p = json.load(f)
  klass = findings.Classifier(PROP)
  kind = p['kind']
  if kind == 'flags':
    case = p['case']
    level = p['record']['level']
    recs = (flagscheck.RunPipe([case], timeout=30) if level == 'pipe'
            else flagscheck.RunUnit([case], timeout=30))
    recs = [r for r in recs if r['via'] == p['record']['via']]
    bad, _, errors, _ = flagscheck.Validate(recs, 'c10replay_%d' % os.getpid(),
                                               nshards=1)
    out = [(_FlagSignature(r, bad[r['id']], case)) for r in recs
           if r['id'] in bad]
  else:
    rec = p['record']
    s = rec['s'] if kind == 'unit' else rec['_key']
    if kind == 'unit':
      recs = strlit._UnitChunk([s])
    elif kind == 'pipe':
      recs = strlit._PipeTask((rec['pos'], rec['ctx'], rec['form'], [s]))
    else:
      recs = strlit._SqlTask((rec['d'], rec['pos'], rec['ctx'], rec['form'],
                              [s])) + strlit._UnitChunk([s])
    bad, _, errors, _ = strlit.Validate(recs, 'c10replay_%d' % os.getpid(),
                                           nshards=1)
    unit_bad = frozenset((r['s'], b['d']) for r in recs
                         if r['k'] == 'unit' and r['id'] in bad
                         for b in bad[r['id']]['bad'] if b['via'] == 'lit')
    out = []
    for r in recs:
      if r['id'] in bad and r['k'] == kind:
        out += _StringSignatures(r, bad[r['id']], unit_bad)
  shutil.rmtree(os.path.join(common.BUILD, 'trace',
                             'c10replay_%d' % os.getpid()),
                ignore_errors=True)
  if errors:
    print('MACHINERY-FAILURE property=%s %s' % (PROP, errors[0][2][-1500:]))
    return 2
  rc = 0
  for sig, text in out:
    print('  ' + text[:600])
    if klass.Match(sig):
      continue
    common.Violation(PROP, path)
    rc = 1
  klass.Report()
  if not out:
    print('replay: TLC accepts what the real code does now (no violation)')
  return rc
