"""C11 - documented shorthand forms mean the same as their long forms."""
import os

from harness import common
from harness import families
from harness import gen
from harness import meta
from harness import semrun

PROP = 'C11'


def Variants(prog, rng, limit):
  """(kind, variant program) for single sites (sampled up to `limit`), all
  sites at once, and the structural equivalences."""
  out = []
  sites = meta.FormSites(prog)
  rng.shuffle(sites)
  seen_kinds = set()
  # one site of every kind first, then more
  ordered = []
  for kind, site in sites:
    if kind not in seen_kinds:
      seen_kinds.add(kind)
      ordered.append((kind, site))
  ordered += [s for s in sites if s not in ordered]
  for kind, site in ordered[:limit]:
    out.append((kind, meta.ApplyForm(prog, kind, site, rng)))
  if len(sites) > 1:
    v = prog
    # structural rewrites change paths: apply annotations only, then rewrites
    for kind, site in sites:
      if kind not in ('in_as_alternatives', 'eq_single_infix_lhs'):
        v = meta.ApplyForm(v, kind, site, rng)
    out.append(('all_sites', v))
  for name, fn in (('rules_as_disjunction', meta.MergeRulesAsDisjunction),
                   ('pcall_as_conjunct', meta.LiftPcalls)):
    v = fn(prog)
    if v is not None:
      out.append((name, v))
  v = meta.ShortNamed(prog, rng)
  if v is not None:
    out.append(('named_short', v))
  return out


def Cases(tier):
  n = int(os.environ.get('VERIF_N', 0)) or (60 if tier == 'quick' else 400)
  limit = 7 if tier == 'quick' else 20
  rng = common.Rng(PROP)
  cases = []
  n_fam = (2 if tier == 'quick' else 6) * len(families.SEM_FAMILIES)
  for i in range(n + n_fam):
    if i >= n:
      name, fn = families.SEM_FAMILIES[(i - n) % len(families.SEM_FAMILIES)]
      prog, query, feats = fn(rng)
      # the base is the long form: the variants introduce the shorthand
      prog = meta.ClearForm(prog, 'implication')
    else:
      prog, query, feats = gen.Generate(rng, gen.SUGAR)
    if i % 4 == 0 and i < n:
      prog = meta.SameHeadRules(prog, rng)
    bid = 'b%d' % i
    cases.append({'id': bid, 'prog': prog, 'query': query,
                  'meta': {'features': feats + ['base']}})
    for k, (kind, v) in enumerate(Variants(prog, rng, limit)):
      cases.append({'id': '%sv%d' % (bid, k), 'prog': v, 'query': query,
                    'base': prog, 'base_id': bid,
                    'qmap': [(q, q, False) for q in query],
                    'meta': {'features': feats + ['sugar_' + kind],
                             'sig': {'sugar': kind}}})
  return cases + semrun.Reproducers(PROP)


REQUIRED = ['fam_implication_conj', 'fam_multi_disj_conj', 'fam_partial_call_in_combine', 'fam_repeated_call', 'fam_double_negation', 'fam_bound_in_repeated',
            'sugar_head_positional_as_named', 'sugar_head_value_long',
            'sugar_head_value_long_agg', 'sugar_atom_positional_as_named',
            'sugar_eq_single', 'sugar_combine_syntax',
            'sugar_neg_as_max_is_null', 'sugar_neg_as_implication',
            'sugar_in_as_alternatives', 'sugar_rules_as_disjunction',
            'sugar_pcall_as_conjunct', 'sugar_named_short', 'sugar_all_sites']


def Run(tier):
  return semrun.StandardRun(
      PROP, tier, Cases(tier), REQUIRED,
      rule=('random programs of the SUGAR profile; for every occurrence of a '
            'documented shorthand (positional/colN, a:/a: a, F(x) = v / '
            'logica_value: v, functional call / extra conjunct, = / ==, ~P / '
            'Max{1 :- P} is null, A => B / ~(A, ~B), the three combine '
            'syntaxes, x in [..] / alternatives, several rules / one rule with '
            '|, P(k) Op= e / P(k, logica_value? Op= e) distinct) a variant '
            'with that one site toggled, plus all sites at once; TLC checks '
            'Den(variant) = Den(base) and validates the rows of both'),
      assumptions=['as C01/C02'], metamorphic=True)


def Replay(path):
  return semrun.StandardReplay(PROP, path, metamorphic=True)
