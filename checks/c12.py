"""C12 - imports isolate modules and mean the same as one flattened program.

Specification: spec/ImportsDef.tla (meaning: ImFlatten, ImExpect), spec/Imports.tla
(import resolution as a state machine; TLC checks it against the meaning for
every enumerated import graph and prints each graph with the specification's
expectation), spec/ImportsTrace.tla (+ LSem: judges what the real pipeline did).

Conformance: every exported graph is written as real files into a fresh
directory under build/c12/, the REAL pipeline is run on it with the Python
parser and with the C++ parser, and TLC (ImportsTrace) decides from the graph
and the recorded observation:
  accepted graphs  rows of main's predicates = Den(ImFlatten(g)); every file's
                   rules present exactly once; main's names kept
  error graphs     a ParsingException (diagnostic), not an internal error and
                   not acceptance.
"""
import collections
import concurrent.futures as cf
import contextlib
import io
import json
import os
import shutil

from harness import common
from harness import cppbuild
from harness import evidence
from harness import findings
from harness import impl
from harness import ir
from harness import semcheck
from harness import tlc

PROP = 'C12'
SHARDS = ['acc1', 'acc2', 'acc3', 'acc4', 'acc5', 'dbl', 'cyc1', 'cyc2', 'cyc3',
          'undefined', 'unused', 'redefinition', 'agg', 'shadow', 'names', 'fun']
# quick tier: how many graphs are drawn from each TLC shard
QUICK_PER_SHARD = {'acc1': 40, 'acc2': 45, 'acc3': 45, 'acc4': 45, 'acc5': 45,
                   'dbl': 30, 'cyc1': 20, 'cyc2': 20, 'cyc3': 20,
                   'undefined': 25, 'unused': 25, 'redefinition': 25,
                   'agg': 45, 'shadow': 45, 'names': 48, 'fun': 45}
# shapes the property quantifies over: each must reach the implementation
REQUIRED_SHAPES = ['ok', 'chain', 'diamond', 'double_import', 'same_base_name',
                   'alias', 'no_alias', 'two_roots', 'table_helper',
                   'functional_helper', 'circular', 'undefined', 'unused',
                   'redefinition', 'agg_multi_rule', 'agg_disjunction',
                   'shadow_real_first', 'shadow_decoy_first',
                   'lowercase_private', 'redefinition_in_module',
                   'functor_const_in_module', 'functor_const_across_import']
# quick tier: at least this many graphs of a shape (default 5)
MIN_PER_SHAPE = {'redefinition_in_module': 20, 'lowercase_private': 20,
                 'functor_const_in_module': 20,
                 'functor_const_across_import': 12}
REQUIRED_ACTIONS = ['BeginFile', 'SkipParsed', 'Circular', 'RejectImport',
                    'FinishFile', 'Emit']
PARSERS = ('PY', 'CPP')
# many small JVMs run side by side: keep each one's GC from taking 16 threads
JVM_ENV = {'JAVA_TOOL_OPTIONS': '-XX:ParallelGCThreads=2 -XX:CICompilerCount=2'}


# ---- spec -> cases -------------------------------------------------------------


def ParseCaseLine(line):
  line = line.strip()
  if not (line.startswith('<<"CASE", "') and line.endswith('">>')):
    return None
  try:
    return json.loads(json.loads(line[10:-2]))
  except ValueError:
    return None


def Enumerate(shards=None, slice_='all'):
  """Runs TLC on spec/Imports.tla, one process per shard.  Returns
  (cases, stats) or raises RuntimeError when TLC reports anything but success
  (an invariant violation here means the specification contradicts itself)."""
  shards = shards or SHARDS

  def One(sh):
    return sh, tlc.Run('Imports', workers=2, env=dict(JVM_ENV, C12_SHARD=sh, C12_SLICE=slice_),
                       coverage=True, tag='c12_' + sh, heap='2g', timeout=1500)
  with cf.ThreadPoolExecutor(max_workers=len(shards)) as ex:
    results = list(ex.map(One, shards))
  cases = []
  stats = {'states': 0, 'generated': 0, 'initial': 0, 'depth': 0,
           'actions': collections.Counter(), 'per_shard': {}, 'tlc_wall': 0.0}
  seen = set()
  for sh, r in results:
    if not r.ok:
      raise RuntimeError('TLC failed on Imports shard %s (rc=%s, invariants '
                         'violated: %s)\n%s' % (sh, r.rc, r.invariant_violated,
                                                r.out[-3000:]))
    got = [c for c in (ParseCaseLine(l) for l in r.out.splitlines()) if c]
    cov = r.Coverage()
    if len(got) != cov.get('Emit', (0, 0))[0] or not got:
      raise RuntimeError('shard %s: %d CASE lines parsed, Emit fired %s times'
                         % (sh, len(got), cov.get('Emit')))
    for c in got:
      c['shard'] = sh
      c['id'] = 'g' + common.Sha(c['g'])
      if c['id'] in seen:
        continue
      seen.add(c['id'])
      if c['machine'] != c['expect']:
        raise RuntimeError('machine outcome differs from ImExpect: %s' % c['id'])
      cases.append(c)
    stats['states'] += r.distinct
    stats['generated'] += r.generated
    stats['initial'] += cov.get('Init', (0, 0))[0]
    stats['depth'] = max(stats['depth'], r.depth)
    stats['tlc_wall'] = max(stats['tlc_wall'], r.wall)
    for a, (d, _) in cov.items():
      stats['actions'][a] += d
    stats['per_shard'][sh] = {'graphs': len(got), 'states': r.distinct}
  stats['transitions'] = stats['generated'] - stats['initial']
  stats['actions'] = dict(stats['actions'])
  cases.sort(key=lambda c: c['id'])
  return cases, stats


def Select(cases, tier):
  if tier == 'thorough':
    return list(cases)
  rng = common.Rng('c12-select')
  by_shard = collections.defaultdict(list)
  for c in cases:
    by_shard[c['shard']].append(c)
  out = []
  for sh in sorted(by_shard):
    pool = by_shard[sh]
    k = min(len(pool), QUICK_PER_SHARD.get(sh, 20))
    out += rng.sample(pool, k)
  # make sure no shape is left out by bad luck
  have = collections.Counter(s for c in out for s in c['shapes'])
  chosen = {c['id'] for c in out}
  for s in REQUIRED_SHAPES:
    need = MIN_PER_SHAPE.get(s, 5)
    if have[s] < need:
      extra = [c for c in cases if s in c['shapes'] and c['id'] not in chosen]
      for c in rng.sample(extra, min(len(extra), need - have[s])):
        out.append(c)
        chosen.add(c['id'])
        have.update(c['shapes'])
  return out


# ---- cases -> files --------------------------------------------------------------


def ImportLine(g, imp):
  path = '.'.join(g['files'][imp['t'] - 1]['path'])
  s = 'import %s.%s' % (path, imp['pred'])
  if imp['alias']:
    s += ' as %s' % imp['alias']
  return s + ';'


def ModuleText(g, imps, preds, main=False, makes=()):
  """Source text of one physical file: the import statements followed by the
  module the specification printed."""
  lines = ['@Engine("sqlite");'] if main else []
  lines += [ImportLine(g, i) for i in imps]
  body = ir.RenderProgram({'preds': preds, 'ann': [], 'makes': list(makes)},
                          engine_line=None)
  return '\n'.join(lines) + '\n' + body


def FileText(case, f):
  """Text of the copy of file f (1 = main) that the lookup reads."""
  g = case['g']
  if f == 1:
    return ModuleText(g, g['imps'][0], case['mods'][0], main=True,
                      makes=case.get('main_makes', ()))
  for c in case['copies']:
    if c['f'] == f and c['real']:
      return ModuleText(g, c['imps'], c['mod'], makes=c.get('makes', ()))
  raise KeyError(f)


def FlatText(case):
  """The hand-flattened one-file program: text of ImFlatten(g)."""
  return ir.RenderProgram(dict(case['flat'], ann=[]))


def Materialize(case, base):
  """Writes every physical file of the graph (case['copies']: the modules and
  the decoys that share a path with a module under another root) under
  base/root<k>/...; returns (main_text, import_root, {relative path: text})."""
  g = case['g']
  roots = [os.path.join(base, 'root%d' % k) for k in range(1, g['nroots'] + 1)]
  for r in roots:
    os.makedirs(r, exist_ok=True)
  written = {}
  for c in case['copies']:
    fl = g['files'][c['f'] - 1]
    rel = os.path.join('root%d' % c['root'], *fl['path']) + '.l'
    full = os.path.join(base, rel)
    os.makedirs(os.path.dirname(full), exist_ok=True)
    text = ModuleText(g, c['imps'], c['mod'], makes=c.get('makes', ()))
    assert rel not in written, rel
    with open(full, 'w') as fh:
      fh.write(text)
    written[rel] = text
  import_root = roots[0] if len(roots) == 1 else roots
  return FileText(case, 1), import_root, written


# ---- the implementation ----------------------------------------------------------


def MsgKind(msg):
  for key, kind in (('Circular imports', 'circular'), ('not defined', 'undefined'),
                    ('not used', 'unused'), ('overridden', 'redefinition'),
                    ('equal modulo', 'paths_equal_modulo'),
                    ('not found', 'file_not_found')):
    if key in msg:
      return kind
  return 'other'


def Heads(parsed):
  return [r['head']['predicate_name'] for r in parsed['rule']
          if not r['head']['predicate_name'].startswith('@')]


def Observe(main_text, import_root, query, mode, flat_text=None):
  """One run of the real pipeline with parser `mode`."""
  m = impl.Mods()
  parse = m['parse']
  os.environ['LOGICA_PARSER'] = mode
  ob = {'parser': mode, 'status': 'ok', 'obs': [], 'heads': [], 'cls': '',
        'msg': '', 'msgkind': '', 'flat_heads': []}
  sink = io.StringIO()
  if flat_text is not None:
    # the same parser on the hand-flattened program (a failure here is not
    # about imports: reported as a harness failure)
    with contextlib.redirect_stderr(sink), contextlib.redirect_stdout(sink):
      ob['flat_heads'] = Heads(parse.ParseFile(flat_text))
  try:
    with contextlib.redirect_stderr(sink), contextlib.redirect_stdout(sink):
      parsed = parse.ParseFile(main_text, import_root=import_root)
    ob['heads'] = Heads(parsed)
  except BaseException as e:  # pylint: disable=broad-except
    if isinstance(e, KeyboardInterrupt):
      raise
    text = getattr(e, '_formatted_error_text', None)
    msg = text if text is not None else impl.ExcText(e)
    diag = isinstance(e, parse.ParsingException)
    if text is not None and text.startswith('Error: '):
      diag = False   # the C++ bridge wraps std::exception the same way
    ob.update(status='diag' if diag else 'internal', cls=type(e).__name__,
              msg=msg[:600], msgkind=MsgKind(msg))
    return ob
  res = impl.RunProgram(main_text, query, import_root=import_root)
  bad = None
  if res['status'] != 'ok':
    bad = res
  else:
    for p in query:
      pr = res['preds'].get(p, {})
      if pr.get('status') != 'ok':
        bad = pr
        break
      ob['obs'].append({'p': p, 'rows': pr['rows']})
  if bad is not None:
    ob.update(status='runfail', cls=bad.get('cls', ''),
              msg=(bad.get('msg') or '')[:600], obs=[])
    ob['msgkind'] = MsgKind(ob['msg'])
  return ob


def RunCase(case):
  base = os.path.join(common.BuildDir('c12', 'run'),
                      '%s_%d' % (case['id'], os.getpid()))
  shutil.rmtree(base, ignore_errors=True)
  os.makedirs(base)
  try:
    main_text, import_root, written = Materialize(case, base)
    flat_text = FlatText(case) if case['expect'] == 'ok' else None
    obs = []
    for mode in PARSERS:
      try:
        obs.append(Observe(main_text, import_root, case['query'], mode,
                           flat_text))
      except BaseException as e:  # pylint: disable=broad-except
        if isinstance(e, KeyboardInterrupt):
          raise
        obs.append({'parser': mode, 'status': 'harness', 'obs': [], 'heads': [],
                    'flat_heads': [], 'cls': type(e).__name__,
                    'msg': str(e)[:600], 'msgkind': ''})
    return {'id': case['id'], 'main': main_text, 'files': written,
            'flat': flat_text, 'nroots': case['g']['nroots'], 'obs': obs}
  finally:
    os.environ['LOGICA_PARSER'] = 'PY'
    shutil.rmtree(base, ignore_errors=True)


def RunImpl(cases):
  cppbuild.Prepare()     # builds the current parser_cpp/logica_parse.cpp
  return common.ParallelMap(RunCase, cases, chunksize=4)


# ---- observations -> TLC -----------------------------------------------------------


def TraceLines(case, run):
  out = []
  for ob in run['obs']:
    out.append({'id': case['id'], 'parser': ob['parser'], 'g': case['g'],
                'status': ob['status'], 'obs': ob['obs'], 'heads': ob['heads'],
                'flat_heads': ob['flat_heads']})
  return out


def Validate(lines, tag, timeout=3000):
  """ImportsTrace over ndjson shards (one TLC per shard).  Returns
  ({(id, parser): verdict}, stats, errors)."""
  shards = min(common.NCPU, max(1, len(lines) // 150))
  d = common.BuildDir('trace', tag)
  for f in os.listdir(d):
    os.unlink(os.path.join(d, f))
  paths = []
  for s in range(shards):
    part = lines[s::shards]
    if not part:
      continue
    path = os.path.join(d, 'shard%02d.ndjson' % s)
    with open(path, 'w') as f:
      for l in part:
        f.write(json.dumps(l, separators=(',', ':')) + '\n')
    paths.append(path)

  def One(path):
    return tlc.Run('ImportsTrace', workers=1,
                   env=dict(JVM_ENV, TRACE_FILE=path),
                   timeout=timeout, tag=tag, heap='2g')
  with cf.ThreadPoolExecutor(max_workers=common.NCPU) as ex:
    results = list(ex.map(One, paths))
  verdicts, errors, states = {}, [], 0
  for path, r in zip(paths, results):
    states += r.distinct
    for line in r.out.splitlines():
      v = semcheck.ParseVerdictLine(line)
      if v:
        verdicts[(v['id'], v['parser'])] = v
    if not r.ok:
      errors.append((path, r.rc, r.out[-3000:]))
  return verdicts, {'tlc_states': states, 'shards': len(paths)}, errors


# ---- verdicts -> report --------------------------------------------------------------

NONTRIVIAL = {'chain', 'diamond', 'double_import', 'same_base_name', 'two_roots',
              'circular', 'undefined', 'unused', 'redefinition',
              'agg_multi_rule', 'agg_disjunction', 'shadow_real_first',
              'shadow_decoy_first', 'lowercase_private',
              'functor_const_in_module', 'functor_const_across_import'}
RULE = ('TLC enumerates every import graph of spec/Imports.tla (main + <= 3 '
        'imported files in <= 3 directories; <= 2 import statements per file, '
        'both statement orders; 3 alias styles; 5 path namings incl. shared '
        'base names; module contents pool table/functional Helper; 1 or 2 '
        'import roots; plus: every file defining a same-named Agg that '
        'aggregates over several rules or over a disjunction (the parser '
        'rewrites it through auxiliary predicates); a second file with the '
        'same module path and other contents under the other import root '
        '(the first root wins), both orders; the main program importing one '
        'file twice; every file naming its private predicate helper / '
        '_helper / h2x / `helper` (lower-case, underscore, digit, backtick); '
        'functor applications with a constant argument inside every file '
        '(VeryBig := Big(Threshold: 4)) and across the import boundary (main '
        'imports Big and Threshold and makes Made := BigI(ThrI: 5)); all '
        'cyclic adjacencies incl. self import, and one injected error per '
        'statement: undefined / unused / redefinition).  quick = seeded '
        'stratified sample per TLC shard, thorough = all.  Each graph is run '
        'with the PY and the CPP parser.  A graph is non-trivial if it is more '
        'than one plain import of one file: chain, diamond, double import, '
        'shared base name, two roots or an error shape; distinct = distinct '
        'graph (sha of the exported graph).  Outside the fragment '
        '(ImInFragment): two imports under the same local name in one file, '
        'more than one error kind in one graph, files not reachable from main.')


def Signature(v, ob):
  return {'clause': v['clause'], 'parser': v['parser'], 'expect': v['expect'],
          'shares_base': bool(v['shares_base']), 'status': ob['status'],
          'cls': ob['cls'], 'msgkind': ob['msgkind']}


def Drift(case, ob):
  """Implementation-shaped expectations (R1: informational only)."""
  out = []
  if case['expect'] == 'ok' and ob['status'] == 'ok' and case['g']['pool'] <= 2:
    want = set()
    for f, mod in enumerate(case['mods']):
      for p in mod:
        want.add(case['prefixes'][f] + p['name'])
    if want != set(ob['heads']):
      out.append('prefix')
  if case['expect'] != 'ok' and ob['status'] == 'diag':
    if ob['msgkind'] != case['expect']:
      out.append('message:%s->%s' % (case['expect'], ob['msgkind']))
  return out


def Rows(ob):
  return {x['p']: [[impl.Untag(v) for _, v in sorted(r.items())]
                   for r in x['rows']] for x in ob['obs']}


def Sample(case, run):
  return {'id': case['id'], 'graph': case['g'], 'expect': case['expect'],
          'shapes': case['shapes'], 'main': run['main'], 'files': run['files'],
          'observed': [{'parser': o['parser'], 'status': o['status'],
                        'cls': o['cls'], 'msgkind': o['msgkind'],
                        'rows': Rows(o),
                        'heads': o['heads']} for o in run['obs']]}


def Judge(cases, runs, tag):
  """Returns (verdicts, bad list of (case, run, ob, verdict), stats) or raises
  RuntimeError for machinery failures."""
  lines = []
  for c, r in zip(cases, runs):
    for ob in r['obs']:
      if ob['status'] == 'harness':
        raise RuntimeError('harness failure on %s/%s: %s %s' % (
            c['id'], ob['parser'], ob['cls'], ob['msg']))
    lines += TraceLines(c, r)
  verdicts, vstats, errors = Validate(lines, tag)
  if errors:
    raise RuntimeError('TLC failed on ImportsTrace: %s' % (errors[0],))
  bad = []
  for c, r in zip(cases, runs):
    for ob in r['obs']:
      v = verdicts.get((c['id'], ob['parser']))
      if v is None:
        raise RuntimeError('no verdict for %s/%s' % (c['id'], ob['parser']))
      if v['expect'] != c['expect']:
        raise RuntimeError('trace spec and exporter disagree on ImExpect: %s'
                           % c['id'])
      if not v['ok']:
        bad.append((c, r, ob, v))
  vstats['lines'] = len(lines)
  return verdicts, bad, vstats


def Run(tier):
  clock = common.Clock()
  try:
    # quick: one sixth (chosen by the seed) of the adjacencies over 3 imported
    # files, every adjacency over <= 2; thorough: everything
    slice_ = 'all' if tier == 'thorough' else str(common.Seed() % 6)
    all_cases, stats = Enumerate(slice_=slice_)
  except RuntimeError as e:
    print('MACHINERY-FAILURE property=%s %s' % (PROP, str(e)[:3000]))
    evidence.Write(PROP, tier, 'model_checking',
                   {'explanation': 'TLC failed: ' + str(e)[:500]}, clock())
    return 2
  t_enum = clock()
  cases = Select(all_cases, tier)
  runs = RunImpl(cases)
  t_run = clock()
  try:
    verdicts, bad, vstats = Judge(cases, runs, 'c12_' + tier)
  except RuntimeError as e:
    print('MACHINERY-FAILURE property=%s %s' % (PROP, str(e)[:3000]))
    evidence.Write(PROP, tier, 'model_checking',
                   {'explanation': 'trace validation failed: ' + str(e)[:500]},
                   clock())
    return 2

  classifier = findings.Classifier(PROP)
  violations = []
  known = collections.Counter()
  for c, r, ob, v in bad:
    sig = Signature(v, ob)
    f = classifier.Match(sig)
    if f:
      known[f['id']] += 1
      continue
    path = common.WriteReplay(PROP, '%s_%s' % (c['id'], ob['parser']), {
        'case': c, 'run': r, 'parser': ob['parser'], 'verdict': v,
        'signature': sig,
        'how': 'files are under run.files (root<k>/...), main program is '
               'run.main; ./check C12 --replay <this file> re-runs it'})
    violations.append(path)
    common.Violation(PROP, path)
  classifier.Report()

  # coverage: shapes that reached the implementation and were judged
  shapes = collections.Counter()
  shape_ok = collections.Counter()
  per = collections.Counter()
  drift = collections.Counter()
  nontrivial = set()
  badkeys = {(c['id'], ob['parser']) for c, _, ob, _ in bad}
  for c, r in zip(cases, runs):
    shapes.update(c['shapes'])
    if set(c['shapes']) & NONTRIVIAL:
      nontrivial.add(c['id'])
    for ob in r['obs']:
      per['%s/%s/%s' % (ob['parser'], c['expect'], ob['status'])] += 1
      if (c['id'], ob['parser']) not in badkeys:
        for s in c['shapes']:
          shape_ok['%s/%s' % (s, ob['parser'])] += 1
      for d in Drift(c, ob):
        drift['%s/%s' % (ob['parser'], d)] += 1
  for k, n in sorted(drift.items()):
    print('MODEL-DRIFT property=%s %s in %d observation(s) (informational: '
          'the implementation-shaped model differs, the property holds)'
          % (PROP, k, n), flush=True)

  rc = 1 if violations else 0
  missing = [s for s in REQUIRED_SHAPES if shapes[s] == 0]
  missing += ['action:' + a for a in REQUIRED_ACTIONS
              if stats['actions'].get(a, 0) == 0]
  if missing:
    print('MACHINERY-FAILURE property=%s never exercised: %s' % (PROP, missing))
    rc = rc or 2

  pick = []
  for want in ('diamond', 'same_base_name', 'circular', 'redefinition',
               'agg_multi_rule', 'shadow_decoy_first', 'lowercase_private',
               'functor_const_across_import'):
    for c, r in zip(cases, runs):
      if want in c['shapes'] and c['id'] not in [p['id'] for p in pick]:
        pick.append(Sample(c, r))
        break
  coverage = {
      'states': stats['states'], 'transitions': stats['transitions'],
      'traces_validated_against_impl': len(verdicts),
      'samples': pick,
      'evaluations': vstats['lines'],
      'distinct_nontrivial': len(nontrivial),
      'rule': RULE,
      'exhaustive': tier == 'thorough',
      'tlc_slice': slice_,
      'graphs_enumerated_by_tlc': len(all_cases),
      'graphs_run': len(cases),
      'tlc_depth': stats['depth'],
      'tlc_actions': stats['actions'],
      'tlc_per_shard': stats['per_shard'],
      'tlc_invariants': ['PrefixesDistinct', 'PrefixesNonEmpty', 'OpenedOnce',
                         'StackIsOpen', 'CycleIsCircular', 'Refines',
                         'OkIsFlatten'],
      'trace_tlc_states': vstats['tlc_states'],
      'shapes': dict(shapes),
      'shapes_conforming_per_parser': dict(shape_ok),
      'observations': dict(per),
      'bad_verdicts': len(bad),
      'known_findings_reproduced': dict(known),
      'model_drift': dict(drift),
      'timing_s': {'enumerate': t_enum, 'run_impl': round(t_run - t_enum, 2),
                   'validate': round(clock() - t_run, 2)},
  }
  evidence.Write(PROP, tier, 'model_checking', coverage, clock(),
                 violations=len(violations), assumptions=[
                     'module contents come from the pool of ImportsDef.tla '
                     '(facts, single-atom rules, functional Helper); LSem.tla '
                     'is the semantics of the flattened program',
                     'ir.RenderProgram is the trusted rendering of the '
                     'specification\'s modules to Logica text',
                     'rows are compared as bags on SQLite'])
  print('C12 %s: %d graphs enumerated by TLC (%d states), %d run x %d parsers, '
        '%d verdicts, %d bad (%d known), %d violation(s), %.0fs' % (
            tier, len(all_cases), stats['states'], len(cases), len(PARSERS),
            len(verdicts), len(bad), sum(known.values()), len(violations),
            clock()), flush=True)
  return rc


def Replay(path):
  with open(path) as f:
    payload = json.load(f)
  case = payload['case']
  cppbuild.Prepare()
  run = RunCase(case)
  try:
    _, bad, _ = Judge([case], [run], 'c12_replay')
  except RuntimeError as e:
    print('MACHINERY-FAILURE property=%s %s' % (PROP, str(e)[:2000]))
    return 2
  print(run['main'])
  for rel, text in sorted(run['files'].items()):
    print('--- %s\n%s' % (rel, text))
  for ob in run['obs']:
    print('observed %s: status=%s cls=%s msg=%s rows=%s' % (
        ob['parser'], ob['status'], ob['cls'], ob['msg'][:200],
        Rows(ob)))
  classifier = findings.Classifier(PROP)
  rc = 0
  for c, r, ob, v in bad:
    sig = Signature(v, ob)
    if classifier.Match(sig):
      continue
    print('expected %s; clause %s failed for parser %s %s' % (
        v['expect'], v['clause'], v['parser'],
        ('expected rows of M: %s' % v['exp_rows']) if v['exp_rows'] else ''))
    common.Violation(PROP, path)
    rc = 1
  classifier.Report()
  if rc == 0:
    print('replay: the property holds on this graph (or only listed findings)')
  return rc
