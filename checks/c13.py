"""C13 - compilation is a deterministic, history-free function of the program.

Specification: spec/History.tla (+ HistoryDef.tla): processes are created with
a hash seed and compile programs, re-parsing the text or re-using the parsed
rules object the process keeps; every Compile(prog) must emit F[prog].  TLC
checks the invariants over ALL histories of every window the harness chose
(windows cover the corpus) and prints each history.

Conformance, both directions:
  spec -> code   every selected history is replayed on the REAL code: one fresh
                 subprocess per NewProcess with that PYTHONHASHSEED
                 (harness/c13worker.py), inside it the Compile actions;
  code -> spec   the recorded (program, predicate, sha256 of the masked SQL,
                 sha256 of the masked execution data) events form ndjson traces
                 that TLC validates with spec/HistoryTrace.tla: the
                 concatenation of all traces must be a behaviour of History
                 with a single F (each digest = the first one recorded for the
                 same program and predicate).  The verdict is TLC's.
The only masking is c13worker.MASK_RE (the time-stamped stop-signal file).
"""
import collections
import concurrent.futures as cf
import copy
import difflib
import json
import os
import re
import shutil
import subprocess
import time

from harness import c13corpus
from harness import c13worker
from harness import common
from harness import evidence
from harness import findings
from harness import tlc

PROP = 'C13'
JVM_ENV = {'JAVA_TOOL_OPTIONS': '-XX:ParallelGCThreads=2 -XX:CICompilerCount=2'}
TLC_WORKERS = int(os.environ.get('C13_TLC_WORKERS', '4'))

SEED_POOL = [0, 1, 1729, 42, 7, 65535, 2147483647, 3, 2, 5, 11, 13, 17, 19, 23, 29]

TIERS = {
    'quick': dict(
        solo_seeds=4, pair_maxlen=3, deep_windows=0, incant_maxlen=2,
        quota={(1, 3): 3, (1, 2): 1, (2, 2): 1, (2, 3): 2, (3, 3): 1},
        solo_reuse=[('reuse',)],
        incant_other=3, deadline_s=120, xeng3_required=8, pair_two_seeds=4),
    'thorough': dict(
        solo_seeds=8, pair_maxlen=3, deep_windows=6, incant_maxlen=2,
        quota={(1, 3): 10, (1, 2): 4, (2, 2): 2, (2, 3): 6, (3, 3): 2,
               (1, 4): 16, (2, 4): 6, (3, 4): 3, (4, 4): 1},
        solo_reuse=[('reuse',), ('parse', 'reuse'), ('reuse', 'parse'),
                    ('reuse', 'reuse')],
        incant_other=30, deadline_s=600, xeng3_required=56,
        pair_two_seeds=2),
}

RULE = (
    'Corpus: programs of integration_tests/run_tests.py (quick: a seeded '
    'sample keeping every engine, thorough: all), hand-written programs '
    '(imports of module files under build/c13/modules, incantation, '
    'parser-flag-sensitive, stop-signal), harness.genrec / genfun / gen '
    'programs.  Windows over the corpus index set: solo {p} x all seeds x '
    'parse x 1 Compile; soloreuse {p} x 1 seed x {parse, reuse} x <= 2 '
    'Compiles; incant {incantation program - compiling, or FAILING to parse '
    '(syntax error, missing import) -, parser-flag-sensitive program(s) incl. '
    '`2*(x+1)` and `<=>`}; xeng2 / xeng3 {victim programs of 2 / 3 engines}, '
    'for every unordered pair / triple of the 8 engines (a victim calls every '
    'built-in whose translation differs between two dialects, derived from '
    'the tables of the tree under test); failx {a program failing at stage '
    'parse | compile | type | exec, victim of another engine}; pair {a, b} x '
    '1-2 seeds x {parse, reuse} x <= 3 Compiles (every program is in a pair); '
    'thorough adds windows with <= 4 Compiles.  Always replayed: baseline, '
    'incantation immediately followed by a sensitive program, both orders of '
    'every engine pair, a sample of ordered engine triples (thorough: one per '
    'triple; the rest under budget), failing step then victim, failing '
    'program from a kept rules object. '
    'TLC (History.tla) enumerates ALL histories of every window.  Replayed on '
    'the real code: all solo histories, the listed soloreuse histories, all '
    'single-process histories of incant windows, and a seeded sample of the '
    'others stratified by (number of processes, number of Compiles).  '
    'evaluation = one compiled predicate recorded (one trace event); '
    'non-trivial and distinct = a distinct (program, predicate, context) '
    'whose digest TLC compared with an EARLIER recording made in a DIFFERENT '
    'context, context = (hash seed, mode, rules object used before, programs '
    'compiled earlier in the same process).  Masking: the single regex '
    + c13worker.MASK_RE.pattern + '.')


# ---- windows ---------------------------------------------------------------------


def Windows(entries, tier):
  """The index sets History.tla ranges over.  Every window is
  {tag, progs, seeds, modes, maxlen, incant, sensitive, victims, attrs}."""
  cfg = TIERS[tier]
  rng = common.Rng('c13-windows')
  solo_seeds = SEED_POOL[:cfg['solo_seeds']]
  by_idx = {e['idx']: e for e in entries}
  by_id = {e['id']: e for e in entries}
  inc = {e['idx'] for e in entries if 'incantation' in e['kind']}
  sens = {e['idx'] for e in entries if 'toomuch' in e['kind']}
  vict = {e['idx'] for e in entries if 'victim' in e['kind']}
  failing = [e['idx'] for e in entries if 'failing' in e['kind']]
  cost = {e['idx']: (3 if e['id'].split('/')[-1].split(':')[0]
                     in c13corpus.HEAVY else 1) for e in entries}
  windows = []

  def Add(tag, progs, seeds, modes, maxlen):
    progs = sorted(set(progs))
    windows.append({'tag': tag, 'progs': progs, 'seeds': list(seeds),
                    'modes': list(modes), 'maxlen': maxlen,
                    'incant': sorted(set(progs) & inc),
                    'sensitive': sorted(set(progs) & sens),
                    'victims': sorted(set(progs) & vict),
                    'attrs': [{'n': p, 'stage': by_idx[p]['fail_stage'],
                               'eng': by_idx[p]['engine'],
                               'mods': by_idx[p]['modules']} for p in progs]})
  for e in entries:
    Add('solo', [e['idx']], solo_seeds, ['parse'], 1)
  for e in entries:
    Add('soloreuse', [e['idx']], [solo_seeds[e['idx'] % len(solo_seeds)]],
        ['parse', 'reuse'], 2)
  # an incantation program - one that compiles or one whose parse FAILS -
  # followed by programs whose parse depends on the flag
  light_inc = sorted(i for i in inc if cost[i] == 1)
  fail_inc = [i for i in light_inc if by_idx[i]['fail_stage'] == 'parse']
  sens_l = sorted(sens)
  pairs_is = [(light_inc[k % len(light_inc)], s_)
              for k, s_ in enumerate(sens_l)]
  tight = [by_id[x]['idx'] for x in ('tm/paren', 'tm/equiv', 'tm/paren_psql',
                                     'tm/size') if x in by_id]
  for k, f in enumerate(fail_inc):
    for s_ in tight[:3] if tier == 'thorough' else (tight[k % 2::2])[:2]:
      if (f, s_) not in pairs_is:
        pairs_is.append((f, s_))
  for k, (i, s_) in enumerate(pairs_is):
    Add('incant', [i, s_], [solo_seeds[k % len(solo_seeds)]],
        ['parse', 'reuse'] if k % 2 == 0 or tier == 'thorough' else ['parse'],
        cfg['incant_maxlen'])
  if len(sens_l) >= 2 and light_inc:
    Add('incant3', [fail_inc[0] if fail_inc else light_inc[-1], tight[0],
                    sens_l[0]], [solo_seeds[0]], ['parse'], 3)
  for i in sorted(i for i in inc if cost[i] > 1):
    Add('incant', [i, sens_l[0]], [solo_seeds[0]], ['parse'], 2)
  # cross-engine: every unordered pair / triple of engines, both (all) orders
  # are histories of the window
  vs = sorted(vict, key=lambda p: by_idx[p]['engine'])
  k = 0
  for a in range(len(vs)):
    for b in range(a + 1, len(vs)):
      Add('xeng2', [vs[a], vs[b]], [solo_seeds[k % len(solo_seeds)]],
          ['parse'], 2)
      k += 1
  for a in range(len(vs)):
    for b in range(a + 1, len(vs)):
      for c in range(b + 1, len(vs)):
        Add('xeng3', [vs[a], vs[b], vs[c]], [solo_seeds[k % len(solo_seeds)]],
            ['parse'], 3)
        k += 1
  # import history: every pair of the importing main programs (same parser),
  # both orders are histories of the window
  for parser in ('PY', 'CPP'):
    mains = [e['idx'] for e in entries if 'importhist' in e['kind'] and
             e['parser'] == parser]
    for a in range(len(mains)):
      for b in range(a + 1, len(mains)):
        Add('imphist', [mains[a], mains[b]], [solo_seeds[k % len(solo_seeds)]],
            ['parse'] if (a + b) % 2 else ['parse', 'reuse'], 2)
        k += 1
  # a FAILING step of every stage, then a victim of another engine
  for k, f in enumerate(failing):
    other = [v for v in vs if by_idx[v]['engine'] != by_idx[f]['engine']]
    Add('failx', [f, other[k % len(other)]],
        [solo_seeds[k % len(solo_seeds)]], ['parse', 'reuse'], 2)
  # every program in a pair
  order = [e['idx'] for e in entries]
  rng.shuffle(order)
  if len(order) % 2:
    order.append(order[0])
  pairs = [sorted(order[k:k + 2]) for k in range(0, len(order), 2)]
  for k, pr in enumerate(pairs):
    seeds = [solo_seeds[(2 * k) % len(solo_seeds)],
             solo_seeds[(2 * k + 1) % len(solo_seeds)]]
    heavy = max(cost[p] for p in pr) > 1
    two = (k % cfg['pair_two_seeds'] == 0) and not heavy
    Add('pair', pr, seeds if two else seeds[:1],
        ['parse', 'reuse'], 2 if heavy else cfg['pair_maxlen'])
  light = [p for p in order if cost[p] == 1]
  for k in range(cfg['deep_windows']):
    pr = sorted(rng.sample(light, 2))
    Add('deep', pr, [solo_seeds[k % len(solo_seeds)],
                     SEED_POOL[8 + k % 8]], ['parse', 'reuse'], 4)
  return windows


# ---- spec -> histories -------------------------------------------------------------

H_RE = re.compile(r'<<"H",\s*"((?:[^"\\]|\\.)*)"\s*>>')


def Enumerate(windows, workdir, shards):
  """TLC on History.tla (Model = "ideal"), one run per shard of windows.
  Returns (histories, stats).  A history is {'w': window index (0-based,
  global), 'h': [{'a', 'n', 'mode'}...]}."""
  parts = [list(range(s, len(windows), shards)) for s in range(shards)]
  parts = [p for p in parts if p]

  def One(k):
    path = os.path.join(workdir, 'windows%02d.ndjson' % k)
    with open(path, 'w') as f:
      for w in parts[k]:
        f.write(json.dumps(windows[w], separators=(',', ':')) + '\n')
    return tlc.Run('History', cfg='MCHistory.cfg', workers=TLC_WORKERS,
                   env=dict(JVM_ENV, C13_WINDOWS=path), coverage=True,
                   tag='c13_enum%d' % k, heap='3g', timeout=1500)
  with cf.ThreadPoolExecutor(max_workers=len(parts)) as ex:
    results = list(ex.map(One, range(len(parts))))
  histories = []
  stats = {'states': 0, 'generated': 0, 'initial': 0, 'depth': 0,
           'actions': collections.Counter(), 'tlc_wall_s': 0.0}
  for k, r in enumerate(results):
    if not r.ok:
      raise RuntimeError('TLC failed on History (ideal model), rc=%s, '
                         'invariants violated: %s\n%s' % (
                             r.rc, r.invariant_violated, r.out[-3000:]))
    got = 0
    for m in H_RE.finditer(r.out):
      rec = json.loads(json.loads('"' + m.group(1) + '"'))
      rec['w'] = parts[k][rec['w'] - 1]
      histories.append(rec)
      got += 1
    cov = r.Coverage()
    if got == 0:
      raise RuntimeError('TLC exported no history for shard %d' % k)
    stats['states'] += r.distinct
    stats['generated'] += r.generated
    stats['initial'] += cov.get('Init', (0, 0))[0]
    stats['depth'] = max(stats['depth'], r.depth)
    stats['tlc_wall_s'] = max(stats['tlc_wall_s'], round(r.wall, 1))
    for a, (d, _) in cov.items():
      stats['actions'][a] += d
  stats['transitions'] = stats['generated'] - stats['initial']
  stats['actions'] = dict(stats['actions'])
  # every state whose last action is a Compile is one exported history
  n_steps = (stats['actions'].get('DoCompile', 0) +
             stats['actions'].get('DoFail', 0))
  if len(histories) != n_steps:
    raise RuntimeError('%d histories parsed, DoCompile + DoFail produced %s '
                       'states' % (len(histories), n_steps))
  histories.sort(key=lambda h: (h['w'], len(h['h']), json.dumps(h['h'])))
  for k, h in enumerate(histories):
    h['id'] = 'h%06d' % k
  return histories, stats


def ExpectedCount(w):
  """Number of histories (ending in a Compile) of a window, by recurrence -
  used to cross-check TLC's enumeration."""
  c = len(w['progs']) * len(w['modes'])
  s = len(w['seeds'])
  total, ending = 0, s * c          # histories with exactly 1 Compile
  for _ in range(w['maxlen']):
    total += ending
    ending = ending * (s + 1) * c
  return total


AS_BUILT = {
    # model -> (cfg, which window it is checked on)
    'asbuilt': ('MCHistoryAsBuilt.cfg', lambda w, stage: (
        w['tag'] == 'incant' and w['sensitive'] and
        all(stage[p] == 'ok' for p in w['progs']))),
    'failsticky': ('MCHistory_failsticky.cfg', lambda w, stage: (
        w['tag'] == 'incant' and w['sensitive'] and
        any(stage[p] == 'parse' for p in w['incant']))),
    'leak': ('MCHistory_leak.cfg', lambda w, stage: w['tag'] == 'xeng2'),
    'importcache': ('MCHistory_importcache.cfg',
                    lambda w, stage: w['tag'] == 'imphist'),
}


def AsBuiltPredictions(windows, workdir):
  """TLC on the three implementation-shaped models (sticky parser flag; flag
  surviving a FAILED parse; dialect tables leaking into the next engine), each
  over one of the windows whose histories are replayed: it must find a history
  violating the property there - the evidence that these shapes are among the
  enumerated histories (rule R1: exploration only, no verdict)."""
  def One(model):
    cfg, pred = AS_BUILT[model]
    pick = [w for w in windows
            if pred(w, {a['n']: a['stage'] for a in w['attrs']})][:1]
    if not pick:
      return model, None
    path = os.path.join(workdir, 'windows_%s.ndjson' % model)
    with open(path, 'w') as f:
      f.write(json.dumps(pick[0]) + '\n')
    r = tlc.Run('History', cfg=cfg, workers=1,
                env=dict(JVM_ENV, C13_WINDOWS=path), tag='c13_' + model,
                heap='1g', timeout=900)
    m = re.search(r'/\\ hist = (<<.*?>>)\n(?:/\\|\n)',
                  r.out[r.out.rfind('State '):], re.S)
    return model, {'violated': r.invariant_violated, 'states': r.distinct,
                   'window': {k: pick[0][k] for k in
                              ('tag', 'progs', 'modes', 'maxlen', 'attrs')},
                   'counterexample_last_state_hist':
                       re.sub(r'\s+', ' ', m.group(1)) if m else ''}
  with cf.ThreadPoolExecutor(max_workers=4) as ex:
    return dict(ex.map(One, sorted(AS_BUILT)))


# ---- selection ----------------------------------------------------------------------


def Segments(h):
  """[(seed, ((prog, mode), ...)), ...] - one per process."""
  segs = []
  for a in h['h']:
    if a['a'] == 'new':
      segs.append([a['n'], []])
    else:
      segs[-1][1].append((a['n'], a['mode']))
  return [(s, tuple(acts)) for s, acts in segs]


def Shape(h):
  segs = Segments(h)
  return len(segs), sum(len(a) for _, a in segs)


def Select(histories, windows, tier, entries):
  """Returns (required, optional): the histories to replay.  `required` (the
  baseline recording of every program: fresh process, first seed, parse; all
  single-process histories of the incantation windows) is always replayed;
  `optional` is replayed in the returned order until the time budget of the
  replay phase is used up: the other solo seeds and the soloreuse histories
  (lane A) interleaved with the window samples (lane B, round robin over
  windows so that a cut keeps the sample stratified)."""
  cfg = TIERS[tier]
  rng = common.Rng('c13-select')
  by_w = collections.defaultdict(list)
  for h in histories:
    by_w[h['w']].append(h)
  required, lane_a, samples_by_w, xeng3 = [], [], [], []
  first_seed = windows[0]['seeds'][0]
  # one program of every corpus kind is always recorded under a second seed,
  # so that every kind is compared at least once whatever the time budget
  second = set()
  for kind in list(c13corpus.REQUIRED_KINDS) + ['stopfile-candidate']:
    for e in entries:
      if kind in e['kind']:
        second.add(e['idx'])
        break
  two_seed_done = False
  for wi, w in enumerate(windows):
    hs = by_w[wi]
    if w['tag'] == 'solo':
      for h in hs:
        if h['h'][0]['n'] == first_seed or (
            w['progs'][0] in second and h['h'][0]['n'] == w['seeds'][1]):
          required.append(h)
        else:
          lane_a.append((w['seeds'].index(h['h'][0]['n']), 0, h['id'], h))
    elif w['tag'] == 'soloreuse':
      patterns = [tuple(x) for x in cfg['solo_reuse']]
      for h in hs:
        segs = Segments(h)
        modes = tuple(m for _, m in segs[0][1])
        if len(segs) == 1 and modes in patterns:
          if w['attrs'][0]['stage'] != 'ok' and modes == ('reuse',):
            required.append(h)     # a failing step from a kept rules object
          else:
            lane_a.append((1 + patterns.index(modes), 1, h['id'], h))
    elif w['tag'] in ('incant', 'incant3'):
      # always: one process, an incantation program (compiling or failing)
      # IMMEDIATELY followed by a flag-sensitive program
      must, rest = [], []
      for h in hs:
        segs = Segments(h)
        acts = segs[0][1]
        if len(segs) == 1 and any(
            acts[k][0] in w['incant'] and acts[k + 1][0] in w['sensitive']
            for k in range(len(acts) - 1)):
          (must if len(acts) == 2 or w['tag'] == 'incant3' else rest).append(h)
        else:
          rest.append(h)
      if w['tag'] == 'incant3':
        must, more = must[:4], must[4:]
        rest = more + rest
      required += must
      samples_by_w.append(rng.sample(rest, min(len(rest),
                                               cfg['incant_other'])))
    elif w['tag'] == 'xeng2':
      # always: both orders of the two engines in one process
      must = [h for h in hs if Shape(h) == (1, 2) and
              len({p for p, _ in Segments(h)[0][1]}) == 2]
      required += must
      samples_by_w.append([])
    elif w['tag'] == 'imphist':
      # always: main program i then main program j, re-parsed, one process
      must = [h for h in hs if Shape(h) == (1, 2) and
              len({p for p, _ in Segments(h)[0][1]}) == 2 and
              all(m == 'parse' for _, m in Segments(h)[0][1])]
      required += must
      rest = [h for h in hs if h not in must and Shape(h)[0] == 1]
      samples_by_w.append(rng.sample(rest, min(len(rest), 2)))
    elif w['tag'] == 'xeng3':
      perms = [h for h in hs if Shape(h) == (1, 3) and
               len({p for p, _ in Segments(h)[0][1]}) == 3]
      xeng3.append(perms)
    elif w['tag'] == 'failx':
      # always: the failing program (re-parsed, and from a kept rules object)
      # immediately followed by the victim of another engine
      stage = {a['n']: a['stage'] for a in w['attrs']}
      must = [h for h in hs if Shape(h) == (1, 2) and
              stage[Segments(h)[0][1][0][0]] != 'ok' and
              Segments(h)[0][1][1] == (w['victims'][0], 'parse')]
      required += must
      rest = [h for h in hs if h not in must and Shape(h)[0] == 1]
      samples_by_w.append(rng.sample(rest, min(len(rest), 2)))
    else:
      groups = collections.defaultdict(list)
      for h in hs:
        groups[Shape(h)].append(h)
      pick = []
      if not two_seed_done and len(w['seeds']) > 1:
        # always: one history of two processes with different seeds
        for h in groups.get((2, 2), []):
          if len({sd for sd, _ in Segments(h)}) == 2:
            required.append(h)
            two_seed_done = True
            break
      for shape, k in sorted(cfg['quota'].items(),
                             key=lambda x: (-x[0][1], x[0][0])):
        pool = groups.get(shape, [])
        pick += rng.sample(pool, min(k, len(pool)))
      samples_by_w.append(pick)
  # ordered triples of engines: some always (one per window in thorough), the
  # others first in lane B
  flat3 = [h for perms in xeng3 for h in perms]
  if cfg['xeng3_required'] >= len(xeng3):
    must3 = [rng.choice(perms) for perms in xeng3 if perms]
  else:
    must3 = rng.sample(flat3, min(len(flat3), cfg['xeng3_required']))
  required += must3
  rest3 = [h for h in flat3 if h not in must3]
  rng.shuffle(rest3)
  if tier == 'quick':
    rest3 = rest3[:24]
  lane_a = [x[-1] for x in sorted(lane_a, key=lambda x: x[:3])]
  lane_b = list(rest3)
  depth = max([len(l) for l in samples_by_w] or [0])
  for k in range(depth):
    for lst in samples_by_w:
      if k < len(lst):
        lane_b.append(lst[k])
  optional = []
  for k in range(max(len(lane_a), len(lane_b))):
    if k < len(lane_a):
      optional.append(lane_a[k])
    if k < len(lane_b):
      optional.append(lane_b[k])
  return required, optional


# ---- histories -> the real code -----------------------------------------------------


class Runner:
  """Runs process segments in fresh subprocesses (one per NewProcess), each
  distinct (seed, action sequence) once."""

  def __init__(self, corpus_path, workdir, deadline):
    self.corpus_path = corpus_path
    self.dir = os.path.join(workdir, 'seg')
    shutil.rmtree(self.dir, ignore_errors=True)
    os.makedirs(self.dir)
    self.cwd = os.path.join(workdir, 'cwd')
    os.makedirs(self.cwd, exist_ok=True)
    self.deadline = deadline
    self.done = {}      # segment -> output path
    self.failed = []
    self.counter = 0

  def _One(self, item):
    k, (seed, acts), must = item
    if not must and time.time() > self.deadline:
      return (seed, acts), None, 'skipped'
    job = os.path.join(self.dir, '%06d.job.json' % k)
    out = os.path.join(self.dir, '%06d.out.json' % k)
    with open(job, 'w') as f:
      json.dump({'corpus': self.corpus_path, 'out': out, 'seed': seed,
                 'cwd': self.cwd,
                 'actions': [{'prog': p, 'mode': m} for p, m in acts]}, f)
    env = dict(os.environ, PYTHONHASHSEED=str(seed), LOGICA_REPO=common.REPO)
    env.pop('LOGICA_PARSER', None)     # set per program by the worker
    try:
      p = subprocess.run([common.PY, '-m', 'harness.c13worker', job],
                         cwd=common.VERIF, env=env, capture_output=True,
                         text=True, timeout=1800)
    except subprocess.TimeoutExpired:
      return (seed, acts), None, 'timeout'
    if p.returncode != 0 or not os.path.exists(out):
      return (seed, acts), None, 'rc=%s %s' % (p.returncode, p.stderr[-1500:])
    return (seed, acts), out, ''

  def Run(self, segments, must):
    seen = set()
    uniq = []
    for s in segments:
      if s not in self.done and s not in seen:
        seen.add(s)
        uniq.append((self.counter, s, must))
        self.counter += 1
    skipped = 0
    with cf.ThreadPoolExecutor(max_workers=common.NCPU) as ex:
      for seg, out, err in ex.map(self._One, uniq):
        if out:
          self.done[seg] = out
        elif err == 'skipped':
          skipped += 1
        else:
          self.failed.append((seg, err))
    return skipped

  def Load(self, seg):
    with open(self.done[seg]) as f:
      d = json.load(f)
    d.pop('texts', None)
    return d

  def Text(self, seg, sha):
    with open(self.done[seg]) as f:
      return json.load(f)['texts'].get(sha)


def TraceOf(h, windows, loaded):
  """The ndjson line HistoryTrace.tla reads for history h."""
  events = []
  segs = Segments(h)
  si = -1
  ai = 0
  for step, a in enumerate(h['h'], 1):
    if a['a'] == 'new':
      si += 1
      ai = 0
      rec = loaded[segs[si]]
      events.append({'step': step, 'a': 'new', 'seed': rec['seed'], 'prog': 0,
                     'pred': '', 'mode': '-', 'used': False, 'pf': False,
                     'rul': '', 'sql': '', 'aux': ''})
    else:
      rec = loaded[segs[si]]
      for e in rec['events']:
        if e['action'] == ai:
          events.append({'step': step, 'a': 'ev', 'seed': rec['seed'],
                         'prog': e['prog'], 'pred': e['pred'],
                         'mode': e['mode'], 'used': e['used'],
                         'pf': bool(e['parse_failed']),
                         'rul': e.get('rul', ''),
                         'sql': e['sql'], 'aux': e['aux']})
      ai += 1
  return {'id': h['id'], 'hist': h['h'], 'inc': windows[h['w']]['incant'],
          'attrs': windows[h['w']]['attrs'], 'events': events}


V_RE = re.compile(r'<<"V",\s*"((?:[^"\\]|\\.)*)"\s*>>')


def Validate(traces, baseline_ids, workdir, tag, shards):
  """HistoryTrace.tla over the traces.  Baseline traces (the first recording
  of every program: fresh process, first seed, parse) open every shard.
  Returns ({id: verdict}, stats) or raises RuntimeError."""
  base = [t for t in traces if t['id'] in baseline_ids]
  rest = [t for t in traces if t['id'] not in baseline_ids]
  shards = max(1, min(shards, len(rest) // 200 + 1))
  d = os.path.join(workdir, 'trace_' + tag)
  shutil.rmtree(d, ignore_errors=True)
  os.makedirs(d)
  paths = []
  shard_of = {}
  for s in range(shards):
    part = base + rest[s::shards]
    path = os.path.join(d, 'shard%02d.ndjson' % s)
    shard_of[path] = s
    with open(path, 'w') as f:
      for t in part:
        f.write(json.dumps(t, separators=(',', ':')) + '\n')
    paths.append((path, len(part)))

  def One(pn):
    return tlc.Run('HistoryTrace', workers=1,
                   env=dict(JVM_ENV, TRACE_FILE=pn[0]), tag='c13_trace',
                   heap='3g', timeout=1500)
  with cf.ThreadPoolExecutor(max_workers=len(paths)) as ex:
    results = list(ex.map(One, paths))
  verdicts = {}
  states = 0
  for (path, n), r in zip(paths, results):
    got = 0
    for m in V_RE.finditer(r.out):
      v = json.loads(json.loads('"' + m.group(1) + '"'))
      got += 1
      verdicts.setdefault(v['id'], v)
    states += r.distinct
    # TLC's own acceptance (POSTCONDITION Accepted) must agree with the
    # verdict lines it printed
    accepted = r.ok
    rejected = (not r.ok) and 'Accepted' in r.out
    bad_here = sum(1 for t in base + rest[shard_of[path]::shards]
                   if not verdicts[t['id']]['ok']) if got == n else -1
    if got != n or not (accepted or rejected) or (accepted != (bad_here == 0)):
      raise RuntimeError('TLC failed on HistoryTrace shard %s: %d of %d '
                         'verdicts, rc=%s, accepted=%s, deviating=%s\n%s' % (
                             path, got, n, r.rc, accepted, bad_here,
                             r.out[-3000:]))
  return verdicts, {'trace_tlc_states': states, 'trace_shards': len(paths)}


# ---- classification -------------------------------------------------------------------


def IncantedVariant(entry, pred, seed, workdir):
  """(sql digest, aux digest) of the program with the incantation appended as
  a comment, compiled in a fresh process: what the program means when the
  experimental syntax is switched on FOR IT."""
  e = copy.deepcopy(entry)
  e['text'] = e['text'] + '\n# ' + c13corpus.INCANTATION + '\n'
  d = os.path.join(workdir, 'variant')
  os.makedirs(d, exist_ok=True)
  cp = os.path.join(d, 'corpus_%d.json' % e['idx'])
  with open(cp, 'w') as f:
    json.dump({'programs': [e]}, f)
  r = Runner(cp, d, time.time() + 3600)
  seg = (seed, ((e['idx'], 'parse'),))
  r.Run([seg], True)
  if seg not in r.done:
    return None
  for ev in r.Load(seg)['events']:
    if ev['pred'] == pred:
      return ev['sql'], ev['aux']
  return None


ALIAS_RE = re.compile(r'\bt_\d+_')
VAR_RE = re.compile(r'\bx_\d+')


def SameLinesModuloOrderAndNumbering(a, b):
  """The two texts consist of the same lines once the allocator's running
  numbers are blanked (x_12 -> x_N, t_3_Name -> Name: a table alias is `Name`
  or `t_<k>_Name` depending on what was allocated before) and the order of
  lines is ignored: the same statements emitted in another order."""
  if a is None or b is None:
    return False
  def Lines(t):
    t = VAR_RE.sub('x_N', ALIAS_RE.sub('', t))
    return sorted(l.strip() for l in t.splitlines() if l.strip())
  return a != b and Lines(a) == Lines(b)


def Signature(dv, entry, ev, fev, seg, fseg, got_text, want_text,
              equals_variant):
  return {'kind': 'digest-differs', 'clause': dv['clause'],
          'explained_by_sticky_parser_flag': bool(dv['explained']),
          'explained_by_flag_left_by_failed_parse':
              bool(dv.get('explained_fail')),
          'other_engine_compiled_before_in_process':
              bool(dv.get('explained_leak')),
          'module_imported_before_for_other_program':
              bool(dv.get('explained_import')),
          'equals_incanted_variant': equals_variant,
          'seed_differs_from_first': bool(seg and fseg and seg[0] != fseg[0]),
          'iteration_program': bool(ev and ev.get('iterations')),
          'same_lines_modulo_order_and_numbering':
              SameLinesModuloOrderAndNumbering(want_text, got_text),
          'status_first': fev['status'] if fev else None,
          'status_got': ev['status'] if ev else None,
          'mode': dv['mode'], 'used': bool(dv['used']),
          'program_kind': sorted(entry['kind'])}


def Diff(a, b, n=60):
  lines = list(difflib.unified_diff((a or '').splitlines(),
                                    (b or '').splitlines(), 'first_recorded',
                                    'deviating', lineterm='', n=2))
  return lines[:n]


def HistoryText(h, by_idx):
  out = []
  for a in h['h']:
    if a['a'] == 'new':
      out.append('NewProcess(seed=%d)' % a['n'])
    else:
      out.append('Compile(%d=%s, %s)' % (a['n'], by_idx[a['n']]['id'],
                                         a['mode']))
  return ' ; '.join(out)


def Judge(entries, windows, histories, runner, workdir, tag, shards,
          print_traces=True):
  """Assembles traces, has TLC judge them, classifies deviations.
  Returns a dict with verdict material."""
  by_idx = {e['idx']: e for e in entries}
  loaded = {seg: runner.Load(seg) for seg in runner.done}
  replayed = [h for h in histories
              if all(s in runner.done for s in Segments(h))]
  # baseline first: solo, first seed
  first_seed = windows[0]['seeds'][0] if windows else 0
  def IsBase(h):
    w = windows[h['w']]
    return (w['tag'] == 'solo' and len(h['h']) == 2 and
            h['h'][0]['n'] == first_seed)
  baseline = [h for h in replayed if IsBase(h)]
  others = [h for h in replayed if not IsBase(h)]
  order = baseline + others
  traces = [TraceOf(h, windows, loaded) for h in order]
  verdicts, vstats = Validate(traces, {h['id'] for h in baseline}, workdir,
                              tag, shards)
  hist_by_id = {h['id']: h for h in order}
  deviations = []      # (history, dev)
  shape_bad = []
  for h in order:
    v = verdicts.get(h['id'])
    if v is None:
      raise RuntimeError('no verdict for trace %s' % h['id'])
    for dv in v['devs']:
      if dv['clause'].startswith('shape'):
        shape_bad.append((h, dv))
      else:
        deviations.append((h, dv))
    if print_traces and not v['ok']:
      dv = v['devs'][0]
      print('TRACE %s DEVIATES at action %d: Compile(%d=%s, %s) predicate %s '
            'clause=%s%s; first recorded by %s action %d; history: %s' % (
                h['id'], dv['step'], dv['prog'],
                by_idx.get(dv['prog'], {}).get('id'), dv['mode'], dv['pred'],
                dv['clause'],
                (' [as-built model: parsed while the parser flag was on]'
                 if dv['explained'] else '') +
                (' [flag left on by a failed parse]'
                 if dv.get('explained_fail') and not dv['explained'] else '') +
                (' [another engine was compiled before in this process]'
                 if dv.get('explained_leak') else '') +
                (' [a module it imports was imported before for another '
                 'program]' if dv.get('explained_import') else ''),
                dv['first_trace'],
                dv['first_step'], HistoryText(h, by_idx)), flush=True)
  return {'order': order, 'traces': traces, 'verdicts': verdicts,
          'vstats': vstats, 'deviations': deviations, 'shape_bad': shape_bad,
          'hist_by_id': hist_by_id, 'loaded': loaded, 'baseline': baseline}


def EventOf(h, dv, windows, loaded):
  """The recorded worker event behind a deviation + its process segment."""
  segs = Segments(h)
  si, ai = -1, 0
  for step, a in enumerate(h['h'], 1):
    if a['a'] == 'new':
      si += 1
      ai = 0
      continue
    if step == dv['step']:
      for e in loaded[segs[si]]['events']:
        key = {'aux': 'aux', 'rules': 'rul'}.get(dv['clause'], 'sql')
        if (e['action'] == ai and e['pred'] == dv['pred'] and
            e[key] == dv['got'] and e['used'] == dv['used']):
          return segs[si], e
    ai += 1
  return None, None


def FirstEvent(h, dv, loaded):
  segs = Segments(h)
  si, ai = -1, 0
  for step, a in enumerate(h['h'], 1):
    if a['a'] == 'new':
      si += 1
      ai = 0
      continue
    if step == dv['first_step']:
      for e in loaded[segs[si]]['events']:
        if e['action'] == ai and e['pred'] == dv['pred']:
          return segs[si], e
    ai += 1
  return None, None


def Classify(j, entries, windows, runner, workdir, classifier):
  """Groups deviations, matches known findings, writes replay files.
  Returns (violation paths, known counter, unique deviation list)."""
  by_idx = {e['idx']: e for e in entries}
  groups = collections.OrderedDict()
  for h, dv in j['deviations']:
    key = (dv['prog'], dv['pred'], dv['clause'], dv['got'], dv['explained'],
           dv.get('explained_fail'), dv.get('explained_leak'),
           dv.get('explained_import'))
    groups.setdefault(key, []).append((h, dv))
  variants = {}
  violations, known = [], collections.Counter()
  uniq = []
  for key, items in groups.items():
    h, dv = items[0]
    entry = by_idx[dv['prog']]
    seg, ev = EventOf(h, dv, windows, j['loaded'])
    fh = j['hist_by_id'].get(dv['first_trace'])
    fseg, fev = FirstEvent(fh, dv, j['loaded']) if fh else (None, None)
    equals_variant = None
    if dv['explained'] or dv.get('explained_fail'):
      vk = (dv['prog'], dv['pred'])
      if vk not in variants:
        variants[vk] = IncantedVariant(entry, dv['pred'], h['h'][0]['n'],
                                       workdir)
      if variants[vk] is not None:
        equals_variant = (variants[vk][1 if dv['clause'] == 'aux' else 0] ==
                          dv['got'])
    tkey = 'aux' if dv['clause'] == 'aux' else 'sql'
    # (clause "rules": the SQL texts are shown; the rules digests are in dv)
    got_text = runner.Text(seg, ev[tkey]) if ev else None
    want_text = runner.Text(fseg, fev[tkey]) if fev else None
    sig = Signature(dv, entry, ev, fev, seg, fseg, got_text, want_text,
                    equals_variant)
    uniq.append({'signature': sig, 'prog': entry['id'], 'pred': dv['pred'],
                 'occurrences': len(items), 'history': HistoryText(h, by_idx)})
    f = classifier.Match(sig)
    if f:
      known[f['id']] += len(items)
      continue
    progs = sorted({a['n'] for hh in (h, fh) if hh for a in hh['h']
                    if a['a'] == 'compile'})
    payload = {
        'what': 'Compile(%s, %s) predicate %s: %s digest differs from the '
                'first one recorded for this program and predicate' % (
                    entry['id'], dv['mode'], dv['pred'], dv['clause']),
        'deviation': dv, 'signature': sig, 'occurrences': len(items),
        'history': h, 'history_text': HistoryText(h, by_idx),
        'first_history': fh,
        'first_history_text': HistoryText(fh, by_idx) if fh else None,
        'window': windows[h['w']],
        'first_window': windows[fh['w']] if fh else None,
        'corpus': [dict(by_idx[p], import_root=None) for p in progs],
        'modules': c13corpus.MODULES,
        'recorded_event': ev, 'first_recorded_event': fev,
        'text_first_recorded': want_text, 'text_deviating': got_text,
        'diff': Diff(want_text, got_text),
        'other_histories': [HistoryText(x, by_idx) for x, _ in items[1:6]],
        'how': './check C13 --replay <this file> replays first_history and '
               'history on the real code and has TLC (HistoryTrace) judge '
               'the two recorded traces'}
    name = '%s_%s_%s' % (h['id'], re.sub(r'\W+', '_', entry['id']), dv['pred'])
    path = common.WriteReplay(PROP, name[:80] + RepoTag(), payload)
    violations.append(path)
    common.Violation(PROP, path)
  return violations, known, uniq


# ---- coverage ----------------------------------------------------------------------------

REC_PROBE = {'rec:vertical': 'vertical', 'rec:flat': 'horizontal',
             'rec:iterative_auto': 'iterative_horizontal',
             'rec:iterative_forced': 'iterative_horizontal',
             'rec:diamond': 'diamond'}


def Coverage(entries, windows, j):
  by_idx = {e['idx']: e for e in entries}
  kinds_ok = collections.Counter()        # events with status ok per kind
  kinds_events = collections.Counter()
  kinds_progs = collections.defaultdict(set)
  status = collections.Counter()
  hash_probes = {}
  contexts = {}       # (prog, pred) -> ordered list of contexts seen
  modes_measured = collections.Counter()
  probe_seen = False
  events = 0
  order_only = 0
  ord_first = {}
  for seg, rec in sorted(j['loaded'].items()):
    hash_probes.setdefault(rec['seed'], set()).add(rec['hash_probe'])
    earlier = []
    cur = None
    for e in rec['events']:
      if e['action'] != cur:
        if cur is not None:
          earlier.append(rec['actions'][cur]['prog'])
        cur = e['action']
      events += 1
      entry = by_idx[e['prog']]
      ks = set(entry['kind'])
      if e['stop']:
        ks.add('stopfile')
      if e['iterations']:
        ks.add('iteration')
      if e['rec_modes']:
        probe_seen = True
      for m in e['rec_modes']:
        modes_measured[m] += 1
      for k, probe in REC_PROBE.items():
        if k in ks and e['rec_modes'] and probe not in e['rec_modes']:
          ks.discard(k)      # the label by construction is not what happened
      status[e['status'].split(':')[0]] += 1
      for k in ks:
        kinds_events[k] += 1
        if e['status'] == 'ok':
          kinds_ok[k] += 1
          kinds_progs[k].add(e['prog'])
      ctx = (rec['seed'], e['mode'], e['used'], tuple(earlier))
      contexts.setdefault((e['prog'], e['pred']), []).append(ctx)
      ok_ = ord_first.setdefault((e['prog'], e['pred'], e['sql'], e['aux']),
                                 e['ord'])
      if ok_ != e['ord']:
        order_only += 1
  nontrivial = 0
  for key, ctxs in contexts.items():
    distinct = set(ctxs)
    if len(distinct) > 1:
      nontrivial += len(distinct) - 1
  shapes = collections.Counter()
  feats = collections.Counter()
  engine_pairs, engine_triples = set(), set()
  import_pairs = set()
  next_after_failed_inc = set()
  for h in j['order']:
    segs = Segments(h)
    shapes['%d process(es), %d compile(s)' % Shape(h)] += 1
    w = windows[h['w']]
    feats['window:' + w['tag']] += 1
    if any(m == 'reuse' for _, acts in segs for _, m in acts):
      feats['has_reuse'] += 1
    progs = [p for _, acts in segs for p, _ in acts]
    if len(set(progs)) < len(progs):
      feats['program_repeated'] += 1
    for _, acts in segs:
      ps = [p for p, _ in acts]
      if len(set(ps)) > 1:
        feats['different_programs_in_one_process'] += 1
        break
    if len(segs) > 1 and len({s for s, _ in segs}) > 1:
      feats['several_seeds'] += 1
    for _, acts in segs:
      seen_inc = False
      hit = False
      for p, m in acts:
        if p in w['incant']:
          seen_inc = True
        elif seen_inc and p in w['sensitive']:
          hit = True
      if hit:
        feats['incantation_then_flag_sensitive_same_process'] += 1
        break
    # --- failing steps and engine orders (required shapes of every run)
    stage = {a['n']: a['stage'] for a in w['attrs']}
    eng = {a['n']: a['eng'] for a in w['attrs']}
    for _, acts in segs:
      ps = [p for p, _ in acts]
      for k in range(len(ps) - 1):
        a, b = ps[k], ps[k + 1]
        if stage[a] != 'ok' and a != b:
          feats['after_failed_%s_step' % stage[a]] += 1
          if (acts[k][1] == 'reuse' and stage[a] != 'parse'):
            feats['after_failed_step_from_kept_rules_object'] += 1
          if a in w['incant'] and stage[a] == 'parse' and b in w['sensitive']:
            feats['failed_incantation_parse_then_flag_sensitive_next'] += 1
            next_after_failed_inc.add(by_idx[b]['id'])
          if b in w['victims'] and eng[a] != eng[b]:
            feats['failed_step_then_victim_of_other_engine'] += 1
        if b in w['victims'] and eng[a] != eng[b]:
          engine_pairs.add((eng[a], eng[b]))
      for k in range(len(ps) - 1):
        a, b = by_idx[ps[k]], by_idx[ps[k + 1]]
        if ('importhist' in a['kind'] and 'importhist' in b['kind'] and
            a['idx'] != b['idx'] and a['parser'] == b['parser']):
          feats['import_history_%s' % a['parser']] += 1
          import_pairs.add((a['id'], b['id']))
      vs = [p for p in ps if p in w['victims']]
      if len(vs) == 3 and len({eng[p] for p in vs}) == 3 and len(ps) == 3:
        engine_triples.add(tuple(eng[p] for p in vs))
  used_events = sum(1 for rec in j['loaded'].values() for e in rec['events']
                    if e['used'])
  # failing programs did fail the way the corpus says, victims compiled
  fail_seen = collections.defaultdict(set)
  victim_ok = set()
  for seg, rec in j['loaded'].items():
    if len(seg[1]) != 1:
      continue          # judged in a fresh process only
    for e in rec['events']:
      entry = by_idx[e['prog']]
      if entry['fail_stage'] == 'exec':
        fail_seen[entry['id']].add(e['status'] + '/' + e.get('exec', ''))
      elif entry['fail_stage'] != 'ok':
        fail_seen[entry['id']].add(e['status'])
      if 'victim' in entry['kind'] and e['status'] == 'ok':
        victim_ok.add(entry['engine'])
  fail_wrong = {}
  for e in entries:
    if e['fail_stage'] == 'ok':
      continue
    want = ('ok/error:' + e['fail_class'] if e['fail_stage'] == 'exec'
            else 'error:' + e['fail_class'])
    if fail_seen.get(e['id']) != {want}:
      fail_wrong[e['id']] = sorted(fail_seen.get(e['id'], ()))
  engines = sorted({e['engine'] for e in entries if 'victim' in e['kind']})
  all_pairs = {(a, b) for a in engines for b in engines if a != b}
  used_builtins = set()
  for e in entries:
    if 'victim' in e['kind'] and e['engine'] in victim_ok:
      used_builtins |= set(e['victim_uses'])
  imp = {}
  for parser in ('PY', 'CPP'):
    ids = [e['id'] for e in entries if 'importhist' in e['kind'] and
           e['parser'] == parser]
    want = {(a, b) for a in ids for b in ids if a != b}
    imp[parser] = sorted('%s>%s' % p for p in want - import_pairs)
  return {
      'import_history_ordered_pairs': len(import_pairs),
      'import_history_missing': imp,
      'engine_ordered_pairs': len(engine_pairs & all_pairs),
      'engine_ordered_pairs_missing': sorted(
          '%s>%s' % p for p in all_pairs - engine_pairs),
      'engine_ordered_triples': len(engine_triples),
      'victims_compiled': sorted(victim_ok), 'victim_engines': engines,
      'differing_builtins_in_compiled_victims': len(used_builtins),
      'failing_programs_not_failing_as_declared': fail_wrong,
      'programs_after_failed_incantation_parse': sorted(next_after_failed_inc),
      'events': events, 'nontrivial': nontrivial, 'status': dict(status),
      'kinds_events': dict(kinds_events), 'kinds_ok': dict(kinds_ok),
      'kinds_programs': {k: len(v) for k, v in kinds_progs.items()},
      'recursion_styles_measured': dict(modes_measured),
      'recursion_probe_available': probe_seen,
      'history_shapes': dict(shapes), 'history_features': dict(feats),
      'events_from_used_rules_object': used_events,
      'seeds': sorted(hash_probes),
      'distinct_str_hash_values_across_seeds': len(
          {v for s in hash_probes.values() for v in s}),
      'events_differing_only_in_container_order': order_only,
  }


REQUIRED_HISTORY_FEATURES = (
    'has_reuse', 'program_repeated', 'different_programs_in_one_process',
    'several_seeds', 'incantation_then_flag_sensitive_same_process',
    'window:solo', 'window:soloreuse', 'window:incant', 'window:pair',
    'window:xeng2', 'window:xeng3', 'window:failx', 'window:imphist',
    # import history: importing main program i then j in one process
    'import_history_PY', 'import_history_CPP',
    # shape A: failing steps of every stage, in particular a FAILED parse of an
    # incantation program immediately followed by a flag-sensitive program
    'failed_incantation_parse_then_flag_sensitive_next',
    'after_failed_parse_step', 'after_failed_compile_step',
    'after_failed_type_step', 'after_failed_exec_step',
    'after_failed_step_from_kept_rules_object',
    'failed_step_then_victim_of_other_engine')


def Missing(cov, entries, cinfo):
  missing = []
  for k in c13corpus.REQUIRED_KINDS:
    n = (cov['kinds_events'] if k.startswith('fails:')
         else cov['kinds_ok']).get(k, 0)
    if n < 2:
      missing.append('kind:' + k)
  for f in REQUIRED_HISTORY_FEATURES:
    if cov['history_features'].get(f, 0) == 0:
      missing.append('history:' + f)
  # shape B: every ordered pair of engines, victims of all engines, every
  # differing built-in in a victim that compiled
  if cov['engine_ordered_pairs_missing']:
    missing.append('engine orders never replayed: %s' %
                   cov['engine_ordered_pairs_missing'][:6])
  for parser, lacking in cov['import_history_missing'].items():
    if lacking:
      missing.append('import history (%s parser) never replayed: %s' % (
          parser, lacking[:4]))
  if cov['engine_ordered_triples'] == 0:
    missing.append('no ordered triple of engines')
  if cov['victims_compiled'] != cov['victim_engines'] or len(
      cov['victim_engines']) < 8:
    missing.append('victim programs compiled only for %s' %
                   cov['victims_compiled'])
  if cov['differing_builtins_in_compiled_victims'] < len(
      cinfo['differing_builtins']):
    missing.append('differing built-ins used by no victim')
  if cov['failing_programs_not_failing_as_declared']:
    missing.append('failing programs behave otherwise: %s' %
                   cov['failing_programs_not_failing_as_declared'])
  tight = {'tm/paren', 'tm/equiv'} - set(
      cov['programs_after_failed_incantation_parse'])
  if tight:
    missing.append('never right after a failed incantation parse: %s' %
                   sorted(tight))
  if cov['events_from_used_rules_object'] == 0:
    missing.append('used rules object')
  if cov['distinct_str_hash_values_across_seeds'] < 2:
    missing.append('hash seeds have no effect on str hashes')
  return missing


# ---- entry points ---------------------------------------------------------------------------


def RepoTag():
  """Scratch directories are per tree under test, so that runs against
  different $LOGICA_REPO do not share files."""
  if os.path.realpath(common.REPO) == '/repo':
    return ''
  return '_' + common.Sha(os.path.realpath(common.REPO))[:8]


def Run(tier):
  clock = common.Clock()
  cfg = TIERS[tier]
  workdir = common.BuildDir('c13', tier + RepoTag())
  for f in os.listdir(workdir):
    if f.startswith('windows') or f.startswith('corpus'):
      os.unlink(os.path.join(workdir, f))
  # the C++ parser of the tree under test (some programs are parsed with it);
  # sets XDG_CACHE_HOME for the worker processes
  from harness import cppbuild
  cppbuild.Prepare()
  entries, cinfo = c13corpus.Build(tier)
  corpus_path = os.path.join(workdir, 'corpus.json')
  with open(corpus_path, 'w') as f:
    json.dump({'programs': entries}, f)
  windows = Windows(entries, tier)

  def Fail(msg, explanation):
    print('MACHINERY-FAILURE property=%s %s' % (PROP, msg[:3000]), flush=True)
    evidence.Write(PROP, tier, 'exploration',
                   {'explanation': explanation[:600], 'evaluations': 0,
                    'distinct_nontrivial': 0, 'rule': RULE, 'samples': []},
                   clock())
    return 2

  # the solo runs do not depend on TLC's export order: start TLC in the
  # background and begin with nothing else - TLC is short
  with cf.ThreadPoolExecutor(max_workers=2) as ex:
    fut_asbuilt = ex.submit(AsBuiltPredictions, windows, workdir)
    try:
      histories, stats = Enumerate(windows, workdir,
                                   shards=2 if tier == 'quick' else 6)
    except RuntimeError as e:
      return Fail(str(e), 'TLC failed on History.tla: ' + str(e))
    asbuilt = fut_asbuilt.result()
  t_enum = clock()
  want = sum(ExpectedCount(w) for w in windows)
  if want != len(histories):
    return Fail('TLC exported %d histories, the windows have %d' % (
        len(histories), want), 'enumeration incomplete')

  required, optional = Select(histories, windows, tier, entries)
  runner = Runner(corpus_path, workdir, None)
  req_segs = [s for h in required for s in Segments(h)]
  opt_segs = [s for h in optional for s in Segments(h)]
  runner.Run(req_segs, True)
  # the time budget of the optional part starts when the baseline is recorded
  runner.deadline = time.time() + cfg['deadline_s']
  runner.Run(opt_segs, False)
  t_run = clock()
  if runner.failed:
    return Fail('worker process failed: %s' % (runner.failed[:3],),
                'worker process failed')
  selected = required + optional
  try:
    j = Judge(entries, windows, selected, runner, workdir, tier,
              shards=1 if tier == 'quick' else 8)
  except RuntimeError as e:
    return Fail(str(e), 'trace validation failed: ' + str(e))
  t_val = clock()
  if j['shape_bad']:
    h, dv = j['shape_bad'][0]
    return Fail('the recording of %s is not the exported history (clause %s '
                'at action %d): %s' % (h['id'], dv['clause'], dv['step'],
                                       json.dumps(h['h'])),
                'replay did not follow the history')

  classifier = findings.Classifier(PROP)
  violations, known, uniq = Classify(j, entries, windows, runner, workdir,
                                     classifier)
  classifier.Report()
  for fid in classifier.NotReproduced():
    print('NOTE property=%s listed finding %s was not reproduced on this tree'
          % (PROP, fid), flush=True)
  # the three implementation-shaped models must each find a violating history
  # among the enumerated ones (else these shapes are not explored); the code
  # not deviating where a model does is MODEL-DRIFT (informational)
  unpredicted = [m for m in sorted(AS_BUILT)
                 if not (asbuilt.get(m) and asbuilt[m]['violated'])]
  label = {'importcache': 'module_imported_before_for_other_program',
           'asbuilt': 'explained_by_sticky_parser_flag',
           'failsticky': 'explained_by_flag_left_by_failed_parse',
           'leak': 'other_engine_compiled_before_in_process'}
  what = {'importcache': 'a parsed import is kept between main programs '
                         'with the prefix the first one needed',
          'asbuilt': 'sticky parser flag after an incantation program',
          'failsticky': 'parser flag left on by a FAILED parse of an '
                        'incantation program',
          'leak': 'translation tables of an engine compiled earlier leak into '
                  'the next engine'}
  for m in sorted(AS_BUILT):
    if m in unpredicted:
      continue
    hit = [u for u in uniq if u['signature'][label[m]] and
           not u['signature']['same_lines_modulo_order_and_numbering']]
    if not hit:
      print('MODEL-DRIFT property=%s the implementation-shaped model "%s" (%s) '
            'violates the property on %s; the code shows no such deviation '
            '(informational: the property holds there)' % (
                PROP, m, what[m],
                asbuilt[m]['counterexample_last_state_hist'][:300]),
            flush=True)
  cov = Coverage(entries, windows, j)
  if cov['events_differing_only_in_container_order']:
    print('NOTE property=%s %d recorded event(s) differ from an equal-SQL '
          'recording only in the order of dependency-edge / export-map '
          'containers (not SQL bytes: informational)' % (
              PROP, cov['events_differing_only_in_container_order']),
          flush=True)
  n_bad = sum(1 for h in j['order'] if not j['verdicts'][h['id']]['ok'])
  n_opt_done = sum(1 for h in optional
                   if all(s in runner.done for s in Segments(h)))
  rc = 1 if violations else 0
  missing = Missing(cov, entries, cinfo)
  if n_opt_done < len(optional):
    print('NOTE property=%s %d of %d selected histories beyond the baseline '
          'were not replayed: the replay phase passed its %d s budget (loaded '
          'machine)'
          % (PROP, len(optional) - n_opt_done, len(optional),
             cfg['deadline_s']), flush=True)
  if unpredicted:
    missing.append('TLC found no violating history for the as-built models '
                   '%s: the shape is not among the enumerated histories'
                   % unpredicted)
  if missing:
    print('MACHINERY-FAILURE property=%s never exercised: %s' % (PROP, missing),
          flush=True)
    rc = rc or 2

  by_idx = {e['idx']: e for e in entries}
  samples = []
  for want_shape in ((1, 1), (1, 3), (2, 3), (3, 3)):
    for h in j['order']:
      if Shape(h) == want_shape and windows[h['w']]['tag'] != 'solo' or (
          want_shape == (1, 1) and Shape(h) == (1, 1)):
        t = j['traces'][j['order'].index(h)]
        samples.append({'id': h['id'], 'history': HistoryText(h, by_idx),
                        'verdict_ok': j['verdicts'][h['id']]['ok'],
                        'events': [{k: (v[:12] if k in ('sql', 'aux') else v)
                                    for k, v in e.items()}
                                   for e in t['events']][:8]})
        break
  kind_counts = collections.Counter(k for e in entries for k in e['kind'])
  coverage = {
      'evaluations': cov['events'],
      'distinct_nontrivial': cov['nontrivial'],
      'rule': RULE,
      'samples': samples,
      'states': stats['states'], 'transitions': stats['transitions'],
      'traces_validated_against_impl': len(j['order']),
      'exhaustive': False,
      'tlc_depth': stats['depth'], 'tlc_actions': stats['actions'],
      'tlc_invariants': ['FunctionOfProgram', 'Deterministic'],
      'tlc_asbuilt_model': asbuilt,
      'trace_tlc_states': j['vstats']['trace_tlc_states'],
      'histories_enumerated_by_tlc': len(histories),
      'histories_replayed': len(j['order']),
      'histories_always_replayed': len(required),
      'histories_selected_under_time_budget': len(optional),
      'histories_skipped_for_time': len(selected) - len(j['order']),
      'processes_started': len(runner.done),
      'windows': dict(collections.Counter(w['tag'] for w in windows)),
      'corpus_programs': len(entries),
      'corpus_integration_available': cinfo['integration_available'],
      'corpus_kinds_programs': dict(kind_counts),
      'corpus_kinds_events_ok': cov['kinds_ok'],
      'corpus_kinds_events': cov['kinds_events'],
      'event_status': cov['status'],
      'recursion_styles_measured': cov['recursion_styles_measured'],
      'history_shapes': cov['history_shapes'],
      'history_features': cov['history_features'],
      'events_from_used_rules_object': cov['events_from_used_rules_object'],
      'hash_seeds': cov['seeds'],
      'distinct_str_hash_values_across_seeds':
          cov['distinct_str_hash_values_across_seeds'],
      'events_differing_only_in_container_order':
          cov['events_differing_only_in_container_order'],
      'import_history_ordered_pairs_replayed':
          cov['import_history_ordered_pairs'],
      'engine_ordered_pairs_replayed': cov['engine_ordered_pairs'],
      'engine_ordered_triples_replayed': cov['engine_ordered_triples'],
      'victim_engines': cov['victim_engines'],
      'differing_builtins_derived': cinfo['differing_builtins'],
      'differing_builtins_in_compiled_victims':
          cov['differing_builtins_in_compiled_victims'],
      'victim_builtins_per_engine': cinfo['victim_uses'],
      'victim_builtins_rejected': cinfo['victim_rejected'],
      'programs_after_failed_incantation_parse':
          cov['programs_after_failed_incantation_parse'],
      'deviating_traces': n_bad,
      'unique_deviations': uniq[:20],
      'known_findings_reproduced': dict(known),
      'timing_s': {'corpus_and_tlc_enumeration': t_enum,
                   'replay_on_real_code': round(t_run - t_enum, 2),
                   'trace_validation': round(t_val - t_run, 2)},
  }
  evidence.Write(PROP, tier, 'exploration', coverage, clock(),
                 violations=len(violations), assumptions=[
                     'hash seeds and histories beyond the windows are '
                     'sampled, not exhausted',
                     'the flags are the ones of run_tests.py; LOGICA_PARSER is '
                     'unset (Python parser)',
                     'sha256 collisions are ignored',
                     'a process is observed through ParseFile / LogicaProgram '
                     '/ FormattedPredicateSql / program.execution only'])
  with open(os.path.join(workdir, 'verdicts.ndjson'), 'w') as f:
    for h in j['order']:
      f.write(json.dumps(j['verdicts'][h['id']]) + '\n')
  print('C13 %s: corpus %d programs, %d windows, TLC %d states / %d histories; '
        'replayed %d histories in %d processes (%d skipped for time), %d '
        'events, %d non-trivial comparisons; traces: %d ok, %d deviating (%d '
        'unique deviations, %d known), %d violation(s), %.0fs' % (
            tier, len(entries), len(windows), stats['states'], len(histories),
            len(j['order']), len(runner.done),
            len(selected) - len(j['order']), cov['events'], cov['nontrivial'],
            len(j['order']) - n_bad, n_bad, len(uniq),
            sum(1 for u in uniq if classifier.Match(u['signature'])),
            len(violations), clock()), flush=True)
  return rc


def Replay(path):
  with open(path) as f:
    payload = json.load(f)
  workdir = common.BuildDir("c13", "replay" + RepoTag())
  from harness import cppbuild
  cppbuild.Prepare()
  c13corpus.WriteModules()
  entries = payload['corpus']
  for e in entries:
    e['import_root'] = c13corpus.Resolve(e.get('import_root_sym'))
  corpus_path = os.path.join(workdir, 'corpus.json')
  with open(corpus_path, 'w') as f:
    json.dump({'programs': entries}, f)
  fh, h = payload.get('first_history'), payload['history']
  windows = []
  histories = []
  for k, (hh, w) in enumerate(((fh, payload.get('first_window')),
                               (h, payload['window']))):
    if hh is None:
      continue
    hh = dict(hh, w=len(windows), id=hh['id'] if hh is not fh or fh is None
              else hh['id'])
    windows.append(w)
    histories.append(hh)
  if len(histories) == 2 and histories[0]['id'] == histories[1]['id']:
    histories, windows = histories[1:], windows[1:]
    histories[0]['w'] = 0
  runner = Runner(corpus_path, workdir, time.time() + 3600)
  runner.Run([s for hh in histories for s in Segments(hh)], True)
  if runner.failed:
    print('MACHINERY-FAILURE property=%s worker failed: %s' % (
        PROP, runner.failed[:2]))
    return 2
  by_idx = {e['idx']: e for e in entries}
  for hh in histories:
    print('history %s: %s' % (hh['id'], HistoryText(hh, by_idx)))
  try:
    # the first history is the baseline
    loaded = {seg: runner.Load(seg) for seg in runner.done}
    traces = [TraceOf(hh, windows, loaded) for hh in histories]
    verdicts, _ = Validate(traces, {histories[0]['id']}, workdir, 'replay', 1)
  except RuntimeError as e:
    print('MACHINERY-FAILURE property=%s %s' % (PROP, str(e)[:2000]))
    return 2
  j = {'deviations': [], 'loaded': loaded,
       'hist_by_id': {hh['id']: hh for hh in histories}}
  for hh in histories:
    v = verdicts[hh['id']]
    print('TLC verdict for %s: %s' % (hh['id'], 'ok' if v['ok'] else
                                      json.dumps(v['devs'][0])))
    for dv in v['devs']:
      j['deviations'].append((hh, dv))
  if not j['deviations']:
    print('replay: every digest equals the first recorded one - the property '
          'holds on this history')
    return 0
  classifier = findings.Classifier(PROP)
  groups_before = len(os.listdir(common.BuildDir('replay', PROP)))
  del groups_before
  rc = 0
  by = {}
  for hh, dv in j['deviations']:
    by.setdefault((dv['prog'], dv['pred'], dv['clause'], dv['got']), (hh, dv))
  for hh, dv in by.values():
    entry = by_idx[dv['prog']]
    seg, ev = EventOf(hh, dv, windows, loaded)
    fseg, fev = FirstEvent(j['hist_by_id'][dv['first_trace']], dv, loaded)
    equals_variant = None
    if dv['explained'] or dv.get('explained_fail'):
      var = IncantedVariant(entry, dv['pred'], hh['h'][0]['n'], workdir)
      if var is not None:
        equals_variant = var[1 if dv['clause'] == 'aux' else 0] == dv['got']
    tkey = 'aux' if dv['clause'] == 'aux' else 'sql'
    got_text = runner.Text(seg, ev[tkey]) if ev else None
    want_text = runner.Text(fseg, fev[tkey]) if fev else None
    sig = Signature(dv, entry, ev, fev, seg, fseg, got_text, want_text,
                    equals_variant)
    print('signature: %s' % json.dumps(sig, sort_keys=True))
    print('\n'.join(Diff(want_text, got_text)))
    if classifier.Match(sig):
      continue
    common.Violation(PROP, path)
    rc = 1
  classifier.Report()
  return rc
