"""C14 - workflow execution: each statement after its inputs, the prescribed
number of times; several predicates at once = each alone.

Technique (DESIGN.md C14 / A.1):
  spec/Concertina.tla        abstract scheduler (the verdict level)
  spec/ConcertinaImpl.tla    transcription of concertina_lib.Concertina,
                             TLC checks ConcertinaImpl => Concertina
  spec/ConcertinaTrace.tla   accepts / rejects executions recorded from the
                             real code (every verdict of this check)
  harness/c14cfg.py          the bounded family of configurations (cross-checked
                             against spec/ConcertinaConfigs.tla by TLC)
  harness/c14run.py          drives the real Concertina / ExecuteLogicaProgram /
                             run_in_terminal.Run(Many) and records

Lines printed:
  VIOLATION property=C14 replay=<json>   a recorded execution of the real code
                                         is rejected by the abstract spec
  KNOWN-FINDING: property=C14 ...        rejected, signature listed in
                                         known_findings.json
  MODEL-DRIFT property=C14 ...           the code departs from ConcertinaImpl
                                         while the abstract spec accepts
"""
import concurrent.futures as cf
import json
import os
import shutil
import sys
import time

from harness import c14cfg
from harness import c14tlc
from harness import common
from harness import evidence
from harness import findings
from harness.semcheck import ParseVerdictLine

PROP = 'C14'

TIERS = {
    # exhaustive: Enumerate() arguments; sampled: (n, count)
    'quick': dict(
        exhaustive=[dict(min_n=1, max_n=3, max_groups=1, max_reps=2,
                         timing=True)],
        sampled=[(3, 700), (4, 1100), (5, 700)],
        abstract_cap=1200, programs=6, stub_programs=[0, 1, 3, 4],
        runmany=3, shards=5,
        enum_cfg='MCConcertinaEnum.cfg',
        enum_args=dict(min_n=1, max_n=3, min_reps=1, max_reps=2, max_groups=1,
                       max_len=2, timing=True)),
    'thorough': dict(
        exhaustive=[dict(min_n=1, max_n=3, max_groups=1, max_reps=3,
                         timing=True),
                    dict(min_n=1, max_n=3, max_groups=2, max_reps=2,
                         timing=True),
                    dict(min_n=4, max_n=4, max_groups=1, max_reps=2,
                         timing=False)],
        sampled=[(3, 2000), (4, 8000), (5, 6000)],
        abstract_cap=12000, programs=70, stub_programs=[0, 1, 2, 3, 4, 5],
        runmany=30, shards=14,
        enum_cfg='MCConcertinaEnum_thorough.cfg',
        enum_args=dict(min_n=1, max_n=3, min_reps=1, max_reps=2, max_groups=2,
                       max_len=3, timing=False)),
}

if os.environ.get('C14_DEV'):
  TIERS['dev'] = dict(
      exhaustive=[dict(min_n=1, max_n=3, max_groups=1, max_reps=2,
                       timing=True)],
      sampled=[(4, 150), (5, 100)], abstract_cap=600, programs=4,
      stub_programs=[0, 4], runmany=2, shards=3,
      enum_cfg='MCConcertinaEnum.cfg',
      enum_args=TIERS['quick']['enum_args'])

REQUIRED_FEATURES = [
    'groups=0', 'groups=1', 'groups=2', 'mode=halves', 'mode=diamond',
    'signal', 'no-signal', 'raised', 'never-raised', 'reps=1', 'reps=2',
    'reps=3', 'group-with-external-input', 'group-internal-edge',
    'group-feeds-outside', 'lower-half-external', 'n=4', 'n=5', 'len=4',
    'signal-file-empty-then-nonempty-round=1',
    'signal-file-empty-then-nonempty-round=2',
    'signal-file-empty-then-nonempty-round=3',
    'signal-file-empty-never-raised', 'signal-file-nonempty-at-first-write',
    'signal-file-appears-nonempty-round=1',
    'signal-file-appears-nonempty-round=2']


# ---------------------------------------------------------------------------
# configurations

def RandomConfig(rng, n):
  """One random well-formed configuration on n statements (any labelling)."""
  while True:
    perm = list(range(1, n + 1))
    rng.shuffle(perm)
    dens = rng.choice([0.2, 0.4, 0.6])
    req = [set() for _ in range(n)]
    for i in range(n):
      for j in range(i):
        if rng.random() < dens:
          req[perm[i] - 1].add(perm[j])
    ngroups = rng.choice([1, 1, 2]) if n >= 2 else 1
    free = list(range(1, n + 1))
    rng.shuffle(free)
    groups = []
    for _ in range(ngroups):
      if not free:
        break
      l = rng.randint(1, min(4, len(free)))
      groups.append(free[:l])
      free = free[l:]
    groups.sort(key=min)
    if not c14cfg.WellFormed(n, [frozenset(r) for r in req],
                             [tuple(g) for g in groups]):
      continue
    iters = []
    for m in groups:
      modes = ['halves', 'diamond'] if len(m) % 2 == 0 else ['diamond']
      reps = rng.randint(1, 3)
      sig = rng.randint(0, 1)
      iters.append({'members': list(m), 'mode': rng.choice(modes),
                    'reps': reps, 'sig': sig,
                    'raiseAt': rng.randint(0, len(m) * reps) if sig else 0})
    return {'n': n, 'req': [sorted(r) for r in req], 'iters': iters}


def HandConfigs(tier):
  t = TIERS[tier]
  seen = {}
  for args in t['exhaustive']:
    for c in c14cfg.Enumerate(**args):
      seen.setdefault(c14cfg.Key(c), c)
  exhaustive = len(seen)
  rng = common.Rng('c14/hand/' + tier)
  for n, count in t['sampled']:
    tries = 0
    got = 0
    while got < count and tries < 20 * count:
      tries += 1
      c = RandomConfig(rng, n)
      k = c14cfg.Key(c)
      if k not in seen:
        seen[k] = c
        got += 1
  cfgs = list(seen.values())
  # environment variant that the specifications do not see (an empty signal
  # file is no signal): in every second configuration with a stop signal the
  # engine writes the file EMPTY in the member calls before it raises it
  k = 0
  for c in cfgs:
    for g in c['iters']:
      if g['sig']:
        k += 1
        g['pre'] = k % 2
      else:
        g['pre'] = 0
  return [('h%06d' % i, c) for i, c in enumerate(cfgs)], exhaustive


def StripTiming(c):
  return {'n': c['n'], 'req': c['req'],
          'iters': [dict(g, raiseAt=0, pre=0) for g in c['iters']]}


# ---------------------------------------------------------------------------
# TLC plumbing

def WriteNd(path, lines):
  with open(path, 'w') as f:
    for l in lines:
      f.write(json.dumps({k: v for k, v in l.items() if k != '_'},
                         separators=(',', ':'), ensure_ascii=True) + '\n')


def Shard(lines, k):
  k = max(1, min(k, len(lines)))
  return [lines[i::k] for i in range(k) if lines[i::k]]


class Jobs(object):
  """TLC runs, one worker each, NCPU at a time."""

  def __init__(self, workdir):
    self.pool = cf.ThreadPoolExecutor(max_workers=common.NCPU)
    self.workdir = workdir
    self.futs = []
    self.count = 0

  def Submit(self, kind, module, cfg, lines, coverage=False, timeout=1500):
    self.count += 1
    path = os.path.join(self.workdir, '%s_%03d.ndjson' % (kind, self.count))
    WriteNd(path, lines)

    def Go():
      return c14tlc.Run(module, cfg, {'C14_INPUT': path}, coverage=coverage,
                        timeout=timeout, tag='c14' + kind)
    fut = self.pool.submit(Go)
    self.futs.append((kind, path, lines, fut))
    return fut

  def Results(self, kind):
    return [(p, l, f.result()) for k, p, l, f in self.futs if k == kind]

  def Close(self):
    self.pool.shutdown(wait=True)


def Verdicts(results):
  """{id: verdict} from ConcertinaTrace runs, plus accounting."""
  out = {}
  cov = {}
  states = trans = 0
  errors = []
  for path, lines, r in results:
    states += r.distinct
    trans += r.generated
    got = 0
    for line in r.out.splitlines():
      v = ParseVerdictLine(line)
      if v is not None:
        out[v['id']] = v
        got += 1
      elif line.startswith('<<"COV", '):
        try:
          c = json.loads(json.loads(line.strip()[9:-2]))
          for k, x in c.items():
            cov[k] = cov.get(k, 0) + x
        except ValueError:
          pass
    ids = {l['id'] for l in lines}
    missing = [i for i in ids if i not in out]
    if missing or r.rc == 124 or (
        r.error and 'Postcondition Accepted' not in r.out):
      errors.append('trace TLC failed on %s (rc=%s, %d verdicts missing): %s'
                    % (path, r.rc, len(missing), r.out[-1500:]))
  return out, cov, states, trans, errors


# ---------------------------------------------------------------------------

def MakeProbes(hand_lines):
  """From accepted-looking recorded executions, one corrupted event each."""
  probes = []
  want = {'OnceEach': 8, 'BoundedReps': 8, 'Complete': 8, 'AfterInputs': 8}

  def Add(line, ev, expect, what):
    if want[expect] <= 0:
      return
    want[expect] -= 1
    probes.append({'id': 'probe/%s/%s' % (expect, line['id']),
                   'cfg': line['cfg'], 'ev': ev, 'end': 'ok', 'res': [],
                   '_': {'expect': expect, 'what': what}})

  for line in hand_lines[::max(1, len(hand_lines) // 400)]:
    if line['end'] != 'ok' or not line['ev'] or \
        c14cfg.LowerHalfExternal(line['cfg']):
      continue
    members = {a for g in line['cfg']['iters'] for a in g['members']}
    ev = line['ev']
    last = ev[-1]
    if last[0] == 'run' and last[1] not in members:
      Add(line, ev + [last], 'OnceEach', 'last call duplicated')
    if last[0] == 'run' and last[1] in members:
      Add(line, ev + [last], 'BoundedReps', 'extra run of an iteration member')
    if len(ev) >= 2:
      Add(line, ev[:-1], 'Complete', 'last call dropped')
    for k, e in enumerate(ev):
      if k > 0 and e[0] == 'run' and c14cfg.External(line['cfg'], e[1]):
        Add(line, [e] + ev[:k] + ev[k + 1:], 'AfterInputs',
            'call %d moved to the front' % (k + 1))
        break
    if not any(want.values()):
      break
  return probes


def ChainAdversarial(prog_lines, cases):
  """Multi-predicate requests over a grounded chain in which a requested
  predicate is an intermediate of another requested one AND the names of its
  ancestors sort against the dependency order."""
  adv = {c['id']: (c['meta']['chain'], set(c['meta']['adversarial']))
         for c in cases if 'chain' in c['meta']}
  n = 0
  for l in prog_lines:
    cid = l['_']['case']
    sub = l['_']['subset']
    if cid in adv and len(sub) > 1:
      chain, bad = adv[cid]
      for p in sub:
        if p in bad and any(chain.index(q) > chain.index(p) for q in sub):
          n += 1
          break
  return n


def Signature(source, v):
  return {'source': source, 'clause': v.get('clause'), 'shape': v.get('shape')}


def Run(tier):
  clock = common.Clock()
  t = TIERS[tier]
  work = common.BuildDir('c14', 'run_' + tier)
  for f in os.listdir(work):
    os.unlink(os.path.join(work, f))
  machinery = []
  info = {}
  jobs = Jobs(work)

  # ---- 1. configurations; model checking jobs start immediately
  hand, n_exh = HandConfigs(tier)
  feat = {}
  for _, c in hand:
    for f in c14cfg.Features(c):
      feat[f] = feat.get(f, 0) + 1
  for f in REQUIRED_FEATURES:
    if not feat.get(f):
      machinery.append('construct never generated: ' + f)
  clean = [(i, c) for i, c in hand if not c14cfg.LowerHalfExternal(c)]
  shaped = [(i, c) for i, c in hand if c14cfg.LowerHalfExternal(c)]
  info['hand_configs'] = len(hand)
  info['hand_exhaustive_part'] = n_exh
  info['hand_lower_half_external_shape'] = len(shaped)

  # abstract spec: configurations modulo timing (it explores every timing)
  abs_seen = {}
  for i, c in hand:
    s = StripTiming(c)
    abs_seen.setdefault(c14cfg.Key(s), (i, s))
  abs_cfgs = list(abs_seen.values())
  if len(abs_cfgs) > t['abstract_cap']:
    rng = common.Rng('c14/abs')
    small = [x for x in abs_cfgs if x[1]['n'] <= 3]
    big = [x for x in abs_cfgs if x[1]['n'] > 3]
    rng.shuffle(big)
    abs_cfgs = (small + big)[:max(t['abstract_cap'], len(small))]
  skip_models = bool(os.environ.get('C14_SKIP_MODELS'))   # development aid
  # the code (since the fix: commit for F-C14-lower-half-external) and its
  # transcription treat the finding's shape like any other configuration
  clean_m, shaped_m = hand, []
  if skip_models:
    abs_cfgs, clean_m = abs_cfgs[:50], hand[:50]
  for part in Shard([{'id': i, 'cfg': c} for i, c in abs_cfgs], t['shards']):
    jobs.Submit('abs', 'MCConcertina', 'MCConcertina.cfg', part,
                coverage=True)
  for part in Shard([{'id': i, 'cfg': c} for i, c in clean_m], t['shards']):
    jobs.Submit('impl', 'MCConcertinaImpl', 'MCConcertinaImpl.cfg', part,
                coverage=True)
  if shaped_m:
    part = [{'id': i, 'cfg': c} for i, c in shaped_m]
    jobs.Submit('implx', 'MCConcertinaImpl', 'MCConcertinaImpl_export.cfg',
                part)
    jobs.Submit('implf', 'MCConcertinaImpl', 'MCConcertinaImpl.cfg',
                part[:4000])
  enum_lines = [{'id': 'e', 'cfg': c}
                for c in c14cfg.Enumerate(**t['enum_args'])]
  jobs.Submit('enum', 'MCConcertinaEnum', t['enum_cfg'], enum_lines)

  # ---- 2. the real code (fresh worker processes importing $LOGICA_REPO)
  from harness import c14run
  rng = common.Rng('c14/programs/' + tier)
  cases = [c14run.GenProgram(rng, 'p%04d' % k, multi=(k % 4 == 0),
                             orders=(2 if tier == 'quick' else 4),
                             two_iter=(k % 4 == 2),
                             max_blocks=(2 if tier == 'quick' else 3),
                             data=(True if k % 3 == 1 else None))
           for k in range(t['programs'])]
  cases.append(c14run.ThreeRequestsCase())
  chain_cases = c14run.ChainCases(full=(tier == 'thorough'))
  cases += chain_cases
  case_by_id = {c['id']: c for c in cases}
  plain_cases = [c for c in cases if not c['meta']['data'] and
                 'chain' not in c['meta']]
  stub_cases = []
  for k, text in enumerate(c14run.StubPrograms()):
    if k in t['stub_programs']:
      for rnd in (1, 2, 3, 4):
        for pre in (0, 1):
          stub_cases.append({'id': 's%02d/round%d/pre%d' % (k, rnd, pre),
                             'text': text, 'pred': 'Q', 'round': rnd,
                             'pre': pre})
  # one pool: single requests, real Run/RunMany, stub runs; then the
  # multi-predicate requests (they carry the single-request tables)
  tasks = [{'kind': 'subset', 'case': c, 'sub': sub}
           for c in cases for sub in c['subsets'] if len(sub) == 1]
  tasks += [{'kind': 'runmany', 'case': c}
            for c in plain_cases[:t['runmany']]]
  tasks += [{'kind': 'runmany', 'case': c}
            for c in [x for x in chain_cases if x['meta']['adversarial']][:3]]
  tasks += [{'kind': 'stub', 'case': c} for c in stub_cases]
  # the hand-made configurations share the pool (compiled tasks first: they
  # are the long ones)
  tasks += [{'kind': 'hand', 'items': hand[k:k + 100]}
            for k in range(0, len(hand), 100)]
  out1 = common.ParallelMap(c14run.RunTask, tasks, chunksize=1)
  hand_lines = [l for tk, r in zip(tasks, out1) if tk['kind'] == 'hand'
                for l in r]
  info['hand_wall'] = clock()
  for part in Shard(hand_lines, t['shards']):
    jobs.Submit('trh', 'ConcertinaTrace', 'ConcertinaTrace.cfg', part)
  prog_lines = [r for tk, r in zip(tasks, out1) if tk['kind'] == 'subset']
  stub_lines = [r for tk, r in zip(tasks, out1) if tk['kind'] == 'stub']
  runmany_lines = []
  for tk, r in zip(tasks, out1):
    if tk['kind'] == 'runmany':
      runmany_lines.append({'id': r['id'],
                            'cfg': {'n': 0, 'req': [], 'iters': []},
                            'ev': [], 'end': r['end'], 'res': r['res'],
                            '_': {'origin': 'runmany',
                                  'text': tk['case']['text'],
                                  'finals': tk['case']['finals']}})
  singles = {}
  for line in prog_lines:
    singles.setdefault(line['_']['case'], {}).update(line['_']['results'])
  tasks2 = [{'kind': 'subset', 'case': c, 'sub': sub,
             'singles': singles.get(c['id'], {})}
            for c in cases for sub in c['subsets'] if len(sub) > 1]
  prog_lines += common.ParallelMap(c14run.RunTask, tasks2, chunksize=1)
  # reproducers of the listed finding through compilation (undocumented
  # option / hand-written @Iteration): classified, never silently dropped
  special = []
  for ident, text in (('x-ignition', c14run.IGNITION_PROGRAM),
                      ('x-hand-iteration', c14run.HAND_ITERATION_PROGRAM)):
    special += c14run.RunProgramCase(
        {'id': ident, 'text': text, 'finals': ['Q'], 'subsets': [['Q']],
         'origin': 'compiled-undocumented'})
  info['impl_wall'] = clock()
  # sensitivity probes: recorded executions with ONE event corrupted in a way
  # that is illegal whatever the configuration; TLC must reject every one
  probes = MakeProbes(hand_lines)
  comp_lines = prog_lines + runmany_lines + stub_lines + special
  for part in Shard(comp_lines, max(2, t['shards'] // 2)):
    jobs.Submit('trc', 'ConcertinaTrace', 'ConcertinaTrace.cfg', part)
  jobs.Submit('trp', 'ConcertinaTrace', 'ConcertinaTrace.cfg', probes)

  jobs.Close()
  info['tlc_wall'] = clock()
  info['tlc_job_wall_by_kind'] = {}
  for kind, _, _, fut in jobs.futs:
    info['tlc_job_wall_by_kind'][kind] = round(
        info['tlc_job_wall_by_kind'].get(kind, 0) + fut.result().wall, 1)
  info['tlc_jobs'] = len(jobs.futs)

  # ---- 3. model-level results
  states = trans = 0
  action_cov = {}
  configs_loaded = 0

  def Account(r):
    nonlocal states, trans
    states += r.distinct
    trans += r.generated
    for k, (d, tot) in r.Coverage().items():
      od, ot = action_cov.get(k, (0, 0))
      action_cov[k] = (od + d, ot + tot)

  for path, lines, r in jobs.Results('abs'):
    Account(r)
    if not r.ok:
      machinery.append('abstract spec Concertina failed its own properties '
                       'on %s: %s' % (path, r.out[-1500:]))
  predicted = {}
  for kind in ('impl', 'implx'):
    for path, lines, r in jobs.Results(kind):
      if kind == 'impl':
        Account(r)
      if not r.ok:
        machinery.append('ConcertinaImpl => Concertina failed on %s '
                         ': %s' % (path, r.out[-2500:]))
      for s in r.Printed('B'):
        try:
          b = json.loads(json.loads(s[6:-2]))
        except ValueError:
          continue
        predicted[lines[b['ci'] - 1]['id']] = b['log']
  model_reproduces = None
  for path, lines, r in jobs.Results('implf'):
    states += r.distinct
    trans += r.generated
    model_reproduces = ('AbsAfterInputs' in r.invariant_violated or
                        'AbsSafe' in r.out and 'violated' in r.out)
  for path, lines, r in jobs.Results('enum'):
    m = [l for l in r.out.splitlines() if l.startswith('<<"ENUM"')]
    info['enumerator_crosscheck'] = (m[0] if m else 'no output')
    if not r.ok:
      machinery.append('configuration enumerator differs from '
                       'ConcertinaConfigs.tla: %s' % r.out[-1500:])

  # ---- 4. verdicts on the real code
  vh, covh, s1, t1, e1 = Verdicts(jobs.Results('trh'))
  vc, covc, s2, t2, e2 = Verdicts(jobs.Results('trc'))
  vp, _, s3, t3, e3 = Verdicts(jobs.Results('trp'))
  states += s1 + s2 + s3
  trans += t1 + t2 + t3
  machinery += e1 + e2 + e3
  probe_clauses = {}
  for pl in probes:
    v = vp.get(pl['id'])
    if v is None or v['ok'] or v['clause'] != pl['_']['expect']:
      machinery.append('corrupted trace %s (%s) not rejected as %s: %s' % (
          pl['id'], pl['_']['what'], pl['_']['expect'], v))
    else:
      probe_clauses[v['clause']] = probe_clauses.get(v['clause'], 0) + 1
  if len(probe_clauses) < 4:
    machinery.append('sensitivity probes vacuous: %s' % probe_clauses)
  classifier = findings.Classifier(PROP)
  violations = []
  known = 0
  drift = []
  accepted = 0
  by_clause = {}

  def Judge(line, v, source):
    nonlocal known, accepted
    if v is None:
      return
    if v['ok']:
      accepted += 1
      return
    key = '%s/%s/%s' % (source, v['clause'], v['shape'])
    by_clause[key] = by_clause.get(key, 0) + 1
    sig = Signature(source, v)
    if source not in ('compiled', 'compiled-stub') and classifier.Match(sig):
      known += 1
      return
    violations.append((line, v, source))

  for line in hand_lines:
    v = vh.get(line['id'])
    Judge(line, v, 'hand')
    if v and v['ok'] and line['id'] in predicted:
      if [list(x) for x in predicted[line['id']]] != line['ev']:
        drift.append((line, predicted[line['id']]))
  problems = []
  for line in comp_lines:
    origin = line['_'].get('origin', 'compiled')
    source = {'compiled': 'compiled', 'runmany': 'compiled',
              'stub': 'compiled-stub',
              'compiled-undocumented': 'compiled-undocumented'}[origin]
    Judge(line, vc.get(line['id']), source)
    problems += line['_'].get('problems', [])
  if problems:
    machinery.append('plan derivation problems: %s' % sorted(set(problems))[:5])

  # ---- 5. vacuity accounting for the compiled part
  comp = {'programs': len(cases), 'executions': len(prog_lines),
          'multi_requests': sum(1 for l in prog_lines
                                if len(l['_']['subset']) > 1),
          'tables_compared': sum(len(l['res']) for l in comp_lines),
          'with_iteration': sum(1 for l in prog_lines if l['cfg']['iters']),
          'with_two_iterations': sum(1 for l in prog_lines
                                     if len(l['cfg']['iters']) > 1),
          'rename_path': sum(1 for l in prog_lines
                             if l['_'].get('rename')),
          'requests_of_3_or_more': sum(1 for l in prog_lines
                                       if len(l['_']['subset']) >= 3),
          'accumulated_renames': sum(
              1 for l in prog_lines if len(l['_']['subset']) >= 3 and
              l['_'].get('renamed_in_one', 0) >= 2),
          'accumulated_renames_generated': sum(
              1 for l in prog_lines if len(l['_']['subset']) >= 3 and
              l['_'].get('renamed_in_one', 0) >= 2 and
              not l['id'].startswith('x-')),
          'with_data_table': sum(1 for c in cases if c['meta']['data']),
          'max_statements': max([l['cfg']['n'] for l in prog_lines] + [0]),
          'max_reps': max([g['reps'] for l in prog_lines
                           for g in l['cfg']['iters']] + [0]),
          'reps_below_1': sum(1 for l in prog_lines for g in l['cfg']['iters']
                              if g['reps'] < 1),
          'events': sum(len(l['ev']) for l in comp_lines),
          'ended_ok': sum(1 for l in prog_lines if l['end'] == 'ok'),
          'runmany_real': len(runmany_lines),
          'stub_runs': len(stub_lines),
          'stub_signal_raised': sum(1 for l in stub_lines
                                    if any(e[0] == 'raise' for e in l['ev'])),
          'chain_requests': sum(1 for l in prog_lines
                                if l['_']['case'].startswith('chain-') and
                                len(l['_']['subset']) > 1),
          'chain_adversarial_requests': ChainAdversarial(prog_lines, cases),
          'compiled_lower_half_external': sum(
              1 for l in prog_lines + stub_lines
              if l['cfg']['n'] and c14cfg.LowerHalfExternal(l['cfg']))}
  for rnd in (1, 2, 3, 4):
    for pre in (0, 1):
      key = 'stub_%s_round_%d' % ('empty_then_nonempty' if pre else
                                  'appears_nonempty', rnd)
      comp[key] = sum(1 for l in stub_lines
                      if l['_'].get('round') == rnd and
                      l['_'].get('pre') == pre and l['_'].get('raised'))
      if not comp[key]:
        machinery.append('compiled part vacuous: %s = 0' % key)
  comp['stub_without_signal'] = sum(1 for l in stub_lines
                                    if not l['_'].get('writers'))
  for k in ('chain_requests', 'chain_adversarial_requests'):
    if not comp[k]:
      machinery.append('compiled part vacuous: %s = 0' % k)
  for k in ('multi_requests', 'tables_compared', 'with_iteration',
            'with_two_iterations', 'rename_path', 'requests_of_3_or_more',
            'accumulated_renames', 'accumulated_renames_generated',
            'with_data_table',
            'runmany_real', 'stub_signal_raised'):
    if not comp[k]:
      machinery.append('compiled part vacuous: %s = 0' % k)
  if comp['ended_ok'] < 0.9 * len(prog_lines):
    machinery.append('too many generated programs fail to run: %d of %d ok'
                     % (comp['ended_ok'], len(prog_lines)))
  for k in ('plain', 'last', 'stopped', 'again', 'raise'):
    if not covh.get(k):
      machinery.append('abstract action never taken by a recorded trace: ' + k)
  need_actions = ['DoRunPlain', 'DoRunLast', 'DoRunStopped', 'DoRunAgain',
                  'DoRaiseSignal', 'RunPlainI', 'RunLastI', 'RunStoppedI',
                  'RunRequeueI', 'DoEnvRaise', 'Finish']
  for a in need_actions:
    if not action_cov.get(a, (0, 0))[1]:
      machinery.append('TLC coverage: action %s never taken' % a)

  # ---- 6. report
  for line, v, source in violations[:25]:
    payload = {'kind': source, 'verdict': v, 'line': {
        k: x for k, x in line.items() if k != '_'}, 'meta': line.get('_', {})}
    path = common.WriteReplay(PROP, 'c14_%s' % common.Sha(
        [line['id'], line['cfg'], line['ev']]), payload)
    common.Violation(PROP, path)
  if len(violations) > 25:
    print('... %d further rejected executions not listed' %
          (len(violations) - 25))
  classifier.Report()
  if drift:
    line, pred = drift[0]
    print('MODEL-DRIFT property=%s %d of %d accepted executions differ from '
          'the call sequence predicted by ConcertinaImpl (abstract spec '
          'accepts them); first: cfg=%s real=%s model=%s' % (
              PROP, len(drift), accepted, json.dumps(line['cfg']),
              json.dumps(line['ev']), json.dumps(pred)), flush=True)
  for m in machinery:
    print('MACHINERY property=%s %s' % (PROP, m[:3000]), flush=True)

  samples = []
  for line in hand_lines[:1] + hand_lines[len(hand_lines) // 2:
                                          len(hand_lines) // 2 + 1]:
    samples.append({'source': 'hand', 'cfg': line['cfg'], 'ev': line['ev'],
                    'verdict': vh.get(line['id'])})
  for line in (prog_lines[-1:] + stub_lines[:1]):
    samples.append({'source': line['_']['origin'], 'id': line['id'],
                    'program': line['_']['text'],
                    'statements': line['_'].get('stmts'),
                    'cfg': line['cfg'], 'ev': line['ev'][:60],
                    'verdict': vc.get(line['id'])})
  nontrivial = len({json.dumps([l['cfg'], l['ev']], sort_keys=True)
                    for l in hand_lines + comp_lines
                    if len(l['ev']) >= 2})
  coverage = {
      'states': states, 'transitions': trans,
      'traces_validated_against_impl': len(vh) + len(vc),
      'evaluations': len(hand_lines) + len(comp_lines),
      'distinct_nontrivial': nontrivial,
      'rule': ('hand: every configuration of the exhaustive family (%s) plus '
               'seeded random well-formed configurations on 3..5 statements, '
               'each run on the real concertina_lib.Concertina with a logging '
               'engine; compiled: generated SQLite programs (@Ground '
               'intermediates, @Recursive depth>20 / iterative: true, data '
               'tables), every non-empty subset of 2-3 requested predicates '
               'through ExecuteLogicaProgram with a recording sql_runner, plus '
               'run_in_terminal.Run/RunMany, plus DuckDB-compiled stop-signal '
               'plans on a stub runner.  Distinct = distinct (configuration, '
               'recorded call sequence); non-trivial = at least 2 runner '
               'calls.  Every verdict is ConcertinaTrace\'s.' %
               json.dumps(t['exhaustive'])),
      'samples': samples,
      'exhaustive': False,
      'tlc_action_coverage': {k: {'distinct': d, 'total': tot}
                              for k, (d, tot) in sorted(action_cov.items())
                              if k in need_actions},
      'trace_action_coverage': {'hand': covh, 'compiled': covc},
      'config_features': dict(sorted(feat.items())),
      'hand': info,
      'compiled': comp,
      'accepted': accepted, 'rejected_by_clause': by_clause,
      'known_finding_rejections': known,
      'corrupted_traces_rejected': probe_clauses,
      'model_drift': len(drift),
      'violations_found': len(violations),
      'machinery_problems': machinery[:10],
  }
  rc = 1 if violations else (2 if machinery else 0)
  evidence.Write(PROP, tier, 'model_checking', coverage, clock(),
                 violations=len(violations), assumptions=[
                     'a declared repetition count below 1 is read as 1',
                     'the statements a compiled statement reads are the '
                     'dependency_edges of the plan; SQLite itself reports a '
                     'table read before it was created (run ends abnormally)',
                     'stop signals: the harness\'s engine / stub runner writes '
                     'the signal file during a call, so the event order is '
                     'exact; DuckDB-compiled plans are not executed as SQL',
                     'configuration family for n>=4 is sampled (seeded), for '
                     'n<=3 exhaustive within the bounds in coverage.rule',
                     'ConcertinaImpl transcribes the code as of the fix: '
                     'commit for the lower-half external requirements; the '
                     'refinement is checked on every configuration'])
  print('C14 %s: %d hand configurations (%d exhaustive part), %d compiled '
        'executions, %d traces judged by TLC, %d accepted, %d known-finding, '
        '%d violations, TLC states %d / transitions %d, %.1fs' % (
            tier, len(hand), n_exh, len(comp_lines), len(vh) + len(vc),
            accepted, known, len(violations), states, trans, clock()),
        flush=True)
  return rc


# ---------------------------------------------------------------------------

def Replay(path):
  """Re-runs the recorded case on the current $LOGICA_REPO and lets TLC judge
  it again.  Exit 1 iff it is still rejected."""
  from harness import c14run
  with open(path) as f:
    p = json.load(f)
  line = p['line']
  meta = p.get('meta', {})
  kind = p['kind']
  if kind == 'hand':
    new = c14run.HandLine((line['id'], line['cfg']))
    lines = [new]
  elif meta.get('origin') == 'stub':
    lines = [c14run.RunStubCase({'id': line['id'], 'text': meta['text'],
                                 'pred': meta['pred'],
                                 'round': meta['round'],
                                 'pre': meta['pre']})]
  elif meta.get('origin') == 'runmany':
    r = c14run.RunManyCase({'id': line['id'].split('/')[0],
                            'text': meta['text'], 'finals': meta['finals']})
    lines = [{'id': r['id'], 'cfg': {'n': 0, 'req': [], 'iters': []},
              'ev': [], 'end': r['end'], 'res': r['res']}]
  else:
    sub = meta['subset']
    subsets = [[q] for q in sub] + ([sub] if len(sub) > 1 else [])
    ls = c14run.RunProgramCase({'id': meta['case'], 'text': meta['text'],
                                'finals': sub, 'subsets': subsets,
                                'pre_sql': meta.get('pre_sql', []),
                                'origin': meta.get('origin', 'compiled')})
    lines = [l for l in ls if l['_']['subset'] == sub]
  work = common.BuildDir('c14', 'replay')
  jobs = Jobs(work)
  jobs.Submit('trr', 'ConcertinaTrace', 'ConcertinaTrace.cfg', lines)
  jobs.Close()
  v, _, _, _, errors = Verdicts(jobs.Results('trr'))
  for e in errors:
    print('MACHINERY property=%s %s' % (PROP, e))
  if errors:
    return 2
  bad = 0
  for l in lines:
    ver = v.get(l['id'])
    print('replay %s: events=%s end=%s verdict=%s' % (
        l['id'], json.dumps(l['ev'][:80]), l['end'][:200], json.dumps(ver)))
    if not ver['ok']:
      bad += 1
  if bad:
    print('VIOLATION property=%s replay=%s' % (PROP, path))
    return 1
  print('replay: accepted by ConcertinaTrace')
  return 0
