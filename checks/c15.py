"""C15 - layout, comments and string contents never change what is parsed;
every source span is literally the text at its position.

Specification: spec/LLex.tla (lexical automaton, layouts, model theorem),
spec/LSyntaxGen.tla (programs), spec/LLexNoise.tla (placements),
spec/LLexFill.tla (string/comment contents).
Conformance: TLC exports token sequences, noise placements and contents; the
harness renders them (twin of LLex!Render, re-checked by the trace spec),
parses every text with BOTH real parsers and records tree hashes, literal
values and span facts; spec/LLexTrace.tla decides every clause of the
property from the recorded data.
"""
import collections
import json
import os
import re
import subprocess

from harness import common
from harness import cppbuild
from harness import evidence
from harness import findings
from harness import syntaxgen as sg
from harness import tlc

PROP = 'C15'

INCANTATION = ' Signa inter verba conjugo, symbolum infixus evoco! '

PROFILES = {
    # fill_len: contents enumerated exhaustively up to this length;
    # fill3_sample: simulated walks of LLexFill for longer contents;
    # extra_programs: programs (beyond all_sites_programs) that get seeded
    # single sites and parentheses in addition to the all-spaces layout
    'quick': dict(ex_fuel=1, all_sites_programs=8, sampled_sites=1,
                  extra_programs=None,
                  sim_num=24, sim_fuel=4, multi_num=48, multi_depth=4,
                  fill_len=2, fill3_sample=None, hosts=3, shards=6),
    'thorough': dict(ex_fuel=2, all_sites_programs=260, sampled_sites=2,
                     extra_programs=6000,
                     sim_num=500, sim_fuel=5, multi_num=1500, multi_depth=6,
                     fill_len=3, fill3_sample=None, hosts=6, shards=16),
}


# ---- parsing workers ---------------------------------------------------------


def _ParseOne(text):
  return sg.ParseFacts(text)


def ParseAll(texts):
  texts = sorted(set(texts))
  res = common.ParallelMap(_ParseOne, texts, chunksize=16)
  return dict(zip(texts, res))


def ParseIsolated(groups):
  """Each group of texts is parsed, in order, in ONE fresh interpreter (for
  inputs that may leave state behind in the parser modules).  Returns a list
  (per group) of lists of parse facts."""
  code = ('import sys, json; sys.path.insert(0, %r); '
          'from harness import cppbuild, syntaxgen as sg; '
          'cppbuild.Prepare(build=False); '
          'ts = json.load(sys.stdin); '
          'print(json.dumps([sg.ParseFacts(t) for t in ts]))') % common.VERIF

  def One(group):
    p = subprocess.run([common.PY, '-c', code], input=json.dumps(group),
                       capture_output=True, text=True, timeout=600,
                       env=dict(os.environ))
    if p.returncode != 0:
      raise RuntimeError('isolated parse failed: ' + p.stderr[-2000:])
    return json.loads(p.stdout.strip().splitlines()[-1])
  import concurrent.futures as cf
  with cf.ThreadPoolExecutor(max_workers=common.NCPU) as ex:
    return list(ex.map(One, groups))


# ---- records ------------------------------------------------------------------


def LayoutOf(place):
  return {'sites': sorted(place['sites'], key=lambda s: (s['b'], s['pos'])),
          'wraps': sorted(place['wraps']),
          'nests': sorted(place.get('nests', []), key=lambda x: x['w']),
          'empties': sorted(place.get('empties', []), key=lambda e: e['b']),
          'semi': place['semi']}


def NoiseKinds(lay):
  ks = [s['k'] for s in lay['sites']]
  if lay['wraps']:
    ks.append('paren')
  for x in lay.get('nests', []):
    ks.append('nest')
    ks.append('nest_' + x['k'])
  for e in lay.get('empties', []):
    ks.append('empty' if e['c'] == 0 else 'empty_comment')
  if lay['semi']:
    ks.append('semi')
  return ks


def Variant(lay, kind='noise', cfill=None, facts=None):
  return {'lay': sg.NormLayout(lay), 'kind': kind, 'cfill': cfill,
          'facts': facts}


def VariantText(tc, v):
  return sg.Render(tc, v['lay'], cfill=v['cfill'])


def MakeRecord(rid, tc, variants, parsed, base=None, kind='noise'):
  canon_text = sg.Render(tc)
  cp = parsed[canon_text]
  rec = {'id': rid, 'case': tc, 'kind': kind,
         'base': base or {'py': cp['py']['shape'], 'cpp': cp['cpp']['shape']},
         'canon': {'text': sg.Cps(canon_text), 'py': sg.ForTlc(cp['py']),
                   'cpp': sg.ForTlc(cp['cpp'])},
         'raw': {'canon': cp, 'vars': []},
         'vars': []}
  for v in variants:
    text = VariantText(tc, v)
    p = v['facts'] or parsed[text]
    rec['raw']['vars'].append(p)
    rec['vars'].append({
        'lay': v['lay'], 'kind': v['kind'],
        'cfill': sg.Cps(v['cfill']) if v['cfill'] is not None else tc['cfill'],
        'text': sg.Cps(text), 'py': sg.ForTlc(p['py']),
        'cpp': sg.ForTlc(p['cpp'])})
  return rec


def ParseR(line):
  line = line.strip()
  if not (line.startswith('<<"R", "') and line.endswith('">>')):
    return None
  try:
    return json.loads(json.loads(line[6:-2]))
  except ValueError:
    return None


def Validate(records, tag, shards):
  """Runs LLexTrace over the records; returns ({id: report}, stats, errors)."""
  d = common.BuildDir('trace', tag + sg.ScratchTag())
  for f in os.listdir(d):
    os.unlink(os.path.join(d, f))
  shards = max(1, min(shards, len(records)))
  weights = [0] * shards
  parts = [[] for _ in range(shards)]
  for r in sorted(records, key=lambda r: -len(r['vars'])):
    k = weights.index(min(weights))
    parts[k].append({x: y for x, y in r.items() if x != 'raw'})
    weights[k] += len(r['vars']) + 1
  paths = []
  for k, part in enumerate(parts):
    if part:
      paths.append(sg.WriteNdjson(os.path.join(d, 'shard%02d.ndjson' % k),
                                  part))

  def One(path):
    return tlc.Run('LLexTrace', workers=1, timeout=3000, tag=tag, heap='3g',
                   env={'TRACE_FILE': path, 'JAVA_TOOL_OPTIONS': '-Xss64m'})
  import concurrent.futures as cf
  with cf.ThreadPoolExecutor(max_workers=common.NCPU) as ex:
    results = list(ex.map(One, paths))
  reports = {}
  errors = []
  states = transitions = 0
  for path, r in zip(paths, results):
    states += r.distinct
    transitions += r.generated
    for line in r.out.splitlines():
      v = ParseR(line)
      if v:
        reports[v['id']] = v
    if not r.ok:
      errors.append((path, r.rc, r.out[-3000:]))
  return reports, {'tlc_states': states, 'tlc_transitions': transitions,
                   'shards': len(paths)}, errors


# ---- classification of failures (signatures for known_findings.json) ----------
# The verdicts are LLexTrace's.  The code below only *describes* a failed
# clause (which construct, which noise) so that a listed finding can be
# recognised narrowly; anything it cannot attribute is construct "other".


def TokClass(t):
  if t in ('^', '$'):
    return t
  if t in sg.KEYWORDS or t in ('true', 'false', 'null'):
    return 'kw:' + t
  if t[0] in '"\'':
    return 'str'
  if t[0] == '`':
    return 'bt'
  if t[0].isdigit():
    return 'num'
  if t[0].isupper() or t[0] == '@':
    return 'agg:' + t if t.endswith('=') else 'Name'
  if t[0].islower() or t[0] == '_':
    return 'name'
  return 'op:' + t


# a run of ParseGenericCall's predicate-name characters that contains + or -
# (or is the special name `!`) and stands immediately before an opening
# parenthesis or brace (ParseCall / ParseUltraConciseCombine)
_PM_RUN = re.compile(r'[A-Za-z0-9_@.$`{}+\-]*[+\-][A-Za-z0-9_@.$`{}+\-]*[({]'
                     r'|(?<![A-Za-z0-9_@.$`+\-!])!\{')


def PlusMinusRuns(text):
  # the `-` of `:-` is not part of a name run
  return sorted(_PM_RUN.findall(text.replace(':-', ': ')))


# a keyword delimited by `_` (or the end of the name) inside an identifier
_KW_IN_ID = re.compile(r'(^|_)(distinct|limit|order_by|then|else|if|in|combine|'
                       r'couldbe|cantbe|shouldbe)(_|$)', re.I)

_OPERAND_END = ('name', 'num', 'str', 'Name', 'bt', 'op:)', 'op:]', 'op:}',
                'kw:true', 'kw:false', 'kw:null')


def Signature(rec, vidx, who, clause, min_lay=None):
  """Signature of one failed clause of variant vidx (0: canonical text)."""
  tc = rec['case']
  toks = [sg.UnCps(t) for t in tc['toks']]
  cls = [TokClass(t) for t in toks]
  sig = {'clause': clause, 'parser': who, 'kind': rec['kind']}
  canon_p = rec['raw']['canon'][who]
  if vidx == 0:
    sig['where'] = 'canonical'
    var_p = canon_p
    lay = sg.EMPTY_LAYOUT
    cfill = None
  else:
    v = rec['vars'][vidx - 1]
    var_p = rec['raw']['vars'][vidx - 1][who]
    sig['kind'] = v['kind']
    lay = v['lay']
    if min_lay:
      lay, min_st = min_lay
      var_p = {'st': min_st}
    cfill = sg.UnCps(v['cfill'])
    kinds = NoiseKinds(lay)
    sig['noise'] = '+'.join(sorted(set(kinds)))
    sig['nsites'] = len(kinds)
  if clause == 'tree':
    sig['change'] = '%s->%s' % (canon_p['st'], var_p['st'])
  lay = sg.NormLayout(lay)
  single_site = (len(lay['sites']) == 1 and not lay['wraps'] and
                 not lay['nests'] and not lay['semi'] and not lay['empties'])
  # one pair or one nest of redundant parentheses around a range
  single_wrap = (len(lay['wraps']) + len(lay['nests']) == 1 and
                 not lay['sites'] and not lay['semi'] and not lay['empties'])
  wrapped = None
  if single_wrap:
    wrapped = tc['ranges'][(lay['wraps'] or [lay['nests'][0]['w']])[0] - 1]
  left = right = first = before = None
  if single_site:
    s = lay['sites'][0]
    b = s['b']
    left = cls[b - 1] if b >= 1 else '^'
    right = cls[b] if b < len(toks) else '$'
    sig['pos'] = s['pos'] if tc['sep'][b] else '-'
    before = cls[b - 2] if b >= 2 else '^'
  elif single_wrap:
    a, z = wrapped
    left = cls[a - 2] if a >= 2 else '^'
    right = cls[z] if z < len(toks) else '$'
    first = cls[a - 1]
    before = cls[a - 3] if a >= 3 else '^'
    sig['first'] = first
  if left is not None:
    sig['left'] = left
    sig['right'] = right

  # --- construct -------------------------------------------------------------
  construct = 'other'
  sq_contents = [t[1:-1] for t in toks if t[:1] == "'"]
  if sig['kind'] in ('incantation', 'sticky'):
    construct = ('experimental-syntax-incantation'
                 if sig['kind'] == 'incantation' else 'incantation-sticky')
  elif clause == 'inert':
    if any(re.search(r'\\[()\[\]{}]', c) for c in sq_contents):
      construct = 'sq-escaped-bracket'
  elif clause in ('lit', 'litset'):
    if who == 'cpp' and any(re.search(r'\\[^\\\'"nrtxuU]', c)
                            for c in sq_contents):
      construct = 'cpp-unknown-escape'
  elif clause == 'heritage':
    if who == 'cpp' and any(
        toks[i] == '[' and tc['glue'][i] for i in range(1, len(toks))):
      construct = 'cpp-arraysub-heritage'
  elif clause == 'tree':
    canon_text = sg.Render(tc)
    noisy_text = sg.Render(tc, lay, cfill=cfill, strip_comments=True)
    unary = left == 'op:-' and before not in _OPERAND_END
    newline = single_site and lay['sites'][0]['k'] in (
        'nl', 'hash', 'cr', 'ff', 'vt', 'tab', 'crlf')
    if (unary and ((single_site and right == 'num') or
                   (single_wrap and first == 'num' and
                    wrapped[0] == wrapped[1]))):
      construct = 'unary-minus-number'
    elif PlusMinusRuns(canon_text) != PlusMinusRuns(noisy_text):
      construct = 'plusminus-run-before-paren'
    elif (lay['sites'] and not lay['wraps'] and not lay['nests'] and
          not lay['semi'] and sig['change'] == 'rej->ok' and
          all(s_['b'] >= 1 and s_['b'] < len(toks) and
              cls[s_['b'] - 1] == 'name' and cls[s_['b']] == 'op:+='
              for s_ in lay['sites'])):
      construct = 'assign-combination-needs-space'
    elif (single_wrap and sig['change'] == 'rej->ok' and
          (left.startswith('agg:') or left in ('op:+=', 'op:=')) and
          _HasTopLevelEqComparison(toks, wrapped)):
      construct = 'head-value-comparison-with-eq'
    elif (single_site and sig['change'] == 'ok->rej' and left == 'kw:if' and
          lay['sites'][0]['k'] in ('cr', 'ff', 'vt', 'tab', 'crlf') and
          (sig['pos'] == 'L' or not tc['sep'][lay['sites'][0]['b']])):
      construct = 'keyword-newline:if'
    elif (newline and sig['change'] == 'ok->rej' and
          ((left in ('kw:in', 'kw:combine') and
            (sig['pos'] == 'L' or not tc['sep'][lay['sites'][0]['b']])) or
           (right == 'kw:in' and
            (sig['pos'] == 'R' or not tc['sep'][lay['sites'][0]['b']])))):
      construct = 'keyword-newline:' + (left if left.startswith('kw:')
                                        else right)[3:]
    elif single_site and left == 'op:..' and sig['change'] == 'ok->rej':
      construct = 'restof-dots-space'
    elif ((sig['change'] == 'rej->ok' and _HasKwId(toks)) or
          (single_wrap and _HasKwId(toks[wrapped[0] - 1:wrapped[1]]))):
      # an identifier that carries a keyword next to `_` stands where the
      # keyword search of the parsers splits; the canonical text is rejected
      construct = 'keyword-inside-identifier'
    elif (lay['sites'] and not lay['wraps'] and not lay['nests'] and
          not lay['semi'] and
          all(s_['k'] != 'block' for s_ in lay['sites']) and
          all(_EqTokenRightOf(toks, s_['b']) for s_ in lay['sites'])):
      construct = 'concise-combine-eq-misfire'
  sig['construct'] = construct
  return sig


def _HasKwId(toks):
  return any(_KW_IN_ID.search(t) for t in toks
             if '_' in t and t not in sg.KEYWORDS and t[0] not in '"\'`')


def _EqTokenRightOf(toks, b):
  """Boundary b lies inside a proposition that has, to its right and at the
  same bracket depth, one of the operators = != <= >= (the shapes on which
  ParseConciseCombine splits)."""
  # (the left operand may be wrapped in one pair of parentheses, which Strip
  # removes before ParseConciseCombine looks at the blanks: depth -1)
  depth = 0
  for t in toks[b:]:
    if t in '([{':
      depth += 1
    elif t in ')]}':
      depth -= 1
      if depth < -1 or t != ')' and depth < 0:
        return False
    elif depth <= 0 and t in (',', '|', ':-', ';', '=>'):
      return False
    elif depth <= 0 and t in ('=', '!=', '<=', '>='):
      return True
  return False


def _HasTopLevelEqComparison(toks, rng):
  a, z = rng
  depth = 0
  for t in toks[a - 1:z]:
    if t in '([{':
      depth += 1
    elif t in ')]}':
      depth -= 1
    elif depth == 0 and t in ('==', '<=', '>=', '!='):
      return True
  return False


def _Elements(lay):
  return ([('site', s) for s in lay['sites']] +
          [('wrap', w) for w in lay['wraps']] +
          [('nest', x) for x in lay.get('nests', [])] +
          [('empty', e) for e in lay.get('empties', [])] +
          ([('semi', 1)] if lay['semi'] else []))


def _LayoutFrom(elements):
  return {'sites': [e[1] for e in elements if e[0] == 'site'],
          'wraps': [e[1] for e in elements if e[0] == 'wrap'],
          'nests': [e[1] for e in elements if e[0] == 'nest'],
          'empties': [e[1] for e in elements if e[0] == 'empty'],
          'semi': 1 if any(e[0] == 'semi' for e in elements) else 0}


def Minimize(job):
  """1-minimal sub-layout that still changes the tree of parser `who`
  (only used to *classify* a failure TLC reported, never for a verdict)."""
  tc, lay, cfill, who = job

  status = {}

  def Tree(text):
    p = sg.ParseFacts(text, want_facts=False)[who]
    status[text] = p['st']
    return p['tree']
  canon = Tree(sg.Render(tc))

  def Fails(elements):
    return Tree(sg.Render(tc, _LayoutFrom(elements), cfill=cfill)) != canon

  def Done(elements):
    lay_ = _LayoutFrom(elements)
    text = sg.Render(tc, lay_, cfill=cfill)
    if text not in status:
      Tree(text)
    return lay_, status[text]
  elements = _Elements(lay)
  if len(elements) <= 1:
    return Done(elements)
  for e in elements:
    if Fails([e]):
      return Done([e])
  changed = True
  while changed and len(elements) > 1:
    changed = False
    for k in range(len(elements)):
      cand = elements[:k] + elements[k + 1:]
      if Fails(cand):
        elements = cand
        changed = True
        break
  return Done(elements)


# ---- the check ----------------------------------------------------------------------


def Coverage(cases):
  cnt = collections.Counter()
  for c in cases:
    for p in c['prods']:
      cnt[p] += 1
  return cnt


def PickSpread(cases, k, rng):
  """k cases covering as many productions as possible (greedy), then random."""
  if k is None or k >= len(cases):
    return list(range(len(cases)))
  chosen = []
  covered = set()
  order = list(range(len(cases)))
  rng.shuffle(order)
  for i in order:
    new = set(cases[i]['prods']) - covered
    if new:
      chosen.append(i)
      covered |= new
    if len(chosen) >= k:
      break
  rest = [i for i in order if i not in set(chosen)]
  chosen += rest[:max(0, k - len(chosen))]
  return sorted(chosen)


def Run(tier):
  clock = common.Clock()
  prof = PROFILES[tier]
  rng = common.Rng('c15')
  seed = common.Seed()
  cppbuild.Prepare()
  tlc_states = tlc_trans = 0
  stats = collections.OrderedDict()

  # 1. programs (TLC: LSyntaxGen), exhaustive + simulated, and contents
  #    (TLC: LLexFill) -- three independent TLC jobs, run concurrently
  import concurrent.futures as cf
  with cf.ThreadPoolExecutor(max_workers=5) as ex:
    f1 = ex.submit(sg.RunGen, 'c15_ex', prof['ex_fuel'], 1, imports=False,
                   workers=8)
    f2 = ex.submit(sg.RunGen, 'c15_sim', prof['sim_fuel'], 2, imports=False,
                   simulate='num=%d' % prof['sim_num'], depth=400,
                   seed=seed + 1, workers=4)
    f3 = ex.submit(sg.RunFills, 'c15', prof['fill_len'])
    f3u = ex.submit(sg.RunFills, 'c15_u', prof['fill_len'], alphabet='unicode')
    f3b = (ex.submit(sg.RunFills, 'c15_sim', 3,
                     simulate='num=%d' % prof['fill3_sample'], seed=seed + 3)
           if prof['fill3_sample'] else None)
    ex_cases, modelled, r1 = f1.result()
    sim_cases, _, r2 = f2.result()
    fills, r5 = f3.result()
    ufills, r5u = f3u.result()
    if f3b:
      more, r5b = f3b.result()
      if not r5b.ok:
        print(r5b.out[-3000:])
        return Fail(tier, clock, 'LLexFill simulation failed')
      have = set(json.dumps(f['syms']) for f in fills)
      for f in more:
        if json.dumps(f['syms']) not in have:
          have.add(json.dumps(f['syms']))
          fills.append(f)
  if not r1.ok or not ex_cases:
    print(r1.out[-3000:])
    return Fail(tier, clock, 'LSyntaxGen exhaustive run failed')
  if not r2.ok:
    print(r2.out[-3000:])
    return Fail(tier, clock, 'LSyntaxGen simulation run failed')
  if not r5.ok or not fills:
    print(r5.out[-3000:])
    return Fail(tier, clock, 'LLexFill run failed (model theorem or machinery)')
  if not r5u.ok or not ufills:
    print(r5u.out[-3000:])
    return Fail(tier, clock, 'LLexFill (unicode alphabet) run failed')
  for r in (r1, r5, r5u):
    tlc_states += r.distinct
    tlc_trans += r.generated
  ex_cases = sg.DedupCases(ex_cases)
  ex_keys = set(json.dumps(c['toks'], sort_keys=True) for c in ex_cases)
  sim_cases = [c for c in sg.DedupCases(sim_cases)
               if json.dumps(c['toks'], sort_keys=True) not in ex_keys]
  stats['programs_exhaustive'] = len(ex_cases)
  stats['programs_simulated'] = len(sim_cases)
  stats['gen_states'] = r1.distinct
  stats['fills_enumerated'] = len(fills)
  stats['unicode_fills_enumerated'] = len(ufills)
  print('[%6.1fs] programs: %d exhaustive (fuel %d, %d TLC states), %d '
        'simulated; %d contents enumerated (LLexFill theorem holds)'
        % (clock(), len(ex_cases), prof['ex_fuel'], r1.distinct,
           len(sim_cases), len(fills)), flush=True)

  # 2. placements (TLC: LLexNoise)
  ex_tc = [sg.TlcCase(c, 'e%05d' % i) for i, c in enumerate(ex_cases)]
  sim_tc = [sg.TlcCase(c, 's%05d' % i) for i, c in enumerate(sim_cases)]
  all_cases = ex_cases + sim_cases
  all_tc = ex_tc + sim_tc
  tc_by_id = {t['id']: t for t in all_tc}
  case_by_id = {t['id']: c for t, c in zip(all_tc, all_cases)}
  all_idx = PickSpread(ex_cases, prof['all_sites_programs'], rng)
  single_tc = [ex_tc[i] for i in all_idx]
  rest_tc = [ex_tc[i] for i in range(len(ex_tc)) if i not in set(all_idx)]
  multi_pool = sim_tc + rest_tc
  with cf.ThreadPoolExecutor(max_workers=2) as ex:
    f3 = ex.submit(sg.RunNoise, 'c15_single', single_tc, 1, workers=10)
    f4 = ex.submit(sg.RunNoise, 'c15_multi', multi_pool, prof['multi_depth'],
                   simulate='num=%d' % max(5, prof['multi_num'] // 4),
                   depth=prof['multi_depth'] + 2, seed=seed + 2, workers=4)
    places1, r3 = f3.result()
    places2, r4 = f4.result()
  if not r3.ok:
    print(r3.out[-3000:])
    return Fail(tier, clock, 'LLexNoise single-site run failed '
                '(model theorem or machinery)')
  if not r4.ok:
    print(r4.out[-3000:])
    return Fail(tier, clock, 'LLexNoise multi-site run failed')
  tlc_states += r3.distinct
  tlc_trans += r3.generated
  variants = collections.OrderedDict()     # program id -> [Variant]
  seen = set()
  for p in places1 + places2:
    lay = LayoutOf(p)
    key = (p['id'], json.dumps(lay, sort_keys=True))
    if key in seen:
      continue
    seen.add(key)
    variants.setdefault(p['id'], []).append(Variant(lay))
  # every other program: the all-spaces layout, a few seeded single sites and
  # one pair of redundant parentheses
  others = rest_tc + sim_tc
  extra_ids = set(t['id'] for t in others)
  if prof['extra_programs'] is not None and len(others) > prof['extra_programs']:
    extra_ids = set(t['id'] for t in
                    common.Rng('c15x').sample(others, prof['extra_programs']))
  for t in others:
    vs = variants.setdefault(t['id'], [])
    n = len(t['toks'])
    free = [b for b in range(n + 1) if not t['glue'][b]]
    vs.append(Variant({'sites': [{'b': b, 'k': 'sp', 'pos': 'L'}
                                 for b in free], 'wraps': [], 'semi': 0}))
    # CRLF line ends as a whole-file variant, one stray \r / \f / \v / tab at
    # a token boundary, an extra ';' and a comment-only statement
    vs.append(Variant({'sites': [{'b': b, 'k': 'crlf', 'pos': 'L'}
                                 for b in free]}))
    vs.append(Variant({'sites': [{'b': rng.choice(free),
                                  'k': rng.choice(['cr', 'ff', 'vt', 'tab']),
                                  'pos': 'L'}]}))
    sb = sg.StatementBoundaries(t)
    vs.append(Variant({'empties': [{'b': rng.choice(sb), 'c': 0}]}))
    vs.append(Variant({'empties': [{'b': rng.choice(sb),
                                    'c': rng.choice([1, 2])}]}))
    if t['id'] not in extra_ids:
      continue
    for _ in range(prof['sampled_sites']):
      b = rng.choice(free)
      k = rng.choice(['sp', 'nl', 'hash', 'block'])
      pos = rng.choice(['L', 'R']) if t['sep'][b] else 'L'
      vs.append(Variant({'sites': [{'b': b, 'k': k, 'pos': pos}], 'wraps': [],
                         'semi': 0}))
    if t['ranges']:
      vs.append(Variant({'sites': [],
                         'wraps': [rng.randrange(len(t['ranges'])) + 1],
                         'semi': 0}))
      vs.append(Variant({'nests': [{
          'w': rng.randrange(len(t['ranges'])) + 1, 'd': rng.choice([2, 3]),
          'k': rng.choice(['sp', 'nl', 'hash', 'block'])}]}))
  stats['placements_single_site_tlc'] = len(places1)
  stats['placements_multi_site_tlc'] = len(places2)
  print('[%6.1fs] placements: %d single-site on %d programs (every boundary, '
        'exhaustive), %d multi-site (simulated); model theorem checked on %d '
        'layouts' % (clock(), len(places1), len(single_tc), len(places2),
                     r3.distinct + r4.distinct), flush=True)

  # 3. contents of strings and comments
  fills_used = fills
  stats['fills_used'] = len(fills_used)
  hosts = {}
  for form in ('dq', 'sq', 'tq'):
    cand = [i for i, c in enumerate(all_cases)
            if [f for _, f in sg.StringSlots(c['toks'])].count(form) >= 1
            and len(c['toks']) <= 40]
    hosts[form] = cand[:prof['hosts']]
    if not hosts[form]:
      return Fail(tier, clock, 'no host program with a %s string slot' % form)
  comment_hosts = PickSpread(ex_cases, prof['hosts'], common.Rng('c15h'))
  str_jobs = []      # (tc, base_text, kind)
  n = 0
  for f in fills_used:
    text = sg.UnCps(f['text'])
    n += 1
    for form in ('dq', 'sq', 'tq'):
      if not f['legal'][form]:
        continue
      hi = hosts[form][n % len(hosts[form])]
      c = all_cases[hi]
      slots = [k for k, (_, fm) in enumerate(sg.StringSlots(c['toks']))
               if fm == form]
      slot = slots[n % len(slots)]
      tc = sg.TlcCase(c, 'f%s%06d' % (form, n), str_fill={slot: text})
      str_jobs.append((tc, sg.Render(all_tc[hi]), 'str_' + form))
    for form in ('hash', 'block'):
      if not f['legal'][form]:
        continue
      hi = comment_hosts[n % len(comment_hosts)]
      t = ex_tc[hi]
      free = [b for b in range(len(t['toks']) + 1) if not t['glue'][b]]
      b = free[(n // len(comment_hosts)) % len(free)]
      variants.setdefault(t['id'], []).append(Variant(
          {'sites': [{'b': b, 'k': form, 'pos': 'L'}], 'wraps': [], 'semi': 0},
          kind='comment_' + form, cfill=text))

  # 3b. characters of 2, 3 and 4 UTF-8 bytes inside literals that stand
  #     BEFORE other tokens of the statement (spans after them must still be
  #     the text at their position, for both parsers) and inside comments
  def TokensFollow(c, i):
    return sum(1 for t in c['toks'][i + 1:]
               if t['k'] in ('var', 'num', 'pred', 'field')) >= 2
  uhosts = {}
  for form in ('dq', 'sq', 'tq'):
    cand = [i for i, c in enumerate(all_cases) if len(c['toks']) <= 40 and any(
        fm == form and TokensFollow(c, ti)
        for ti, fm in sg.StringSlots(c['toks']))]
    uhosts[form] = cand[:prof['hosts']]
    if not uhosts[form]:
      return Fail(tier, clock, 'no host with a %s literal before other tokens'
                  % form)
  ustr_jobs = []
  n = 0
  for f in ufills:
    text = sg.UnCps(f['text'])
    if not any(ord(ch) > 127 for ch in text):
      continue
    n += 1
    for form in ('dq', 'sq', 'tq'):
      if not f['legal'][form]:
        continue
      hi = uhosts[form][n % len(uhosts[form])]
      c = all_cases[hi]
      slots = [k for k, (ti, fm) in enumerate(sg.StringSlots(c['toks']))
               if fm == form and TokensFollow(c, ti)]
      tc = sg.TlcCase(c, 'u%s%05d' % (form, n),
                      str_fill={slots[n % len(slots)]: text})
      free = [b for b in range(len(tc['toks']) + 1) if not tc['glue'][b]]
      vs = [Variant({'sites': [{'b': b, 'k': 'sp', 'pos': 'L'} for b in free]},
                    kind='unoise')]
      if tc['ranges']:
        vs.append(Variant({'nests': [{'w': n % len(tc['ranges']) + 1,
                                      'd': 2 + n % 2,
                                      'k': ['nl', 'sp', 'hash', 'block'][n % 4]}]},
                          kind='unoise'))
      ustr_jobs.append((tc, sg.Render(all_tc[hi]), 'ustr_' + form, vs))
    for form in ('hash', 'block'):
      if not f['legal'][form]:
        continue
      hi = comment_hosts[n % len(comment_hosts)]
      t = ex_tc[hi]
      free = [b for b in range(len(t['toks']) + 1) if not t['glue'][b]]
      variants.setdefault(t['id'], []).append(Variant(
          {'sites': [{'b': free[n % min(3, len(free))], 'k': form, 'pos': 'L'}]},
          kind='ucomment_' + form, cfill=text))

  # 4. parse everything with both parsers
  texts = []
  for pid, vs in variants.items():
    tc = tc_by_id[pid]
    texts.append(sg.Render(tc))
    texts += [VariantText(tc, v) for v in vs]
  for tc, base_text, _ in str_jobs:
    texts.append(sg.Render(tc))
    texts.append(base_text)
  for tc, base_text, _, vs in ustr_jobs:
    texts.append(sg.Render(tc))
    texts.append(base_text)
    texts += [VariantText(tc, v) for v in vs]
  parsed = ParseAll(texts)
  stats['texts_parsed'] = len(parsed)
  print('[%6.1fs] parsed %d distinct texts with both parsers'
        % (clock(), len(parsed)), flush=True)

  # 5. records -> LLexTrace
  records = []
  for pid, vs in variants.items():
    records.append(MakeRecord(pid, tc_by_id[pid], vs, parsed))
  for tc, base_text, kind in str_jobs:
    bp = parsed[base_text]
    records.append(MakeRecord(
        tc['id'], tc, [], parsed,
        base={'py': bp['py']['shape'], 'cpp': bp['cpp']['shape']}, kind=kind))
  for tc, base_text, kind, vs in ustr_jobs:
    bp = parsed[base_text]
    records.append(MakeRecord(
        tc['id'], tc, vs, parsed,
        base={'py': bp['py']['shape'], 'cpp': bp['cpp']['shape']}, kind=kind))
  inc_records, inc_note = IncantationRecords(all_cases, all_tc)
  records += inc_records
  stats['incantation_records'] = len(inc_records)

  reports, vstats, errors = Validate(records, 'c15', prof['shards'])
  tlc_states += vstats['tlc_states']
  tlc_trans += vstats['tlc_transitions']
  if errors or len(reports) != len(records):
    for e in errors[:2]:
      print(e[2])
    return Fail(tier, clock, 'LLexTrace failed on %d shard(s); %d/%d records '
                'judged' % (len(errors), len(reports), len(records)))
  print('[%6.1fs] LLexTrace judged %d records (%d texts)'
        % (clock(), len(reports), sum(r['n'] for r in reports.values())),
        flush=True)

  # 6. verdicts
  rec_by_id = {r['id']: r for r in records}
  jobs = []
  for rid, rep in reports.items():
    rec = rec_by_id[rid]
    for vidx, (who, clause) in rep['bad']:
      if (clause == 'tree' and vidx and
          rec['vars'][vidx - 1]['kind'] not in ('incantation', 'sticky')):
        jobs.append((rid, vidx, who))
  minimal = {}
  if jobs:
    mins = common.ParallelMap(
        Minimize, [(rec_by_id[rid]['case'],
                    rec_by_id[rid]['vars'][vidx - 1]['lay'],
                    sg.UnCps(rec_by_id[rid]['vars'][vidx - 1]['cfill']), who)
                   for rid, vidx, who in jobs], chunksize=4)
    minimal = dict(zip(jobs, mins))
  print('[%6.1fs] reduced %d differing layouts for classification'
        % (clock(), len(jobs)), flush=True)

  cls = findings.Classifier(PROP)
  violations = []
  known_repro = {}
  machinery = []
  per_noise = collections.Counter()
  per_kind = collections.Counter()
  rejected_canon = 0
  facts = 0
  for rid, rep in reports.items():
    rec = rec_by_id[rid]
    facts += rep['facts']
    per_kind[rec['kind']] += 1
    if rec['canon']['py']['st'] != 'ok' or rec['canon']['cpp']['st'] != 'ok':
      rejected_canon += 1
    for v in rec['vars']:
      per_kind[v['kind']] += 1
      for k in NoiseKinds(v['lay']):
        per_noise[k] += 1
    for vidx, (who, clause) in rep['bad']:
      if who == 'm':
        machinery.append((rid, vidx, clause))
        continue
      sig = Signature(rec, vidx, who, clause, minimal.get((rid, vidx, who)))
      v = rec['vars'][vidx - 1] if vidx else None
      item = {'id': rid, 'variant': vidx, 'parser': who, 'clause': clause,
              'signature': sig,
              'canonical_text': sg.UnCps(rec['canon']['text']),
              'text': sg.UnCps(v['text'] if v else rec['canon']['text']),
              'layout': v['lay'] if v else None,
              'cfill': sg.UnCps(v['cfill']) if v else None,
              'variant_kind': v['kind'] if v else rec['kind'],
              'minimal_layout': (minimal.get((rid, vidx, who)) or [None])[0],
              'case': rec['case'], 'base': rec['base']}
      known = cls.Match(sig)
      if known:
        # one stored reproducer per listed finding (shortest text seen)
        best = known_repro.get(known['id'])
        if best is None or len(item['text']) < len(best['text']):
          known_repro[known['id']] = item
        continue
      violations.append(item)

  if machinery:
    print('machinery clause failed: %s' % machinery[:5])
    return Fail(tier, clock, 'render clause failed for %d texts'
                % len(machinery))

  # vacuity (R4)
  cov = Coverage([case_by_id[p] for p in variants])
  missing = [p for p in modelled if cov.get(p, 0) == 0
             and not p.startswith('import')]
  missing_noise = [k for k in ['sp', 'nl', 'hash', 'block', 'paren', 'semi',
                               'nest', 'nest_sp', 'nest_nl', 'nest_hash',
                               'nest_block', 'tab', 'cr', 'ff', 'vt', 'crlf',
                               'empty', 'empty_comment']
                   if per_noise.get(k, 0) == 0]
  missing_kind = [k for k in ['noise', 'str_dq', 'str_sq', 'str_tq',
                              'comment_hash', 'comment_block', 'incantation',
                              'sticky', 'ustr_dq', 'ustr_sq', 'ustr_tq',
                              'unoise', 'ucomment_hash', 'ucomment_block']
                  if per_kind.get(k, 0) == 0]
  # the unicode literals must have been followed by spans in both parsers
  for who in ('py', 'cpp'):
    if not any(r['kind'].startswith('ustr_') and r['canon'][who]['st'] == 'ok'
               and any(sp[1] > min(i for i, ch in enumerate(r['canon']['text'])
                                   if ch > 65535)
                       for sp in r['canon'][who]['spans'])
               for r in records
               if any(ch > 65535 for ch in r['canon']['text'])):
      missing_kind.append('span after a 4-byte character (%s)' % who)

  with open(os.path.join(common.BuildDir('replay', PROP), 'all_failures.json'),
            'w') as f:
    json.dump([{k: v for k, v in it.items() if k != 'case'}
               for it in violations], f, indent=0)
  groups = collections.OrderedDict()
  for it in violations:
    key = {k: v for k, v in it['signature'].items() if k != 'nsites'}
    groups.setdefault(json.dumps(key, sort_keys=True), []).append(it)
  for key, items in groups.items():
    items.sort(key=lambda it: len(it['text']))
    it = dict(items[0])
    it['count'] = len(items)
    it['more'] = [{'text': x['text'], 'canonical_text': x['canonical_text']}
                  for x in items[1:6]]
    path = common.WriteReplay(PROP, 'v_' + common.Sha(key), it)
    common.Violation(PROP, path)
    print('  %s\n    canonical=%r\n    text=%r (%d cases)' % (
        key, it['canonical_text'][:100], it['text'][:100], len(items)))
  known_lines = cls.Report()
  for fid, it in known_repro.items():
    common.WriteReplay(PROP, 'known_' + fid, it)

  n_texts = sum(r['n'] for r in reports.values())
  # non-trivial: the canonical text is accepted by both parsers and the
  # variant's text differs from it (so "same tree" is not vacuous)
  nontrivial = set()
  for rec in records:
    if (rec['canon']['py']['st'] == 'ok' and rec['canon']['cpp']['st'] == 'ok'):
      ct = tuple(rec['canon']['text'])
      if rec['kind'] != 'noise':
        nontrivial.add((ct, ()))
      for v in rec['vars']:
        if tuple(v['text']) != ct or v['kind'] == 'sticky':
          nontrivial.add((ct, tuple(v['text'])))
  coverage = {
      'states': tlc_states, 'transitions': tlc_trans,
      'traces_validated_against_impl': len(reports),
      'samples': Samples(records, 4),
      'evaluations': n_texts,
      'distinct_nontrivial': len(nontrivial),
      'rule': ('non-trivial = distinct (canonical, variant) text pairs whose '
               'canonical text both parsers accept and whose variant text '
               'differs (plus each filled literal accepted by both); '
               'programs: every derivation of spec/LSyntaxGen.tla with <= %d '
               'non-default productions in one statement (%d) + %d simulated '
               'larger programs; layouts: every single-site noise at every '
               'token boundary of %d programs, seeded single sites on the '
               'others, %d multi-site layouts simulated by LLexNoise; '
               'contents: all strings of length <= %d over the 19-symbol '
               'alphabet%s in "..", \'..\', triple-quoted literals and # / '
               'block comments (LLexFill); every text parsed by PY and CPP; '
               'all verdicts by spec/LLexTrace.tla' % (
                   prof['ex_fuel'], len(ex_cases), len(sim_cases),
                   len(single_tc), len(places2), prof['fill_len'],
                   '' if not prof['fill3_sample'] else
                   ' (+ simulated walks to length 3)')),
      'facts_checked_by_tlc': facts,
      'per_production': dict(sorted(cov.items())),
      'per_noise_kind': dict(per_noise),
      'per_record_kind': dict(per_kind),
      'canonical_rejected_programs': rejected_canon,
      'productions_modelled': len(modelled),
      'failed_clauses_total': sum(len(r['bad']) for r in reports.values()),
      'known_findings_reproduced': {k: len(v) for k, v in cls.hit.items()},
      'known_findings_not_reproduced': cls.NotReproduced(),
      'incantation_note': inc_note,
      'stats': stats,
  }
  if missing or missing_noise or missing_kind:
    print('VACUITY: productions never exercised: %s; noise kinds: %s; '
          'record kinds: %s' % (missing, missing_noise, missing_kind))
    evidence.Write(PROP, tier, 'model_checking', coverage, clock(),
                   violations=len(groups),
                   assumptions=ASSUMPTIONS + ['MACHINERY: vacuous'])
    return 2
  evidence.Write(PROP, tier, 'model_checking', coverage, clock(),
                 violations=len(groups), assumptions=ASSUMPTIONS)
  print('[%6.1fs] C15 %s: %d texts judged, %d facts, %d violation group(s), '
        '%d known finding(s) reproduced' % (
            clock(), tier, n_texts, facts, len(groups), len(known_lines)),
        flush=True)
  return 1 if groups else 0


ASSUMPTIONS = [
    'token boundaries are those of docs/syntax.md: no layout is inserted '
    'between a name and its opening bracket, inside .field / l[i] / Op{ or '
    'inside an import path; "else if" is one terminal of the grammar',
    'contents with characters of 2, 3 and 4 UTF-8 bytes (U+00E9, U+20AC, '
    'U+1D11E) are a separate small alphabet (with ; and a bracket), not '
    'crossed with the 19-symbol alphabet',
    'redundant parentheses are put only around ranges the grammar licenses '
    'without operator precedence (whole arguments, primaries, propositions)',
    'the canonical text is the tightest rendering that keeps the tokens '
    'apart (spaces only between words, around keywords and where two '
    'tokens would merge); noise is inserted, never removed',
    "'...' literals denote what Python's literal syntax denotes "
    '(docs/syntax.md is silent)',
]


def Samples(records, k):
  out = []
  for r in records:
    if r['vars']:
      out.append({'canonical': sg.UnCps(r['canon']['text']),
                  'noisy': sg.UnCps(r['vars'][-1]['text'])})
    if len(out) >= k:
      break
  return out


def IncantationRecords(all_cases, all_tc):
  """Programs sensitive to parse.TOO_MUCH with the incantation text placed in
  a comment, and the same canonical text parsed again afterwards in the same
  interpreter; every group parsed in a fresh interpreter."""
  hosts = []
  for tc0, c in zip(all_tc, all_cases):
    toks = c['toks']
    for i in range(1, len(toks) - 2):
      if (toks[i]['k'] == 'p' and toks[i]['t'] in ('*', '/', '%') and
          toks[i + 1]['k'] == 'pred' and toks[i + 2]['t'] == '(' and
          toks[i + 2]['g'] == 1 and toks[i - 1]['k'] in ('var', 'num')):
        hosts.append((tc0, c))
        break
    if len(hosts) >= 2:
      break
  if not hosts:
    return [], 'no host with a name-adjacent * / % operator was generated'
  recs = []
  for tc0, c in hosts:
    tc = sg.TlcCase(c, 'inc_' + tc0['id'], cfill=INCANTATION)
    canon = sg.Render(tc)
    lays = [{'sites': [{'b': 0, 'k': k, 'pos': 'L'}], 'wraps': [], 'semi': 0}
            for k in ('hash', 'block')]
    noisy = [sg.Render(tc, lay) for lay in lays]
    res = ParseIsolated([[canon], [noisy[0]], [noisy[1]],
                         [noisy[0], canon]])
    parsed = {canon: res[0][0]}
    vs = [Variant(lays[0], kind='incantation', facts=res[1][0]),
          Variant(lays[1], kind='incantation', facts=res[2][0]),
          # the canonical text itself, parsed after the incantation program
          Variant(sg.EMPTY_LAYOUT, kind='sticky', facts=res[3][1])]
    recs.append(MakeRecord(tc['id'], tc, vs, parsed, kind='noise'))
  return recs, 'hosts: %s' % [sg.Render(tc) for tc, _ in hosts]


def Fail(tier, clock, why):
  print('MACHINERY-FAILURE property=%s %s' % (PROP, why), flush=True)
  evidence.Write(PROP, tier, 'model_checking',
                 {'states': 0, 'transitions': 0,
                  'traces_validated_against_impl': 0, 'samples': [],
                  'evaluations': 0, 'distinct_nontrivial': 0,
                  'rule': 'machinery failure: ' + why}, clock(),
                 assumptions=['MACHINERY FAILURE: ' + why])
  return 2


def Replay(path):
  """Re-parses the texts of a replay file with both parsers (fresh
  interpreters) and lets LLexTrace judge them again."""
  with open(path) as f:
    it = json.load(f)
  cppbuild.Prepare()
  tc = it['case']
  kind = it.get('variant_kind', 'noise')
  canon = sg.Render(tc)
  vs = []
  if it.get('layout') is not None:
    v = Variant(it['layout'], kind=kind, cfill=it.get('cfill'))
    text = VariantText(tc, v)
    if kind == 'sticky':
      inc = sg.Render(tc, {'sites': [{'b': 0, 'k': 'hash', 'pos': 'L'}],
                           'wraps': [], 'semi': 0}, cfill=INCANTATION)
      v['facts'] = ParseIsolated([[inc, canon]])[0][1]
    else:
      v['facts'] = ParseIsolated([[text]])[0][0]
    vs.append(v)
  parsed = {canon: ParseIsolated([[canon]])[0][0]}
  rec = MakeRecord(it['id'], tc, vs, parsed, it.get('base'),
                   kind=kind if not vs else 'noise')
  reports, _, errors = Validate([rec], 'c15_replay', 1)
  if errors or not reports:
    print('MACHINERY-FAILURE property=%s replay' % PROP)
    for e in errors:
      print(e[2])
    return 2
  rep = reports[it['id']]
  print('canonical: %r' % canon)
  for who in ('py', 'cpp'):
    p = rec['raw']['canon'][who]
    print('  %s: %s tree=%s %s' % (who, p['st'], p['tree'],
                                   p.get('msg', '')[:100]))
  for v, raw in zip(rec['vars'], rec['raw']['vars']):
    print('variant (%s): %r' % (v['kind'], sg.UnCps(v['text'])))
    for who in ('py', 'cpp'):
      p = raw[who]
      print('  %s: %s tree=%s %s' % (who, p['st'], p['tree'],
                                     p.get('msg', '')[:100]))
  print('failed clauses (decided by LLexTrace): %s' % rep['bad'])
  if rep['bad']:
    common.Violation(PROP, path)
    return 1
  print('no clause fails')
  return 0
