"""C16 - type unification is a symmetric idempotent meet; clash iff no common type.

Specification: spec/TypeAlgebra.tla (term language, Member/Inst = the meaning,
structural Meet, Canon), spec/TypeAlgebraLemmas.tla (TLC proves Meet against
Inst over whole bounded universes and exports the universes), and
spec/TypeAlgebraTrace.tla (TLC judges recorded results of the real code).

Binding: the terms TLC exported (plus seeded random depth-3 terms and stores
with shared references) are built as real reference_algebra.TypeReference
objects of $LOGICA_REPO, the real Unify / UnifyListElement / UnifyRecordField /
CloseRecord are called in every order, VeryConcreteType of every reference is
recorded after every call, and TLC decides every case.  Python computes no
verdict: it builds objects, records renderings and reports what TLC printed.
"""
import itertools
import json
import os
import re
import sys
import time

from harness import common
from harness import evidence
from harness import findings
from harness import tlc

PROP = 'C16'
STYLES = ('ref', 'close', 'raw', 'chain')

# Register numbers of spec/TypeAlgebraTrace.tla (1-based positions of SUMMARY).
REG = {
    'failed_cases': 1, 'cases': 2, 'pairs': 3, 'pairs_clash': 4,
    'pairs_new_information': 5, 'pairs_open_vs_closed': 6, 'pairs_depth3': 7,
    'clash_ground_vs_ground': 11, 'clash_vague_atom_vs_atom': 12,
    'clash_singular_vs_list': 13, 'clash_scalar_vs_list': 14,
    'clash_atom_vs_record': 15, 'clash_list_vs_record': 16,
    'clash_closed_fields_differ': 17, 'clash_closed_missing_field': 18,
    'clash_nested_ground_vs_ground': 21, 'clash_nested_vague_atom': 22,
    'clash_nested_singular_vs_list': 23, 'clash_nested_scalar_vs_list': 24,
    'clash_nested_atom_vs_record': 25, 'clash_nested_list_vs_record': 26,
    'clash_nested_closed_fields_differ': 27,
    'clash_nested_closed_missing_field': 28,
    'triples': 30, 'triple_runs': 31, 'triples_clash_free': 32,
    'triples_clash_free_new_information': 33,
    'triples_clash_not_shown_after_later_call': 34,
    'triples_three_way_only_clash': 35,
    'elem': 40, 'elem_clash': 41, 'field': 42, 'field_clash': 43,
    'shared': 50, 'shared_clash': 51, 'shared_clash_only_by_sharing': 52,
    'shared_refined_by_sharing': 53,
}
# Constructs the property's quantifier / statement names: never exercised =>
# machinery failure (exit 2), not a pass.
REQUIRED = [
    'pairs', 'pairs_clash', 'pairs_new_information', 'pairs_open_vs_closed',
    'pairs_depth3', 'clash_ground_vs_ground', 'clash_vague_atom_vs_atom',
    'clash_singular_vs_list', 'clash_scalar_vs_list', 'clash_atom_vs_record',
    'clash_list_vs_record', 'clash_closed_fields_differ',
    'clash_closed_missing_field', 'clash_nested_ground_vs_ground',
    'clash_nested_closed_missing_field', 'triples', 'triples_clash_free',
    'triples_clash_free_new_information', 'triples_three_way_only_clash',
    'elem', 'elem_clash', 'field', 'field_clash', 'shared', 'shared_clash',
    'shared_clash_only_by_sharing', 'shared_refined_by_sharing',
]


# ----------------------------------------------------------------------------
# Terms (JSON form shared with the spec) <-> real objects
# ----------------------------------------------------------------------------
def Algebra():
  common.UseRepo()
  from type_inference.research import reference_algebra  # pylint: disable=g-import-not-at-top
  return reference_algebra


def Key(f):
  return int(f) if f.isdigit() else f


def Build(ra, t, style, varrefs=None):
  """Real TypeReference for term t.

  style ref:   a TypeReference at every node (what infer.py / Revive produce)
        close: as ref, closed records made by TypeReference.CloseRecord()
        raw:   only the root is a reference, inner nodes are plain values
        chain: as ref, every reference reached through one more reference
  """
  def Wrap(target):
    r = ra.TypeReference(target)
    if style == 'chain':
      r = ra.TypeReference(r)
    return r

  def Go(t, top):
    tag = t[0]
    if tag == 'var':
      return varrefs[t[1] - 1]
    if tag == 'atom':
      v = t[1]
    elif tag == 'list':
      v = [Go(t[1], False)]
    elif tag == 'rec':
      d = {Key(f): Go(x, False) for f, x in t[2]}
      if t[1] == 'closed' and style != 'close':
        v = ra.ClosedRecord(d)
      else:
        v = ra.OpenRecord(d)
    else:
      raise ValueError(t)
    if style == 'raw' and not top:
      return v
    r = Wrap(v)
    if tag == 'rec' and t[1] == 'closed' and style == 'close':
      r.CloseRecord()
    return r
  return Go(t, True)


def Enc(ra, v):
  """VeryConcreteType value -> JSON term."""
  if isinstance(v, ra.BadType):
    return ['bad', Enc(ra, v[0]), Enc(ra, v[1])]
  if isinstance(v, str):
    return ['atom', v]
  if isinstance(v, list):
    return ['list', Enc(ra, v[0])]
  if isinstance(v, dict):
    kind = 'closed' if isinstance(v, ra.ClosedRecord) else 'open'
    return ['rec', kind, [[str(k), Enc(ra, x)] for k, x in v.items()]]
  raise ValueError(type(v))


def Show(t):
  """Human rendering of a JSON term (samples / replays only)."""
  tag = t[0]
  if tag == 'atom':
    return t[1]
  if tag == 'var':
    return '$%d' % t[1]
  if tag == 'list':
    return '[%s]' % Show(t[1])
  if tag == 'rec':
    inner = ', '.join('%s: %s' % (f, Show(x)) for f, x in t[2])
    if t[1] == 'open':
      inner = inner + ', ...' if inner else '...'
    return '{%s}' % inner
  if tag == 'bad':
    return '(%s != %s)' % (Show(t[1]), Show(t[2]))
  if tag == 'bot':
    return 'CLASH'
  return json.dumps(t)


def Observe(ra, refs):
  return [Enc(ra, ra.VeryConcreteType(r)) for r in refs]


def _Guard(fn, n_steps, n_refs):
  """Runs fn() -> list of steps; an exception becomes a `crash` observation."""
  steps = []
  try:
    for s in fn():
      steps.append(s)
  except BaseException as e:  # pylint: disable=broad-except
    msg = '%s: %s' % (type(e).__name__, str(e)[:120])
    while len(steps) < n_steps:
      steps.append([['crash', msg]] * n_refs)
  return steps


def RunCase(ra, case):
  """Executes one case on the real code; returns its runs (JSON terms)."""
  k = case['k']
  style = case['style']
  terms = case['terms']
  runs = []
  if k in ('pair', 'shared'):
    for o in ((1, 2), (2, 1)):
      def Go(o=o):
        varrefs = [Build(ra, b, style) for b in case.get('bounds', [])]
        refs = [Build(ra, t, style, varrefs) for t in terms]
        for _ in range(2):
          ra.Unify(refs[o[0] - 1], refs[o[1] - 1])
          yield Observe(ra, refs)
      runs.append({'o': list(o), 'obs': _Guard(Go, 2, 2)})
  elif k == 'triple':
    for p in itertools.permutations((1, 2, 3)):
      for via in (1, 2):
        def Go(p=p, via=via):
          refs = [Build(ra, t, style) for t in terms]
          for _ in range(2):
            ra.Unify(refs[p[0] - 1], refs[p[1] - 1])
            yield Observe(ra, refs)
            ra.Unify(refs[p[via - 1] - 1], refs[p[2] - 1])
            yield Observe(ra, refs)
        runs.append({'o': list(p) + [via], 'obs': _Guard(Go, 4, 3)})
  elif k == 'elem':
    def Go():
      refs = [Build(ra, t, style) for t in terms]
      for _ in range(2):
        ra.UnifyListElement(refs[0], refs[1])
        yield Observe(ra, refs)
    runs.append({'o': [1, 2], 'obs': _Guard(Go, 2, 2)})
  elif k == 'field':
    def Go():
      refs = [Build(ra, t, style) for t in terms]
      for _ in range(2):
        ra.UnifyRecordField(refs[0], Key(case['f']), refs[1])
        yield Observe(ra, refs)
    runs.append({'o': [1, 2], 'obs': _Guard(Go, 2, 2)})
  else:
    raise ValueError(k)
  return runs


# ----------------------------------------------------------------------------
# Shards: run the real code, write ndjson, let TLC judge
# ----------------------------------------------------------------------------
class Table:
  def __init__(self):
    self.idx = {}
    self.terms = []

  def Add(self, t):
    key = json.dumps(t, separators=(',', ':'))
    i = self.idx.get(key)
    if i is None:
      self.terms.append(t)
      i = self.idx[key] = len(self.terms)
    return i


def WriteShard(ra, cases, path):
  tab = Table()
  lines = []
  n_runs = 0
  for c in cases:
    runs = RunCase(ra, c)
    n_runs += len(runs)
    line = {'id': c['id'], 'k': c['k'], 't': [tab.Add(t) for t in c['terms']],
            'runs': [{'o': r['o'],
                      'obs': [[tab.Add(x) for x in step] for step in r['obs']]}
                     for r in runs]}
    if c['k'] == 'shared':
      line['bounds'] = [tab.Add(b) for b in c['bounds']]
      line['pd'] = c['pd']
    if c['k'] == 'field':
      line['f'] = c['f']
    lines.append(line)
  with open(path, 'w') as f:
    f.write(json.dumps({'terms': tab.terms}, separators=(',', ':')) + '\n')
    for l in lines:
      f.write(json.dumps(l, separators=(',', ':')) + '\n')
  return n_runs


def ParsePrinted(out, marker):
  """Values printed as PrintT(<<marker, ToJson(v)>>) (TLC may wrap the tuple
  over several lines)."""
  res = []
  for m in re.finditer(r'<<\s*"%s",\s*"((?:[^"\\]|\\.)*)"\s*>>' % marker, out):
    try:
      res.append(json.loads(json.loads('"' + m.group(1) + '"')))
    except ValueError:
      pass
  return res


def JudgeShard(path, tag):
  r = tlc.Run('TypeAlgebraTrace', workers=1, env={'TRACE_FILE': path},
              timeout=3000, tag=tag, heap='2g')
  summary = ParsePrinted(r.out, 'SUMMARY')
  fails = ParsePrinted(r.out, 'V')
  err = None
  if not summary:
    err = r.out[-3000:]
  return {'summary': summary[-1] if summary else None, 'fails': fails,
          'error': err, 'distinct': r.distinct, 'generated': r.generated,
          'wall': r.wall}


_JOBS = {}  # name -> list of cases or a generator function; set before forking


def _ShardWork(job):
  """job = (shard name, source name, lo, hi)."""
  name, source, lo, hi = job
  ra = Algebra()
  cases = _JOBS[source](lo, hi)
  d = common.BuildDir('trace', PROP)
  path = os.path.join(d, name + '.ndjson')
  n_runs = WriteShard(ra, cases, path)
  res = JudgeShard(path, PROP + '_' + name)
  res.update({'name': name, 'path': path, 'n_cases': len(cases),
              'n_runs': n_runs})
  if res['fails'] or res['error']:
    failing = {f['id'] for f in res['fails']}
    res['failing_cases'] = [c for c in cases if c['id'] in failing][:50]
  else:
    os.unlink(path)
  return res


# ----------------------------------------------------------------------------
# Case sources
# ----------------------------------------------------------------------------
def StyleOf(*nums):
  return STYLES[sum(nums) % len(STYLES)]


def PairSource(uname, terms, all_styles=False):
  n = len(terms)
  def Get(lo, hi):
    out = []
    for k in range(lo, hi):
      i, j = divmod(k, n)
      styles = STYLES if all_styles and (i + j) % 7 == 0 else (StyleOf(i, j),)
      for st in styles:
        out.append({'id': '%s/pair/%d/%d/%s' % (uname, i, j, st), 'k': 'pair',
                    'style': st, 'terms': [terms[i], terms[j]]})
    return out
  return Get, n * n


def TripleSource(uname, terms, pick=None):
  n = len(terms)
  def Get(lo, hi):
    out = []
    for q in range(lo, hi):
      k = pick[q] if pick is not None else q
      i, r = divmod(k, n * n)
      j, l = divmod(r, n)
      st = StyleOf(i, j, l)
      out.append({'id': '%s/triple/%d/%d/%d/%s' % (uname, i, j, l, st),
                  'k': 'triple', 'style': st,
                  'terms': [terms[i], terms[j], terms[l]]})
    return out
  return Get, (len(pick) if pick is not None else n ** 3)


def ElemSource(uname, lists, elems):
  n = len(elems)
  def Get(lo, hi):
    out = []
    for k in range(lo, hi):
      i, j = divmod(k, n)
      st = ('ref', 'close', 'chain')[(i + j) % 3]
      out.append({'id': '%s/elem/%d/%d/%s' % (uname, i, j, st), 'k': 'elem',
                  'style': st, 'terms': [lists[i], elems[j]]})
    return out
  return Get, len(lists) * n


def FieldSource(uname, recs, vals, fields):
  n = len(vals)
  nf = len(fields)
  def Get(lo, hi):
    out = []
    for k in range(lo, hi):
      i, r = divmod(k, n * nf)
      fi, j = divmod(r, n)
      st = ('ref', 'close', 'chain')[(i + j + fi) % 3]
      out.append({'id': '%s/field/%d/%s/%d/%s' % (uname, i, fields[fi], j, st),
                  'k': 'field', 'style': st, 'f': fields[fi],
                  'terms': [recs[i], vals[j]]})
    return out
  return Get, len(recs) * n * nf


def ListSource(cases):
  def Get(lo, hi):
    return cases[lo:hi]
  return Get, len(cases)


# ----------------------------------------------------------------------------
# Seeded random terms of the full language (depth <= 3, four fields, width <= 3)
# ----------------------------------------------------------------------------
ATOMS = ['Any', 'Singular', 'Sequential', 'Num', 'Str', 'Bool', 'Time']
FIELDS = ['0', '1', 'a', 'b']   # "c" is reserved by the spec (spare field)


def RandTerm(rng, depth, atoms=ATOMS, fields=FIELDS, var_p=0.0, nvars=0):
  if nvars and rng.random() < var_p:
    return ['var', rng.randint(1, nvars)]
  if depth == 0 or rng.random() < 0.25:
    return ['atom', rng.choice(atoms)]
  if rng.random() < 0.3:
    return ['list', RandTerm(rng, depth - 1, atoms, fields, var_p, nvars)]
  width = rng.choice([0, 1, 1, 2, 2, 3])
  fs = sorted(rng.sample(fields, min(width, len(fields))))
  return ['rec', rng.choice(['open', 'open', 'closed']),
          [[f, RandTerm(rng, depth - 1, atoms, fields, var_p, nvars)]
           for f in fs]]


def DepthOf(t):
  if t[0] == 'list':
    return 1 + DepthOf(t[1])
  if t[0] == 'rec':
    return 1 + max([DepthOf(x) for _, x in t[2]] + [0])
  return 0


def Mutate(rng, t, depth, fields=FIELDS):
  """A term related to t (so that pairs are often compatible but unequal)."""
  roll = rng.random()
  if roll < 0.12:
    return ['atom', rng.choice(['Any', 'Any', 'Singular', 'Sequential'])]
  if roll < 0.18:
    return RandTerm(rng, depth, fields=fields)
  tag = t[0]
  if tag == 'atom':
    if roll < 0.5:
      return ['atom', rng.choice(ATOMS)]
    return t
  if tag == 'list':
    return ['list', Mutate(rng, t[1], depth - 1, fields)]
  if tag == 'rec':
    fs = [[f, Mutate(rng, x, depth - 1, fields)] for f, x in t[2]]
    kind = t[1]
    r2 = rng.random()
    if r2 < 0.25 and fs:
      fs.pop(rng.randrange(len(fs)))
      kind = 'open' if rng.random() < 0.8 else kind
    elif r2 < 0.45 and len(fs) < 3 and depth > 0:
      free = [f for f in fields if f not in [g for g, _ in fs]]
      if free:
        fs.append([rng.choice(free), RandTerm(rng, depth - 1, fields=fields)])
        fs.sort()
    elif r2 < 0.6:
      kind = 'open' if kind == 'closed' else 'closed'
    return ['rec', kind, fs]
  return t


def RandomPairs(rng, n):
  seen = set()
  out = []
  while len(out) < n:
    a = RandTerm(rng, 3)
    if DepthOf(a) < 2 and rng.random() < 0.8:
      continue
    b = Mutate(rng, a, 3) if rng.random() < 0.8 else RandTerm(rng, 3)
    if DepthOf(b) > 3:
      continue
    key = json.dumps([a, b])
    if key in seen:
      continue
    seen.add(key)
    st = STYLES[len(out) % len(STYLES)]
    out.append({'id': 'random/pair/%d/%s' % (len(out), st), 'k': 'pair',
                'style': st, 'terms': [a, b]})
  return out


def RandomTriples(rng, n):
  seen = set()
  out = []
  while len(out) < n:
    a = RandTerm(rng, 3)
    if DepthOf(a) < 2 and rng.random() < 0.8:
      continue
    b = Mutate(rng, a, 3)
    c = Mutate(rng, rng.choice([a, b]), 3)
    if DepthOf(b) > 3 or DepthOf(c) > 3:
      continue
    key = json.dumps([a, b, c])
    if key in seen:
      continue
    seen.add(key)
    st = STYLES[len(out) % len(STYLES)]
    out.append({'id': 'random/triple/%d/%s' % (len(out), st), 'k': 'triple',
                'style': st, 'terms': [a, b, c]})
  return out


def HasVarTwice(terms):
  text = json.dumps(terms)
  return text.count('["var", 1]') >= 2


def SharedCases(rng, n):
  """Stores with shared references: every ["var", i] is one reference object.

  pd = 2: one shared reference, terms of depth <= 2 (pool of 211 ground types)
  pd = 1: two shared references, terms of depth <= 1 (pool of 13 ground types)
  """
  seen = set()
  out = []
  atoms = ['Any', 'Singular', 'Sequential', 'Num', 'Str']
  fields = ['0', 'a']
  while len(out) < n:
    pd = 2 if len(out) % 4 else 1
    nvars = 1 if pd == 2 else 2
    a = RandTerm(rng, pd, atoms, fields, 0.35, nvars)
    if rng.random() < 0.6:
      b = RandTerm(rng, pd, atoms, fields, 0.25, nvars)
    else:
      b = Mutate(rng, a, pd, fields)
      if 'Bool' in json.dumps(b) or 'Time' in json.dumps(b):
        continue
    if DepthOf(a) > pd or DepthOf(b) > pd or not HasVarTwice([a, b]):
      continue
    bounds = [['atom', rng.choice(['Any', 'Any', 'Singular', 'Sequential'])]
              for _ in range(nvars)]
    key = json.dumps([a, b, bounds])
    if key in seen:
      continue
    seen.add(key)
    st = ('ref', 'chain', 'close')[len(out) % 3]
    out.append({'id': 'shared/%d/%s' % (len(out), st), 'k': 'shared',
                'style': st, 'terms': [a, b], 'bounds': bounds, 'pd': pd})
  return out


# ----------------------------------------------------------------------------
# Lemma runs (model level) + export of the universes
# ----------------------------------------------------------------------------
LEMMA_CFGS = {
    'quick': ['wide', 'mid', 'deep'],
    'thorough': ['wide', 'mid', 'deep', 'wide3', 'deep2'],
}


def RunLemmas(tier):
  import concurrent.futures as cf
  names = LEMMA_CFGS[tier]

  def One(name):
    heavy = name in ('wide3', 'deep2')
    return tlc.Run('TypeAlgebraLemmas', cfg='TypeAlgebraLemmas_%s.cfg' % name,
                   workers=common.NCPU if heavy else 6, timeout=3000,
                   tag='C16_lemma_' + name, heap='6g' if heavy else '3g')
  with cf.ThreadPoolExecutor(max_workers=3) as ex:
    results = list(ex.map(One, names))
  out = {}
  for name, r in zip(names, results):
    m = re.search(r'<<"SIZES", (\d+), (\d+), (\d+)>>', r.out)
    out[name] = {
        'ok': r.ok, 'rc': r.rc, 'distinct': r.distinct,
        'generated': r.generated, 'wall_s': round(r.wall, 1),
        'violated': r.invariant_violated,
        'sizes': [int(x) for x in m.groups()] if m else None,
        'U': ParsePrinted(r.out, 'T'), 'U3': ParsePrinted(r.out, 'T3'),
        'tail': '' if r.ok else r.out[-2500:],
    }
  return out


# ----------------------------------------------------------------------------
# Classification of a failing case (for known_findings.json)
# ----------------------------------------------------------------------------
def Top(t):
  if t[0] == 'atom':
    return t[1]
  if t[0] == 'rec':
    return t[1] + '_record'
  return t[0]


def Signature(case, fail):
  clauses = sorted({f['clause'] for f in fail['fails']})
  sig = {'kind': case['k'], 'clauses': '+'.join(clauses),
         'clause': clauses[0], 'style': case['style'],
         'tops': '/'.join(sorted(Top(t) for t in case['terms']))}
  return sig


# ----------------------------------------------------------------------------
def Plan(tier, lem, rng):
  """Returns {source name: (getter, size, shard size)}."""
  plan = {}
  thorough = tier == 'thorough'
  for u in ('wide', 'mid', 'deep') + (('wide3',) if thorough else ()):
    U = lem[u]['U']
    U3 = lem[u]['U3']
    g, n = PairSource(u, U, all_styles=thorough and u != 'wide3')
    plan[u + '_pairs'] = (g, n, 6000)
    pick = None
    if not thorough and len(U3) ** 3 > 30000:
      pick = sorted(rng.sample(range(len(U3) ** 3), 20000))
    g, n = TripleSource(u, U3, pick)
    plan[u + '_triples'] = (g, n, 1200)
  W = lem['wide']['U']
  W3 = lem['wide']['U3']
  g, n = ElemSource('wide', W, W)
  plan['elem'] = (g, n, 6000)
  g, n = FieldSource('wide', W, W3, ['0', 'a', 'b'])
  plan['field'] = (g, n, 6000)
  g, n = ListSource(RandomPairs(rng, 100000 if thorough else 12000))
  plan['random_pairs'] = (g, n, 5000)
  g, n = ListSource(RandomTriples(rng, 20000 if thorough else 2500))
  plan['random_triples'] = (g, n, 800)
  g, n = ListSource(SharedCases(rng, 20000 if thorough else 3000))
  plan['shared'] = (g, n, 700)
  return plan


def Execute(plan):
  jobs = []
  for source, (getter, size, per) in plan.items():
    _JOBS[source] = getter
    for s, lo in enumerate(range(0, size, per)):
      jobs.append(('%s_%03d' % (source, s), source, lo, min(size, lo + per)))
  # Big shards first so that the tail is short.
  jobs.sort(key=lambda j: -(j[3] - j[2]) * (12 if 'triple' in j[1] else 1))
  d = common.BuildDir('trace', PROP)
  for f in os.listdir(d):
    os.unlink(os.path.join(d, f))
  return common.ParallelMap(_ShardWork, jobs, chunksize=1)


def Run(tier):
  clock = common.Clock()
  rng = common.Rng('c16')
  cls = findings.Classifier(PROP)
  machinery = []

  lem = RunLemmas(tier)
  lemma_states = sum(v['distinct'] for v in lem.values())
  lemma_trans = sum(v['generated'] for v in lem.values())
  lemma_failed = [k for k, v in lem.items() if not v['ok']]
  for k in lemma_failed:
    print('C16: model-level lemma run %s failed: violated=%s\n%s' % (
        k, lem[k]['violated'], lem[k]['tail']))
  for k, v in lem.items():
    if v['ok'] and k != 'deep2' and not (v['U'] and v['U3']):
      machinery.append('lemma run %s exported no universe' % k)
  if lemma_failed:
    # The specification contradicts itself: nothing can be judged with it.
    machinery.append('lemma failed: %s' % lemma_failed)

  results = []
  if not machinery:
    plan = Plan(tier, lem, rng)
    results = Execute(plan)

  regs = {k: 0 for k in REG}
  per_source = {}
  per_style = {s: 0 for s in STYLES}
  n_cases = n_runs = 0
  trace_states = trace_trans = 0
  violations = 0
  printed = 0
  seen_sigs = {}
  samples = []
  for r in results:
    src = r['name'].rsplit('_', 1)[0]
    ps = per_source.setdefault(src, {'cases': 0, 'runs': 0, 'failed': 0})
    if r['error'] or r['summary'] is None:
      machinery.append('TLC failed on shard %s: %s' % (r['name'],
                                                       (r['error'] or '')[-800:]))
      continue
    s = r['summary']
    for k, i in REG.items():
      regs[k] += s[i - 1]
    if s[REG['cases'] - 1] != r['n_cases']:
      machinery.append('shard %s: TLC judged %d of %d cases' % (
          r['name'], s[REG['cases'] - 1], r['n_cases']))
    n_cases += r['n_cases']
    n_runs += r['n_runs']
    ps['cases'] += r['n_cases']
    ps['runs'] += r['n_runs']
    ps['failed'] += len(r['fails'])
    trace_states += r['distinct']
    trace_trans += r['generated']
    by_id = {c['id']: c for c in r.get('failing_cases', [])}
    for f in r['fails']:
      case = by_id.get(f['id'])
      if case is None:
        violations += 1
        continue
      sig = Signature(case, f)
      if cls.Match(sig):
        continue
      violations += 1
      key = (sig['kind'], sig['clauses'], sig['tops'])
      seen_sigs[key] = seen_sigs.get(key, 0) + 1
      if seen_sigs[key] > 1 or printed >= 25:
        continue
      printed += 1
      path = common.WriteReplay(PROP, 'v_' + common.Sha(case), {
          'case': case, 'shown': [Show(t) for t in case['terms']],
          'signature': sig, 'fails': f['fails'][:4]})
      common.Violation(PROP, path)
      print('  %s %s: %s  [%s]' % (case['k'], ' ~ '.join(
          Show(t) for t in case['terms']), sig['clauses'], case['style']))
  if violations > printed:
    print('C16: %d failing cases in total (%d distinct signatures; one replay '
          'per signature, at most 25 printed)' % (violations, len(seen_sigs)))
  cls.Report()

  # Per-style coverage and samples: cheap, from the plan itself.
  if results:
    for source, (getter, size, _) in plan.items():
      step = max(1, size // 400)
      for c in getter(0, size)[::step] if size <= 200000 else getter(0, 4000):
        per_style[c['style']] += 1
      if size:
        c = getter(size // 2, size // 2 + 1)[0]
        ra = Algebra()
        runs = RunCase(ra, c)
        samples.append({
            'id': c['id'], 'kind': c['k'],
            'terms': [Show(t) for t in c['terms']],
            'bounds': [Show(t) for t in c.get('bounds', [])],
            'order': runs[0]['o'],
            'rendered_after_each_call': [[Show(x) for x in step_]
                                         for step_ in runs[0]['obs']]})

  if results and not machinery:
    for k in REQUIRED:
      if regs[k] == 0:
        machinery.append('construct never exercised: %s' % k)
    for s, n in per_style.items():
      if n == 0:
        machinery.append('construction style never used: %s' % s)
    if regs['cases'] != n_cases:
      machinery.append('TLC judged %d cases, harness ran %d' % (regs['cases'],
                                                               n_cases))

  nontrivial = (regs['pairs_clash'] + regs['pairs_new_information'] +
                regs['triples_clash_free_new_information'] +
                regs['triples_three_way_only_clash'] +
                regs['elem'] + regs['field'] +
                regs['shared_clash_only_by_sharing'] +
                regs['shared_refined_by_sharing'])
  coverage = {
      'states': lemma_states + trace_states,
      'transitions': lemma_trans + trace_trans,
      'traces_validated_against_impl': regs['cases'],
      'evaluations': n_runs,
      'distinct_nontrivial': nontrivial,
      'rule': (
          'Cases: every ordered pair of every universe TLC exported from '
          'TypeAlgebraLemmas (wide/mid/deep%s), every triple (or a seeded '
          'sample) of its triple universe in all 6 orders x 2 linkings, every '
          '(list, element) and (record, field, value) of the wide universe '
          'through UnifyListElement / UnifyRecordField, seeded random terms of '
          'depth <= 3 over fields 0,1,a,b (deduplicated), and seeded stores '
          'with shared references; construction styles ref/close/raw/chain '
          'rotate.  evaluations = call sequences executed on the real code; '
          'traces_validated = cases TLC judged.  A case is distinct by '
          'construction (enumeration without repetition / dedup) and counted '
          'non-trivial, by TLC, when the meet is a clash or differs from every '
          'input (pairs, triples), for every derived-constraint case, and for '
          'shared stores when sharing changed the outcome.  Lists of lists are '
          'terms (the algebra itself does not forbid them; UnifyListElement '
          'adds Singular).' % (', wide3' if tier == 'thorough' else '')),
      'samples': samples[:12],
      'exhaustive': True,
      'lemma_runs': {k: {kk: v[kk] for kk in ('ok', 'distinct', 'generated',
                                               'wall_s', 'sizes', 'violated')}
                     for k, v in lem.items()},
      'trace_spec_states': trace_states,
      'per_source': per_source,
      'per_construct': regs,
      'per_style_sampled': per_style,
      'known_findings_reproduced': {k: len(v) for k, v in cls.hit.items()},
      'machinery_problems': machinery[:10],
  }
  evidence.Write(PROP, tier, 'model_checking', coverage, clock(),
                 violations=violations, assumptions=[
                     'TLC evaluates TypeAlgebra.tla faithfully; the lemmas '
                     '(Meet = intersection of Inst, faithful canonical form) '
                     'are checked over the bounded universes of the cfg files '
                     'and extended to depth-3 / four-field terms by the '
                     'per-case Member-level witness clause only',
                     'the rendering VeryConcreteType is the observable the '
                     'property names; sharing between the two results is not '
                     'visible in it',
                     'the store semantics for shared references is decided by '
                     'brute force over a ground pool that is complete for the '
                     'generated shapes (depth <= 2 / one reference, depth <= 1 '
                     '/ two references)'])
  print('C16 %s: %d cases (%d call sequences) judged by TLC, %d failing, '
        'lemma states %d, %.1fs' % (tier, regs['cases'], n_runs, violations,
                                    lemma_states, clock()))
  if machinery:
    for m in machinery[:10]:
      print('MACHINERY-FAILURE property=C16 %s' % m)
  if violations:
    return 1
  if machinery:
    return 2
  return 0


def Replay(path):
  with open(path) as f:
    payload = json.load(f)
  case = payload['case']
  ra = Algebra()
  d = common.BuildDir('trace', PROP)
  shard = os.path.join(d, 'replay_%s.ndjson' % common.Sha(case))
  WriteShard(ra, [case], shard)
  res = JudgeShard(shard, PROP + '_replay')
  print('case %s [%s] %s' % (case['id'], case['style'],
                             ' ~ '.join(Show(t) for t in case['terms'])))
  for r in RunCase(ra, case):
    print('  order %s -> %s' % (r['o'], ' | '.join(
        ', '.join(Show(x) for x in step) for step in r['obs'])))
  if res['error']:
    print('MACHINERY-FAILURE property=C16 %s' % res['error'][-1500:])
    return 2
  if not res['fails']:
    print('C16 replay: TLC accepts the case')
    return 0
  cls = findings.Classifier(PROP)
  for f in res['fails']:
    for x in f['fails']:
      print('  clause %s: spec %s, code %s' % (x['clause'], json.dumps(x['exp']),
                                              json.dumps(x['got'])))
    if cls.Match(Signature(case, f)):
      cls.Report()
      return 0
  common.Violation(PROP, path)
  return 1
