"""C16 - type unification is a symmetric idempotent meet; clash iff no common type.

Specification: spec/TypeAlgebra.tla (term language, Member/Inst = the meaning,
structural Meet, Canon), spec/TypeAlgebraLemmas.tla (TLC proves Meet against
Inst over whole bounded universes and exports the universes), and
spec/TypeAlgebraTrace.tla (TLC judges recorded results of the real code).

Binding: the terms TLC exported (plus seeded random depth-3 terms and stores
with shared references) are built as real reference_algebra.TypeReference
objects of $LOGICA_REPO, the real Unify / UnifyListElement / UnifyRecordField /
CloseRecord are called in every order, VeryConcreteType of every reference is
recorded after every call, and TLC decides every case.  Python computes no
verdict: it builds objects, records renderings and reports what TLC printed.
"""
import itertools
import json
import os
import re
import sys
import time

from harness import common
from harness import evidence
from harness import findings
from harness import tlc

PROP = 'C16'
# One single-worker TLC per shard, many shards at a time: keep each JVM small.
JVM_SMALL = '-XX:ParallelGCThreads=2 -XX:CICompilerCount=2 -Xss16m'
STYLES = ('ref', 'close', 'raw', 'chain')

# Register numbers of spec/TypeAlgebraTrace.tla (1-based positions of SUMMARY).
REG = {
    'failed_cases': 1, 'cases': 2, 'pairs': 3, 'pairs_clash': 4,
    'pairs_new_information': 5, 'pairs_open_vs_closed': 6, 'pairs_depth3': 7,
    'clash_ground_vs_ground': 11, 'clash_vague_atom_vs_atom': 12,
    'clash_singular_vs_list': 13, 'clash_scalar_vs_list': 14,
    'clash_atom_vs_record': 15, 'clash_list_vs_record': 16,
    'clash_closed_fields_differ': 17, 'clash_closed_missing_field': 18,
    'clash_nested_ground_vs_ground': 21, 'clash_nested_vague_atom': 22,
    'clash_nested_singular_vs_list': 23, 'clash_nested_scalar_vs_list': 24,
    'clash_nested_atom_vs_record': 25, 'clash_nested_list_vs_record': 26,
    'clash_nested_closed_fields_differ': 27,
    'clash_nested_closed_missing_field': 28,
    'triples': 30, 'triple_runs': 31, 'triples_clash_free': 32,
    'triples_clash_free_new_information': 33,
    'triples_clash_not_shown_after_later_call': 34,
    'triples_three_way_only_clash': 35,
    'elem': 40, 'elem_clash': 41, 'field': 42, 'field_clash': 43,
    'derived_clash_not_shown_after_repeat': 44, 'elem_new_information': 45,
    'field_new_information': 46,
    'shared': 50, 'shared_clash': 51, 'shared_clash_only_by_sharing': 52,
    'shared_refined_by_sharing': 53,
    'seq': 55, 'seq_close_on_alias': 56, 'seq_close_in_class_of_three': 57,
    'seq_clash_against_closed_record': 58, 'seq_clash_free': 59,
    'seq_three_references': 60,
    'seq_abstract_met_ground_then_clash_plain': 61,
    'seq_abstract_met_ground_then_clash_as_field': 62,
    'seq_abstract_met_ground_then_clash_as_element': 63,
    'seq_abstract_met_ground_then_clash_through_containers': 64,
}
# Constructs the property's quantifier / statement names: never exercised =>
# machinery failure (exit 2), not a pass.
REQUIRED = [
    'pairs', 'pairs_clash', 'pairs_new_information', 'pairs_open_vs_closed',
    'pairs_depth3', 'clash_ground_vs_ground', 'clash_vague_atom_vs_atom',
    'clash_singular_vs_list', 'clash_scalar_vs_list', 'clash_atom_vs_record',
    'clash_list_vs_record', 'clash_closed_fields_differ',
    'clash_closed_missing_field', 'clash_nested_ground_vs_ground',
    'clash_nested_closed_missing_field', 'triples', 'triples_clash_free',
    'triples_clash_free_new_information',
    'elem', 'elem_clash', 'elem_new_information', 'field', 'field_clash',
    'field_new_information', 'shared', 'shared_clash',
    'shared_clash_only_by_sharing', 'shared_refined_by_sharing',
    'seq', 'seq_close_on_alias', 'seq_close_in_class_of_three',
    'seq_clash_against_closed_record', 'seq_clash_free', 'seq_three_references',
    'seq_abstract_met_ground_then_clash_plain',
    'seq_abstract_met_ground_then_clash_as_field',
    'seq_abstract_met_ground_then_clash_as_element',
    'seq_abstract_met_ground_then_clash_through_containers',
]


# ----------------------------------------------------------------------------
# Terms (JSON form shared with the spec) <-> real objects
# ----------------------------------------------------------------------------
def Algebra():
  common.UseRepo()
  from type_inference.research import reference_algebra  # pylint: disable=g-import-not-at-top
  return reference_algebra


def Key(f):
  return int(f) if f.isdigit() else f


def Build(ra, t, style, varrefs=None):
  """Real TypeReference for term t.

  style ref:   a TypeReference at every node (what infer.py / Revive produce)
        close: as ref, closed records made by TypeReference.CloseRecord()
        raw:   only the root is a reference, inner nodes are plain values
        chain: as ref, every reference reached through one more reference
  """
  def Wrap(target):
    r = ra.TypeReference(target)
    if style == 'chain':
      r = ra.TypeReference(r)
    return r

  def Go(t, top):
    tag = t[0]
    if tag == 'var':
      return varrefs[t[1] - 1]
    if tag == 'atom':
      v = t[1]
    elif tag == 'list':
      v = [Go(t[1], False)]
    elif tag == 'rec':
      d = {Key(f): Go(x, False) for f, x in t[2]}
      if t[1] == 'closed' and style != 'close':
        v = ra.ClosedRecord(d)
      else:
        v = ra.OpenRecord(d)
    else:
      raise ValueError(t)
    if style == 'raw' and not top:
      return v
    r = Wrap(v)
    if tag == 'rec' and t[1] == 'closed' and style == 'close':
      r.CloseRecord()
    return r
  return Go(t, True)


def Enc(ra, v):
  """VeryConcreteType value -> JSON term."""
  if isinstance(v, ra.BadType):
    return ['bad', Enc(ra, v[0]), Enc(ra, v[1])]
  if isinstance(v, str):
    return ['atom', v]
  if isinstance(v, list):
    return ['list', Enc(ra, v[0])]
  if isinstance(v, dict):
    kind = 'closed' if isinstance(v, ra.ClosedRecord) else 'open'
    return ['rec', kind, [[str(k), Enc(ra, x)] for k, x in v.items()]]
  raise ValueError(type(v))


def Show(t):
  """Human rendering of a JSON term (samples / replays only)."""
  tag = t[0]
  if tag == 'atom':
    return t[1]
  if tag == 'var':
    return '$%d' % t[1]
  if tag == 'list':
    return '[%s]' % Show(t[1])
  if tag == 'rec':
    inner = ', '.join('%s: %s' % (f, Show(x)) for f, x in t[2])
    if t[1] == 'open':
      inner = inner + ', ...' if inner else '...'
    return '{%s}' % inner
  if tag == 'bad':
    return '(%s != %s)' % (Show(t[1]), Show(t[2]))
  if tag == 'bot':
    return 'CLASH'
  return json.dumps(t)


def Observe(ra, refs):
  return [Enc(ra, ra.VeryConcreteType(r)) for r in refs]


def _Guard(fn, n_steps, n_refs):
  """Runs fn() -> list of steps; an exception becomes a `crash` observation."""
  steps = []
  try:
    for s in fn():
      steps.append(s)
  except BaseException as e:  # pylint: disable=broad-except
    msg = '%s: %s' % (type(e).__name__, str(e)[:120])
    while len(steps) < n_steps:
      steps.append([['crash', msg]] * n_refs)
  return steps


def RunCase(ra, case):
  """Executes one case on the real code; returns its runs (JSON terms)."""
  k = case['k']
  style = case['style']
  terms = case['terms']
  runs = []
  if k in ('pair', 'shared'):
    for o in ((1, 2), (2, 1)):
      def Go(o=o):
        varrefs = [Build(ra, b, style) for b in case.get('bounds', [])]
        refs = [Build(ra, t, style, varrefs) for t in terms]
        for _ in range(2):
          ra.Unify(refs[o[0] - 1], refs[o[1] - 1])
          yield Observe(ra, refs)
      runs.append({'o': list(o), 'obs': _Guard(Go, 2, 2)})
  elif k == 'triple':
    for n, p in enumerate(itertools.permutations((1, 2, 3))):
      # Second call links the third term to the first or to the second of the
      # already unified pair: both linkings (thorough) or alternating.
      vias = (1, 2) if case.get('both_vias') else (1 + (n + case['alt']) % 2,)
      for via in vias:
        def Go(p=p, via=via):
          refs = [Build(ra, t, style) for t in terms]
          for _ in range(2):
            ra.Unify(refs[p[0] - 1], refs[p[1] - 1])
            yield Observe(ra, refs)
            ra.Unify(refs[p[via - 1] - 1], refs[p[2] - 1])
            yield Observe(ra, refs)
        runs.append({'o': list(p) + [via], 'obs': _Guard(Go, 4, 3)})
  elif k == 'elem':
    def Go():
      refs = [Build(ra, t, style) for t in terms]
      for _ in range(2):
        ra.UnifyListElement(refs[0], refs[1])
        yield Observe(ra, refs)
    runs.append({'o': [1, 2], 'obs': _Guard(Go, 2, 2)})
  elif k == 'field':
    def Go():
      refs = [Build(ra, t, style) for t in terms]
      for _ in range(2):
        ra.UnifyRecordField(refs[0], Key(case['f']), refs[1])
        yield Observe(ra, refs)
    runs.append({'o': [1, 2], 'obs': _Guard(Go, 2, 2)})
  elif k == 'seq':
    ops = case['ops']
    shape = case.get('shape', 'plain')
    def Go():
      refs = [Build(ra, t, style) for t in terms]
      boxes = []
      if shape == 'field':   # the containers hold the very reference objects
        boxes = [ra.TypeReference(ra.OpenRecord({'a': r})) for r in refs]
      elif shape == 'elem':
        boxes = [ra.TypeReference([r]) for r in refs]
      for op in ops:
        if op[0] == 'unify':
          ra.Unify(refs[op[1] - 1], refs[op[2] - 1])
        elif op[0] == 'unifyc':
          ra.Unify(boxes[op[1] - 1], boxes[op[2] - 1])
        elif op[0] == 'close':
          refs[op[1] - 1].CloseRecord()
        elif op[0] == 'field':
          ra.UnifyRecordField(refs[op[1] - 1], Key(op[2]),
                              Build(ra, op[3], style))
        else:
          raise ValueError(op)
        yield Observe(ra, refs + boxes)
    n_obs = len(terms) * (1 if shape == 'plain' else 2)
    runs.append({'o': [1], 'obs': _Guard(Go, len(ops), n_obs)})
  else:
    raise ValueError(k)
  return runs


# ----------------------------------------------------------------------------
# Shards: run the real code, write ndjson, let TLC judge
# ----------------------------------------------------------------------------
class Table:
  def __init__(self):
    self.idx = {}
    self.terms = []

  def Add(self, t):
    key = json.dumps(t, separators=(',', ':'))
    i = self.idx.get(key)
    if i is None:
      self.terms.append(t)
      i = self.idx[key] = len(self.terms)
    return i


def WriteShard(ra, cases, path, per_source=None):
  tab = Table()
  lines = []
  n_runs = 0
  for c in cases:
    runs = RunCase(ra, c)
    n_runs += len(runs)
    if per_source is not None:
      per_source[c['src']][1] += len(runs)
    line = {'id': c['id'], 'k': c['k'], 't': [tab.Add(t) for t in c['terms']],
            'runs': [{'o': r['o'],
                      'obs': [[tab.Add(x) for x in step] for step in r['obs']]}
                     for r in runs]}
    if c['k'] == 'shared':
      line['bounds'] = [tab.Add(b) for b in c['bounds']]
      line['pd'] = c['pd']
    if c['k'] == 'field':
      line['f'] = c['f']
    if c['k'] == 'seq':
      line['ops'] = c['ops']
      line['shape'] = c.get('shape', 'plain')
    if c['k'] == 'pair':
      line['x'] = 0 if c.get('in_lemma_universe') else 1
    lines.append(line)
  with open(path, 'w') as f:
    f.write(json.dumps({'terms': tab.terms}, separators=(',', ':')) + '\n')
    for l in lines:
      f.write(json.dumps(l, separators=(',', ':')) + '\n')
  return n_runs


def ParsePrinted(out, marker):
  """Values printed as PrintT(<<marker, ToJson(v)>>) (TLC may wrap the tuple
  over several lines)."""
  res = []
  for m in re.finditer(r'<<\s*"%s",\s*"((?:[^"\\]|\\.)*)"\s*>>' % marker, out):
    try:
      res.append(json.loads(json.loads('"' + m.group(1) + '"')))
    except ValueError:
      pass
  return res


def JudgeShard(path, tag):
  r = tlc.Run('TypeAlgebraTrace', workers=1,
              env={'TRACE_FILE': path, 'JAVA_TOOL_OPTIONS': JVM_SMALL},
              timeout=3000, tag=tag, heap='2g')
  summary = ParsePrinted(r.out, 'SUMMARY')
  fails = ParsePrinted(r.out, 'V')
  err = None
  if not summary:
    err = r.out[-3000:]
  return {'summary': summary[-1] if summary else None, 'fails': fails,
          'error': err, 'distinct': r.distinct, 'generated': r.generated,
          'wall': r.wall}


_JOBS = {}  # source name -> getter(lo, hi); set before forking
_RUN_ID = 'run%d' % os.getpid()  # inherited by the forked workers


def _TraceDir():
  """Per-run scratch directory (concurrent runs must not share shard files)."""
  return common.BuildDir('trace', PROP, _RUN_ID)


def _ShardWork(job):
  """job = (shard name, [(source name, lo, hi), ...]): a slice of every source,
  so that one TLC start-up is shared by all kinds of cases."""
  name, parts = job
  ra = Algebra()
  cases = []
  per_source = {}
  for source, lo, hi in parts:
    got = _JOBS[source](lo, hi)
    per_source[source] = [len(got), 0]
    cases.extend(got)
  path = os.path.join(_TraceDir(), name + '.ndjson')
  WriteShard(ra, cases, path, per_source)
  res = JudgeShard(path, PROP + '_' + name)
  styles = {}
  for c in cases:
    styles[c['style']] = styles.get(c['style'], 0) + 1
  res.update({'name': name, 'path': path, 'n_cases': len(cases),
              'per_source': per_source, 'styles': styles})
  if res['fails']:
    failing = {f['id'] for f in res['fails']}
    res['failing_cases'] = [c for c in cases if c['id'] in failing][:200]
  if not res['error']:
    os.unlink(path)    # failing cases live on as self-contained replay files
  return res


# ----------------------------------------------------------------------------
# Case sources
# ----------------------------------------------------------------------------
def StyleOf(*nums):
  return STYLES[sum(nums) % len(STYLES)]


def PairSource(uname, terms, all_styles=False, ordered=True):
  """All pairs of a universe.  Every case runs both argument orders, so the
  quick tier enumerates unordered pairs (i <= j); thorough all ordered ones
  (the two differ in construction style and in which index is `first`)."""
  n = len(terms)
  index = [(i, j) for i in range(n) for j in range(n) if ordered or i <= j]
  def Get(lo, hi):
    out = []
    for i, j in index[lo:hi]:
      styles = STYLES if all_styles and (i + j) % 7 == 0 else (StyleOf(i, j),)
      for st in styles:
        out.append({'id': '%s/pair/%d/%d/%s' % (uname, i, j, st), 'k': 'pair',
                    'style': st, 'in_lemma_universe': True,
                    'terms': [terms[i], terms[j]]})
    return out
  return Get, len(index)


def Sampled(source, cap, rng):
  """Seeded sample (without repetition) of an enumerated source."""
  getter, size = source
  if size <= cap:
    return getter, size, True
  pick = sorted(rng.sample(range(size), cap))
  def Get(lo, hi):
    out = []
    for k in pick[lo:hi]:
      out.extend(getter(k, k + 1))
    return out
  return Get, cap, False


def TripleSource(uname, terms, pick=None, both_vias=False):
  n = len(terms)
  def Get(lo, hi):
    out = []
    for q in range(lo, hi):
      k = pick[q] if pick is not None else q
      i, r = divmod(k, n * n)
      j, l = divmod(r, n)
      st = StyleOf(i, j, l)
      out.append({'id': '%s/triple/%d/%d/%d/%s' % (uname, i, j, l, st),
                  'k': 'triple', 'style': st, 'alt': (i + j + l) % 2,
                  'both_vias': both_vias,
                  'terms': [terms[i], terms[j], terms[l]]})
    return out
  return Get, (len(pick) if pick is not None else n ** 3)


def ElemSource(uname, lists, elems):
  n = len(elems)
  def Get(lo, hi):
    out = []
    for k in range(lo, hi):
      i, j = divmod(k, n)
      st = ('ref', 'close', 'chain')[(i + j) % 3]
      out.append({'id': '%s/elem/%d/%d/%s' % (uname, i, j, st), 'k': 'elem',
                  'style': st, 'terms': [lists[i], elems[j]]})
    return out
  return Get, len(lists) * n


def FieldSource(uname, recs, vals, fields):
  n = len(vals)
  nf = len(fields)
  def Get(lo, hi):
    out = []
    for k in range(lo, hi):
      i, r = divmod(k, n * nf)
      fi, j = divmod(r, n)
      st = ('ref', 'close', 'chain')[(i + j + fi) % 3]
      out.append({'id': '%s/field/%d/%s/%d/%s' % (uname, i, fields[fi], j, st),
                  'k': 'field', 'style': st, 'f': fields[fi],
                  'terms': [recs[i], vals[j]]})
    return out
  return Get, len(recs) * n * nf


def ShowOp(op):
  if op[0] == 'unify':
    return 'Unify(r%d, r%d)' % (op[1], op[2])
  if op[0] == 'unifyc':
    return 'Unify(box%d, box%d)' % (op[1], op[2])
  if op[0] == 'close':
    return 'r%d.CloseRecord()' % op[1]
  return 'UnifyRecordField(r%d, %s, %s)' % (op[1], op[2], Show(op[3]))


def SeqSource(name, seqs):
  """Operation sequences TLC exported from TypeAlgebraStore."""
  def Get(lo, hi):
    out = []
    for k in range(lo, hi):
      st = ('ref', 'chain')[k % 2]
      out.append({'id': '%s/seq/%d/%s' % (name, k, st), 'k': 'seq', 'style': st,
                  'terms': seqs[k]['init'], 'ops': seqs[k]['ops'],
                  'shape': seqs[k].get('shape', 'plain')})
    return out
  return Get, len(seqs)


def ListSource(cases):
  def Get(lo, hi):
    return cases[lo:hi]
  return Get, len(cases)


# ----------------------------------------------------------------------------
# Seeded random terms of the full language (depth <= 3, four fields, width <= 3)
# ----------------------------------------------------------------------------
ATOMS = ['Any', 'Singular', 'Sequential', 'Num', 'Str', 'Bool', 'Time']
FIELDS = ['0', '1', 'a', 'b']   # "c" is reserved by the spec (spare field)


def RandTerm(rng, depth, atoms=ATOMS, fields=FIELDS, var_p=0.0, nvars=0):
  if nvars and rng.random() < var_p:
    return ['var', rng.randint(1, nvars)]
  if depth == 0 or rng.random() < 0.25:
    return ['atom', rng.choice(atoms)]
  if rng.random() < 0.3:
    return ['list', RandTerm(rng, depth - 1, atoms, fields, var_p, nvars)]
  width = rng.choice([0, 1, 1, 2, 2, 3])
  fs = sorted(rng.sample(fields, min(width, len(fields))))
  return ['rec', rng.choice(['open', 'open', 'closed']),
          [[f, RandTerm(rng, depth - 1, atoms, fields, var_p, nvars)]
           for f in fs]]


def DepthOf(t):
  if t[0] == 'list':
    return 1 + DepthOf(t[1])
  if t[0] == 'rec':
    return 1 + max([DepthOf(x) for _, x in t[2]] + [0])
  return 0


def Mutate(rng, t, depth, fields=FIELDS):
  """A term related to t (so that pairs are often compatible but unequal)."""
  roll = rng.random()
  if roll < 0.12:
    return ['atom', rng.choice(['Any', 'Any', 'Singular', 'Sequential'])]
  if roll < 0.18:
    return RandTerm(rng, depth, fields=fields)
  tag = t[0]
  if tag == 'atom':
    if roll < 0.5:
      return ['atom', rng.choice(ATOMS)]
    return t
  if tag == 'list':
    return ['list', Mutate(rng, t[1], depth - 1, fields)]
  if tag == 'rec':
    fs = [[f, Mutate(rng, x, depth - 1, fields)] for f, x in t[2]]
    kind = t[1]
    r2 = rng.random()
    if r2 < 0.25 and fs:
      fs.pop(rng.randrange(len(fs)))
      kind = 'open' if rng.random() < 0.8 else kind
    elif r2 < 0.45 and len(fs) < 3 and depth > 0:
      free = [f for f in fields if f not in [g for g, _ in fs]]
      if free:
        fs.append([rng.choice(free), RandTerm(rng, depth - 1, fields=fields)])
        fs.sort()
    elif r2 < 0.6:
      kind = 'open' if kind == 'closed' else 'closed'
    return ['rec', kind, fs]
  return t


def RandomPairs(rng, n):
  seen = set()
  out = []
  while len(out) < n:
    a = RandTerm(rng, 3)
    if DepthOf(a) < 2 and rng.random() < 0.8:
      continue
    b = Mutate(rng, a, 3) if rng.random() < 0.8 else RandTerm(rng, 3)
    if DepthOf(b) > 3:
      continue
    key = json.dumps([a, b])
    if key in seen:
      continue
    seen.add(key)
    st = STYLES[len(out) % len(STYLES)]
    out.append({'id': 'random/pair/%d/%s' % (len(out), st), 'k': 'pair',
                'style': st, 'terms': [a, b]})
  return out


def RandomTriples(rng, n, both_vias=False):
  seen = set()
  out = []
  while len(out) < n:
    a = RandTerm(rng, 3)
    if DepthOf(a) < 2 and rng.random() < 0.8:
      continue
    b = Mutate(rng, a, 3)
    c = Mutate(rng, rng.choice([a, b]), 3)
    if DepthOf(b) > 3 or DepthOf(c) > 3:
      continue
    key = json.dumps([a, b, c])
    if key in seen:
      continue
    seen.add(key)
    st = STYLES[len(out) % len(STYLES)]
    out.append({'id': 'random/triple/%d/%s' % (len(out), st), 'k': 'triple',
                'style': st, 'alt': len(out) % 2, 'both_vias': both_vias,
                'terms': [a, b, c]})
  return out


def HasVarTwice(terms):
  text = json.dumps(terms)
  return text.count('["var", 1]') >= 2


def SharedCases(rng, n):
  """Stores with shared references: every ["var", i] is one reference object.

  pd = 2: one shared reference, terms of depth <= 2 (pool of 211 ground types)
  pd = 1: two shared references, terms of depth <= 1 (pool of 13 ground types)
  """
  seen = set()
  out = []
  atoms = ['Any', 'Any', 'Singular', 'Sequential', 'Num', 'Str']
  fields = ['0', 'a']
  while len(out) < n:
    pd = 2 if len(out) % 4 else 1
    nvars = 1 if pd == 2 else 2
    a = RandTerm(rng, pd, atoms, fields, 0.35, nvars)
    if rng.random() < 0.35:
      b = RandTerm(rng, pd, atoms, fields, 0.25, nvars)
    else:
      b = Mutate(rng, a, pd, fields)
      if 'Bool' in json.dumps(b) or 'Time' in json.dumps(b):
        continue
    if DepthOf(a) > pd or DepthOf(b) > pd or not HasVarTwice([a, b]):
      continue
    bounds = [['atom', rng.choice(['Any', 'Any', 'Any', 'Singular', 'Sequential'])]
              for _ in range(nvars)]
    key = json.dumps([a, b, bounds])
    if key in seen:
      continue
    seen.add(key)
    st = ('ref', 'chain', 'close')[len(out) % 3]
    out.append({'id': 'shared/%d/%s' % (len(out), st), 'k': 'shared',
                'style': st, 'terms': [a, b], 'bounds': bounds, 'pd': pd})
  return out


# ----------------------------------------------------------------------------
# Lemma runs (model level) + export of the universes
# ----------------------------------------------------------------------------
LEMMA_CFGS = {
    'quick': ['wide', 'mid', 'deep'],
    'thorough': ['wide', 'mid', 'deep', 'wide3', 'deep3'],
}


STORE_CFGS = {
    'quick': ['two3', 'three3q', 'atoms2'],
    'thorough': ['two3', 'three3', 'two4', 'three4', 'atoms2', 'atoms3'],
}


def RunLemmas(tier):
  import concurrent.futures as cf
  names = LEMMA_CFGS[tier] + ['store_' + n for n in STORE_CFGS[tier]]

  def One(name):
    if name.startswith('store_'):
      return tlc.Run('TypeAlgebraStore',
                     cfg='TypeAlgebraStore_%s.cfg' % name[6:], workers=4,
                     timeout=3000, tag='C16_' + name, heap='3g')
    heavy = name in ('wide3', 'deep3')
    return tlc.Run('TypeAlgebraLemmas', cfg='TypeAlgebraLemmas_%s.cfg' % name,
                   workers=common.NCPU if heavy else 6, timeout=3000,
                   tag='C16_lemma_' + name, heap='6g' if heavy else '3g')
  with cf.ThreadPoolExecutor(max_workers=5) as ex:
    results = list(ex.map(One, names))
  out = {}
  for name, r in zip(names, results):
    m = re.search(r'<<"SIZES", (\d+), (\d+), (\d+)>>', r.out)
    out[name] = {
        'ok': r.ok, 'rc': r.rc, 'distinct': r.distinct,
        'generated': r.generated, 'wall_s': round(r.wall, 1),
        'violated': r.invariant_violated,
        'sizes': [int(x) for x in m.groups()] if m else None,
        'U': ParsePrinted(r.out, 'T'), 'U3': ParsePrinted(r.out, 'T3'),
        # TLC workers print in no fixed order: sort, so that seeded samples
        # of the sequences are reproducible.
        'SEQ': sorted(ParsePrinted(r.out, 'SEQ'),
                      key=lambda q: json.dumps(q, sort_keys=True)),
        'tail': '' if r.ok else r.out[-2500:],
    }
  return out


# ----------------------------------------------------------------------------
# Classification of a failing case (for known_findings.json)
# ----------------------------------------------------------------------------
def Top(t):
  if t[0] == 'atom':
    return t[1]
  if t[0] == 'rec':
    return t[1] + '_record'
  return t[0]


def Signature(case, fail):
  clauses = sorted({f['clause'] for f in fail['fails']})
  sig = {'kind': case['k'], 'clauses': '+'.join(clauses),
         'clause': clauses[0], 'style': case['style'],
         'tops': '/'.join(sorted(Top(t) for t in case['terms']))}
  if case['k'] == 'seq':
    sig['ops'] = '/'.join(op[0] for op in case['ops'])
    sig['shape'] = case.get('shape', 'plain')
    # TLC's localisation of a class-agreement failure (see LinkApply).
    devs = {x['exp'].get('deviation') for x in fail['fails']
            if x['clause'] == 'seq_class_agrees' and isinstance(x['exp'], dict)}
    sig['deviation'] = '+'.join(sorted(d for d in devs if d)) or 'none'
  return sig


# ----------------------------------------------------------------------------
def Plan(tier, lem, rng):
  """Returns {source name: (getter, size, unused, enumerated completely)}."""
  plan = {}
  thorough = tier == 'thorough'
  big = 10 ** 9
  for name in STORE_CFGS[tier]:
    cap = {'two3': big if thorough else 4000, 'three3q': 2500, 'three3': big,
           'two4': big, 'three4': 40000, 'atoms2': big if thorough else 6000,
           'atoms3': 40000}[name]
    g, n, complete = Sampled(SeqSource(name, lem['store_' + name]['SEQ']), cap,
                             rng)
    plan['seq_' + name] = (g, n, 0, complete)
  for u in ('wide', 'mid', 'deep') + (('wide3', 'deep3') if thorough else ()):
    U = lem[u]['U']
    U3 = lem[u]['U3']
    small = u not in ('wide3', 'deep3')
    g, n = PairSource(u, U, all_styles=thorough and small,
                      ordered=thorough and small)
    plan[u + '_pairs'] = (g, n, 0, True)
    g, n, complete = Sampled(TripleSource(u, U3, None, both_vias=thorough),
                             (40000 if small else 25000) if thorough else 3000,
                             rng)
    plan[u + '_triples'] = (g, n, 0, complete)
  W = lem['wide']['U']
  W3 = lem['wide']['U3']
  # Lists for `e in l`: every atom and list of the universe and a few records.
  L = [t for t in W if t[0] != 'rec'] + [t for t in W if t[0] == 'rec'][:8]
  g, n, complete = Sampled(ElemSource('wide', L, W), big if thorough else 5000,
                           rng)
  plan['elem'] = (g, n, 0, complete)
  g, n, complete = Sampled(FieldSource('wide', W, W3, ['0', 'a', 'b']),
                           big if thorough else 5000, rng)
  plan['field'] = (g, n, 0, complete)
  g, n = ListSource(RandomPairs(rng, 60000 if thorough else 8000))
  plan['random_pairs'] = (g, n, 0, False)
  g, n = ListSource(RandomTriples(rng, 20000 if thorough else 1500, thorough))
  plan['random_triples'] = (g, n, 0, False)
  g, n = ListSource(SharedCases(rng, 10000 if thorough else 1200))
  plan['shared'] = (g, n, 0, False)
  return plan


def Execute(plan, tier):
  nshards = common.NCPU if tier == 'quick' else 6 * common.NCPU
  jobs = []
  for source, (getter, _, _, _) in plan.items():
    def Tagged(lo, hi, getter=getter, source=source):
      got = getter(lo, hi)
      for c in got:
        c['src'] = source
      return got
    _JOBS[source] = Tagged
  for s in range(nshards):
    parts = []
    for source, (_, size, _, _) in plan.items():
      lo, hi = size * s // nshards, size * (s + 1) // nshards
      if hi > lo:
        parts.append((source, lo, hi))
    jobs.append(('shard_%03d' % s, parts))
  results = common.ParallelMap(_ShardWork, jobs, chunksize=1)
  try:
    os.rmdir(_TraceDir())      # only shards of failing cases are kept
  except OSError:
    pass
  return results


def Sample(ra, c):
  runs = RunCase(ra, c)
  return {'id': c['id'], 'kind': c['k'], 'style': c['style'],
          'terms': [Show(t) for t in c['terms']],
          'bounds_of_shared_references': [Show(t) for t in c.get('bounds', [])],
          'field': c.get('f', ''), 'order': runs[0]['o'],
          'operations': [ShowOp(op) for op in c.get('ops', [])],
          'containers': c.get('shape', ''),
          'rendered_after_each_call': [[Show(x) for x in step]
                                       for step in runs[0]['obs']]}


def Run(tier):
  clock = common.Clock()
  rng = common.Rng('c16')
  cls = findings.Classifier(PROP)
  machinery = []

  lem = RunLemmas(tier)
  lemma_states = sum(v['distinct'] for v in lem.values())
  lemma_trans = sum(v['generated'] for v in lem.values())
  lemma_failed = [k for k, v in lem.items() if not v['ok']]
  for k in lemma_failed:
    print('C16: model-level lemma run %s failed: violated=%s\n%s' % (
        k, lem[k]['violated'], lem[k]['tail']))
  for k, v in lem.items():
    if v['ok'] and not ((v['U'] and v['U3']) or v['SEQ']):
      machinery.append('lemma run %s exported nothing' % k)
  if lemma_failed:
    # The specification contradicts itself: nothing can be judged with it.
    machinery.append('lemma failed: %s' % lemma_failed)
  lemma_wall = clock()

  results = []
  plan = {}
  if not machinery:
    plan = Plan(tier, lem, rng)
    results = Execute(plan, tier)

  regs = {k: 0 for k in REG}
  per_source = {}
  per_style = {s: 0 for s in STYLES}
  n_cases = n_runs = 0
  trace_states = trace_trans = 0
  violations = 0
  printed = 0
  seen_sigs = {}
  for src, (_, _, _, complete) in plan.items():
    per_source[src] = {'cases': 0, 'call_sequences': 0,
                       'enumerated_completely': complete}
  for r in results:
    if r['error'] or r['summary'] is None:
      machinery.append('TLC failed on shard %s: %s' % (r['name'],
                                                       (r['error'] or '')[-800:]))
      continue
    s = r['summary']
    for k, i in REG.items():
      regs[k] += s[i - 1]
    if s[REG['cases'] - 1] != r['n_cases']:
      machinery.append('shard %s: TLC judged %d of %d cases' % (
          r['name'], s[REG['cases'] - 1], r['n_cases']))
    n_cases += r['n_cases']
    for src, (nc, nr) in r['per_source'].items():
      per_source[src]['cases'] += nc
      per_source[src]['call_sequences'] += nr
      n_runs += nr
    for st, n in r['styles'].items():
      per_style[st] += n
    trace_states += r['distinct']
    trace_trans += r['generated']
    by_id = {c['id']: c for c in r.get('failing_cases', [])}
    for f in r['fails']:
      case = by_id.get(f['id'])
      if case is None:
        violations += 1
        continue
      sig = Signature(case, f)
      if cls.Match(sig):
        continue
      violations += 1
      key = (sig['kind'], sig['clauses'], sig['tops'])
      seen_sigs[key] = seen_sigs.get(key, 0) + 1
      if seen_sigs[key] > 1 or printed >= 25:
        continue
      printed += 1
      path = common.WriteReplay(PROP, 'v_' + common.Sha(case), {
          'case': case, 'shown': [Show(t) for t in case['terms']],
          'signature': sig, 'fails': f['fails'][:4]})
      common.Violation(PROP, path)
      print('  %s %s%s: %s  [%s]' % (case['k'], ' ~ '.join(
          Show(t) for t in case['terms']), ''.join(
              '; ' + ShowOp(op) for op in case.get('ops', [])),
                                   sig['clauses'], case['style']))
  if violations > printed:
    print('C16: %d failing cases in total (%d distinct signatures; one replay '
          'per signature, at most 25 printed)' % (violations, len(seen_sigs)))
  cls.Report()

  samples = []
  if plan:
    ra = Algebra()
    for source, (getter, size, _, _) in plan.items():
      if size:
        samples.append(Sample(ra, getter(size // 3, size // 3 + 1)[0]))

  if results and not machinery:
    for k in REQUIRED:
      if regs[k] == 0:
        machinery.append('construct never exercised: %s' % k)
    for st, n in per_style.items():
      if n == 0:
        machinery.append('construction style never used: %s' % st)
    if regs['cases'] != n_cases:
      machinery.append('TLC judged %d cases, harness ran %d' % (regs['cases'],
                                                               n_cases))

  nontrivial = (regs['pairs_clash'] + regs['pairs_new_information'] +
                regs['triples_clash_free_new_information'] +
                regs['elem_clash'] + regs['elem_new_information'] +
                regs['field_clash'] + regs['field_new_information'] +
                regs['shared_clash_only_by_sharing'] +
                regs['shared_refined_by_sharing'] +
                regs['seq_close_on_alias'])
  coverage = {
      'states': lemma_states + trace_states,
      'transitions': lemma_trans + trace_trans,
      'traces_validated_against_impl': regs['cases'],
      'evaluations': n_runs,
      'distinct_nontrivial': nontrivial,
      'rule': (
          'Cases: every ordered pair of every universe TLC exported from '
          'TypeAlgebraLemmas (%s), every triple (or a seeded sample, see '
          'per_source.enumerated_completely) of its triple universe in all 6 '
          'orders (x both linkings of the second call in the thorough tier, '
          'alternating in quick), every (list, element) and (record, field, '
          'value) of the wide universe through UnifyListElement / '
          'UnifyRecordField, every complete operation sequence (Unify / '
          'CloseRecord on any reference / UnifyRecordField, <= 3 or 4 '
          'operations over 2-3 references) containing a CloseRecord that TLC '
          'exported from TypeAlgebraStore (or a seeded sample), '
          'seeded random terms of depth <= 3 over fields '
          '0,1,a,b (deduplicated), and seeded stores with shared references '
          '(deduplicated); construction styles ref/close/raw/chain rotate.  '
          'evaluations = call sequences executed on the real code (each is '
          'every call made twice with all references rendered after every '
          'call); traces_validated = cases TLC judged.  Cases are distinct by '
          'construction and counted non-trivial, by the TLA+ spec, when the '
          'meet is a clash or differs from every input (pairs, triples, '
          'derived constraints; for triples only the clash-free ones are '
          'counted), and for shared stores when sharing '
          'changed the outcome, and for operation sequences when CloseRecord was '
          'called on a reference that has an alias.  Lists of lists are terms: the algebra itself '
          'does not forbid them, UnifyListElement adds Singular.' %
          '/'.join(sorted(lem))),
      'samples': samples,
      'exhaustive': False,
      'lemma_runs': {k: {kk: v[kk] for kk in ('ok', 'distinct', 'generated',
                                               'wall_s', 'sizes', 'violated')}
                     for k, v in lem.items()},
      'lemma_states': lemma_states,
      'lemma_wall_s': lemma_wall,
      'trace_spec_states': trace_states,
      'per_source': per_source,
      'per_construct': regs,
      'per_style': per_style,
      'known_findings_reproduced': {k: len(v) for k, v in cls.hit.items()},
      'machinery_problems': machinery[:10],
  }
  evidence.Write(PROP, tier, 'model_checking', coverage, clock(),
                 violations=violations, assumptions=[
                     'TLC evaluates TypeAlgebra.tla faithfully; the lemmas '
                     '(Meet = intersection of Inst, faithful canonical form) '
                     'are checked over the bounded universes of the cfg files '
                     'and reach depth-3 / four-field terms only through the '
                     'per-case Member-level witness clause',
                     'the rendering VeryConcreteType is the observable the '
                     'property names; sharing between two results is not '
                     'visible in it',
                     'the store semantics for shared references is decided by '
                     'brute force over a ground pool that is complete for the '
                     'generated shapes (depth <= 2 with one shared reference, '
                     'depth <= 1 with two)',
                     'a clash marker that an earlier call left inside a term '
                     'is outside the quantifier: what later calls do with it '
                     'is counted (triples_clash_not_shown_after_later_call, '
                     'derived_clash_not_shown_after_repeat), not judged'])
  print('C16 %s: %d cases (%d call sequences on the real code) judged by TLC, '
        '%d failing; lemma states %d; %.1fs' % (
            tier, regs['cases'], n_runs, violations, lemma_states, clock()))
  if machinery:
    for m in machinery[:10]:
      print('MACHINERY-FAILURE property=C16 %s' % m)
  if violations:
    return 1
  if machinery:
    return 2
  return 0


def Replay(path):
  with open(path) as f:
    payload = json.load(f)
  case = payload['case']
  ra = Algebra()
  shard = os.path.join(_TraceDir(), 'replay_%s.ndjson' % common.Sha(case))
  WriteShard(ra, [case], shard)
  res = JudgeShard(shard, PROP + '_replay')
  try:
    os.unlink(shard)
    os.rmdir(_TraceDir())
  except OSError:
    pass
  print('case %s [%s] %s%s' % (case['id'], case['style'],
                               ' ~ '.join(Show(t) for t in case['terms']),
                               ''.join('; ' + ShowOp(op)
                                       for op in case.get('ops', []))))
  for r in RunCase(ra, case):
    print('  order %s -> %s' % (r['o'], ' | '.join(
        ', '.join(Show(x) for x in step) for step in r['obs'])))
  if res['error']:
    print('MACHINERY-FAILURE property=C16 %s' % res['error'][-1500:])
    return 2
  if not res['fails']:
    print('C16 replay: TLC accepts the case')
    return 0
  cls = findings.Classifier(PROP)
  for f in res['fails']:
    for x in f['fails']:
      print('  clause %s: spec %s, code %s' % (x['clause'], json.dumps(x['exp']),
                                              json.dumps(x['got'])))
    if cls.Match(Signature(case, f)):
      cls.Report()
      return 0
  common.Violation(PROP, path)
  return 1
