"""C17 - grounded predicates are materialised faithfully; re-running is idempotent.

Specification: spec/Ground.tla (state machine over the persistent attached
file; actions Run / PrePopulate / SwitchVersion; invariants GroundedFaithful,
DependantsReadTables, Idempotent, PrintDoesNotWrite, OnlyDependenciesWritten)
on top of spec/GroundSem.tla (what a run does to the file, with LSem!Den) and
instantiated over the concrete programs of spec/GroundModels.tla by
spec/MCGround.tla.

  (a) spec -> code: TLC explores every history of <= 4 actions of every family
      and prints it with the file and the returned rows expected after every
      step; the harness replays histories on the real pipeline against a real
      SQLite file (fresh compilation and a fresh connection per run, exactly
      as `logica.py run`) and compares after every step.
  (b) code -> spec: random programs (harness/gen.py CORE / AGG7) with @Ground
      on one or two intermediates, a second version, random sequences of runs,
      stale tables and version switches; every step is recorded and decided by
      TLC with spec/GroundTrace.tla.
"""
import collections
import concurrent.futures as cf
import copy
import itertools
import json
import multiprocessing as mp
import os
import time

from harness import common
from harness import evidence
from harness import findings
from harness import gen
from harness import groundrun
from harness import impl
from harness import ir
from harness import meta
from harness import semcheck
from harness import semrun
from harness import tlc

PROP = 'C17'
FAMILIES = [1, 2, 3, 4, 5, 6, 7, 8, 9]
TLC_JUDGED_FAMILIES = ('with_chain', 'flags')   # replayed AND trace-validated
MAX_ROWS = 40      # traces with larger tables are not sent to TLC (cost)
KINDS = ['RunDependant', 'RunAgain', 'RunGrounded', 'PrePopulate',
         'SwitchVersion']
REQUIRED = KINDS + ['RunInSecondVersion', 'RunOverStaleTable']


# ---- TLC: the model --------------------------------------------------------------

def ParsePrinted(out, marker):
  """<<"M", "json">> lines printed by the specification."""
  res = []
  head = '<<"%s", "' % marker
  for line in out.splitlines():
    line = line.strip()
    if line.startswith(head) and line.endswith('">>'):
      try:
        res.append(json.loads(json.loads(line[len(head) - 1:-2])))
      except ValueError:
        pass
  return res


def RunModel(job):
  name, ix = job
  r = tlc.Run('MCGround', cfg='%s_f%d.cfg' % (name, ix), workers=1,
              timeout=2400, tag='c17_%s%d' % (name, ix), heap='3g',
              env={'JAVA_TOOL_OPTIONS': '-XX:ParallelGCThreads=2'})
  fam = ParsePrinted(r.out, 'F')
  cov = ParsePrinted(r.out, 'COV')
  return {'name': name, 'ix': ix, 'ok': r.ok, 'rc': r.rc,
          'generated': r.generated, 'distinct': r.distinct, 'depth': r.depth,
          'wall': round(r.wall, 1),
          'invariant_violated': r.invariant_violated,
          'family': fam[0]['family'] if fam else None,
          'hist': [h['hist'] for h in ParsePrinted(r.out, 'H')],
          'cov': {c['kind']: c['taken'] for c in cov[0]} if cov else {},
          'tail': r.out[-3000:] if not r.ok else ''}


# ---- (a) replay of TLC's histories ----------------------------------------------------

_opts = {}


def _Init(opts):
  _opts.update(opts)


def ReplayHistory(item):
  """item: {ix, family, hist}.  Returns what happened, step by step."""
  fam, hist = item['family'], item['hist']
  steps = [{'a': h['a'], 'p': h['p'], 't': h['p'], 'ver': h['ver'],
            'bag': (StaleBag(fam, h['p']) if h['a'] == 'Pre' else [])}
           for h in hist]
  # every run goes through the real sqlite3_logica.RunSqlScript; in a part of
  # the histories every second run is the subprocess `logica.py run_to_csv`
  main_every = 2 if item.get('main') else 0
  events, infos, texts = groundrun.Perform(
      fam['versions'], steps, _opts.get('cache', False), main_every)
  bad = None
  drift = 0
  for k, (h, ev, info) in enumerate(zip(hist, events, infos)):
    d = groundrun.CompareState(h['file'], h['out'], ev)
    if d and bad is None:
      bad = {'step': k + 1, 'clause': d}
    if h['a'] == 'Run' and info.get('main_sql'):
      for t in h['reads']:
        if t not in info['main_sql']:
          drift += 1
  return {'ix': item['ix'], 'bad': bad, 'events': events, 'drift': drift,
          'errors': [i for i in infos if i.get('cls')],
          'modes': [i.get('mode') for i in infos if i.get('mode')],
          'compiled': groundrun.STATS['compiled'],
          'cached': groundrun.STATS['cached'], 'pid': os.getpid()}


def StaleBag(fam, t):
  for s in fam['stale']:
    if s['t'] == t:
      return s['bag']
  raise KeyError(t)


# ---- (b) random traces ---------------------------------------------------------------------

def IsFactTable(pred):
  return (not pred['inline'] and len(pred['rules']) >= 2 and
          all(not r['body'] and all(h['e']['k'] == 'lit' for h in r['head'])
              for r in pred['rules']))


def Below(prog, name):
  """Predicates below `name` (for biasing the choice of runs only)."""
  by = {p['name']: p for p in prog['preds']}
  seen, todo = set(), [name]
  while todo:
    n = todo.pop()
    for m in meta.PredsRead(by[n]) if n in by else ():
      if m not in seen:
        seen.add(m)
        todo.append(m)
  return seen


SCALAR_ORDER_AGGS = ('', 'Sum', 'Min', 'Max', 'Count')


def TableKey(version, g):
  """"alias.name" of a grounded predicate (GroundSem!RawTable) - used only to
  find the observed rows of a table when classifying a rejected step."""
  if g['t']:
    return g['t']
  d = version.get('dataset') or (
      'logica_home' if 'logica_home' in version['attached'] else 'logica_test')
  return '%s.%s' % (d, g['p'])


def MakeCase(i):
  rng = common.Rng('C17/trace/%d' % i)
  profile = gen.CORE if i % 2 == 0 else gen.AGG7
  g = gen.Gen(rng, profile)
  prog, query, feats = g.Program()
  inter = meta.Intermediates(prog)
  if not inter:
    return None
  rng.shuffle(inter)
  shapes = []
  # the attached databases and the dataset
  attached = rng.choice([['logica_test'], ['logica_home'],
                         ['logica_home', 'archive'],
                         ['logica_test', 'archive'],
                         ['logica_home', 'archive']])
  dataset = 'archive' if (len(attached) > 1 and rng.random() < 0.6) else ''
  if len(attached) > 1:
    shapes.append('several_databases')
  if dataset:
    shapes.append('dataset_annotation')
  custom = {n: ('%s.%s_tbl' % (rng.choice(attached), n)
                if rng.random() < 0.25 else '') for n in inter}

  def Grounded(names):
    return [{'p': n, 't': custom[n]} for n in sorted(names)]
  g1 = inter[:1 if (len(inter) == 1 or rng.random() < 0.5) else 2]
  # an ordered and limited grounded predicate (total order: all columns)
  sig = {x.name: x for x in g.sigs}
  by = {p['name']: p for p in prog['preds']}
  okl = [n for n in g1 if all(t in ('n', 's') for _, t in sig[n].fields)
         and all(a in SCALAR_ORDER_AGGS for a in sig[n].aggs.values())]
  if okl and rng.random() < 0.45:
    n = rng.choice(okl)
    fields = [f for f, _ in sig[n].fields]
    rng.shuffle(fields)
    by[n]['order'] = [{'f': f, 'desc': rng.random() < 0.5} for f in fields]
    by[n]['limit'] = rng.randint(1, 3)
    shapes.append('order_limit_multi_rule' if len(by[n]['rules']) > 1
                  else 'order_limit_single_rule')
  if any(custom[n] for n in g1):
    shapes.append('explicit_table_name')

  def Version(p, names, ds):
    return {'prog': p, 'attached': attached, 'dataset': ds,
            'grounded': Grounded(names)}
  v1 = Version(prog, g1, dataset)
  facts = [p for p in prog['preds'] if IsFactTable(p)]
  second = 'facts' if (facts and rng.random() < 0.5) else 'reground'
  # the second version may also drop / add the @Dataset annotation
  dataset2 = dataset if rng.random() < 0.7 else (
      '' if dataset else ('archive' if len(attached) > 1 else ''))
  if second == 'facts':
    prog2 = copy.deepcopy(prog)
    target = rng.choice([p for p in prog2['preds'] if IsFactTable(p)])
    if rng.random() < 0.7:
      target['rules'].append(copy.deepcopy(rng.choice(target['rules'])))
    else:
      target['rules'].pop(rng.randrange(len(target['rules'])))
    v2 = Version(prog2, g1, dataset2)
  else:
    pool = list(inter)
    rng.shuffle(pool)
    g2 = pool[:rng.randint(1, min(2, len(pool)))]
    if sorted(g2) == sorted(g1) and len(inter) > len(g1):
      g2 = [n for n in inter if n not in g1][:1]
    v2 = Version(prog, g2, dataset2)
  versions = [v1, v2]
  gsets = [set(x['p'] for x in v['grounded']) for v in versions]
  owner = {TableKey(v, x): x['p'] for v in versions for x in v['grounded']}
  tables = sorted(owner)
  # the same table name in the OTHER attached file, and a table nobody owns
  elsewhere = sorted({'%s.%s' % (a, t.split('.', 1)[1]) for t in tables
                      for a in attached} - set(tables))
  for t in elsewhere:
    owner[t] = owner[[k for k in tables
                      if k.split('.', 1)[1] == t.split('.', 1)[1]][0]]
  steps = []
  ver = 1
  prev_run = None
  for k in range(rng.randint(4, 7)):
    r = rng.random()
    if k == 0 or r < 0.58:
      deps = [q for q in query if Below(prog, q) & gsets[ver - 1]
              and q not in gsets[ver - 1]]
      gr = [q for q in query if q in gsets[ver - 1]]
      if prev_run and rng.random() < 0.3:
        p = prev_run
      elif deps and (k == 0 or rng.random() < 0.5):
        p = rng.choice(deps)
      elif gr and rng.random() < 0.5:
        p = rng.choice(gr)
      else:
        p = rng.choice(query)
      steps.append({'a': 'Run', 'p': p})
      prev_run = p
    elif r < 0.8 or steps[-1]['a'] == 'Switch':
      t = rng.choice(tables + tables + elsewhere +
                     ['%s.Other' % rng.choice(attached)])
      if t.endswith('.Other'):
        bag = [{'k': ir.N(7)}]
      else:
        cols = [h['f'] for h in by[owner[t]]['rules'][0]['head']]
        bag = [{c: ir.N(7) for c in cols}] * rng.randint(1, 2)
      steps.append({'a': 'Pre', 't': t, 'bag': bag})
      prev_run = None
    else:
      ver = 3 - ver
      steps.append({'a': 'Switch', 'ver': ver})
      prev_run = None
  return {'tid': 't%d' % i, 'versions': versions, 'steps': steps,
          'query': query,
          'meta': {'features': feats, 'second': second, 'shapes': shapes}}


def RecordTrace(i):
  case = MakeCase(i)
  return PerformCase(case) if case is not None else None


def PerformCase(case):
  # every third run of a trace is the subprocess `logica.py run_to_csv`
  events, infos, texts = groundrun.Perform(case['versions'], case['steps'],
                                           False, 3)
  case['events'], case['infos'], case['texts'] = events, infos, texts
  return case


def HasFloat(x):
  if isinstance(x, list):
    if len(x) == 2 and x[0] in ('f', 'q') and not isinstance(x[1], list):
      return True
    return any(HasFloat(y) for y in x)
  if isinstance(x, dict):
    return any(HasFloat(y) for y in x.values())
  return False


def TraceLine(case, dev=(), tid=None):
  return {'tid': tid or case['tid'], 'dev': list(dev),
          'versions': [{'prog': semcheck.NormProg(v['prog']),
                        'attached': v['attached'], 'dataset': v['dataset'],
                        'grounded': v['grounded']} for v in case['versions']],
          'steps': case['events']}


def ValidateTraces(lines, tag, shards=None, timeout=3000):
  """One TLC (GroundTrace, workers 1) per shard.  Returns ({(tid, step):
  verdict}, stats, errors)."""
  shards = shards or max(1, min(common.NCPU, len(lines) // 4))
  tag = '%s_%d' % (tag, os.getpid())     # concurrent runs do not share shards
  d = common.BuildDir('trace', tag)
  for f in os.listdir(d):
    os.unlink(os.path.join(d, f))
  paths = []
  for s in range(shards):
    part = lines[s::shards]
    if not part:
      continue
    path = os.path.join(d, 'shard%02d.ndjson' % s)
    with open(path, 'w') as f:
      for l in part:
        f.write(json.dumps(l, separators=(',', ':')) + '\n')
    paths.append(path)

  def One(path):
    return tlc.Run('GroundTrace', workers=1, timeout=timeout, tag=tag,
                   heap='2g', env={'TRACE_FILE': path,
                                   'JAVA_TOOL_OPTIONS':
                                       '-XX:ParallelGCThreads=2'})
  with cf.ThreadPoolExecutor(max_workers=common.NCPU) as ex:
    results = list(ex.map(One, paths))
  verdicts, errors = {}, []
  states = generated = 0
  for path, r in zip(paths, results):
    states += r.distinct
    generated += r.generated
    for line in r.out.splitlines():
      v = semcheck.ParseVerdictLine(line)
      if v:
        verdicts[(v['tid'], v['step'])] = v
    accepted_line = 'Accepted' in r.out
    if r.rc != 0 and not accepted_line:
      errors.append((path, r.rc, r.out[-2500:]))
  for f in os.listdir(d):
    os.unlink(os.path.join(d, f))
  os.rmdir(d)
  want = sum(len(l['steps']) for l in lines)
  if len(verdicts) != want and not errors:
    errors.append(('verdicts missing', want, len(verdicts)))
  return verdicts, {'states': states, 'generated': generated,
                    'shards': len(paths)}, errors


def ExplainByDeviations(cases, failing, tag, errors):
  """failing: {(tid, step)}.  Minimal sets of named engine deviations (see
  LValues!Deviations) under which TLC accepts the step."""
  explained = {}
  by_tid = {c['tid']: c for c in cases}
  pending = set(failing)
  full = tuple(semrun.DEVIATIONS)
  for size in (1, 2, 3):
    if not pending:
      break
    subsets = list(itertools.combinations(semrun.DEVIATIONS, size))
    if size == 1:
      subsets.append(full)
    lines = []
    for tid in sorted({t for t, _ in pending}):
      for m, ss in enumerate(subsets):
        lines.append(TraceLine(by_tid[tid], ss, '%s#%d' % (tid, m)))
    v2, _, e2 = ValidateTraces(lines, tag + '_dev%d' % size)
    errors += e2
    for tid, step in sorted(pending):
      oks = [subsets[m] for m in range(len(subsets))
             if (v2.get(('%s#%d' % (tid, m), step)) or {}).get('ok')]
      small = [ss for ss in oks if len(ss) == size]
      if small:
        explained[(tid, step)] = sorted(min(small))
        pending.discard((tid, step))
      elif size == 1 and full not in oks:
        pending.discard((tid, step))
  return explained


def BaseRun(case, ver, pred, memo):
  """The same predicate of the same version WITHOUT @Ground / @AttachDatabase
  (what C01/C02 judge)."""
  key = (case['tid'], ver, pred)
  if key not in memo:
    prog = dict(case['versions'][ver - 1]['prog'])
    res = impl.RunProgram(ir.RenderProgram(prog), [pred])
    memo[key] = res['preds'].get(pred) or {
        'status': res.get('status'), 'cls': res.get('cls'),
        'msg': res.get('msg')}
  return memo[key]


def CanonRows(rows):
  def C(v):
    if isinstance(v, list) and v and v[0] == 'l':
      return ['l', sorted((C(x) for x in v[1]), key=json.dumps)]
    return v
  return sorted(json.dumps({c: C(x) for c, x in r.items()}, sort_keys=True)
                for r in rows)


def LiveReach(prog, start):
  """Predicates `start` reaches when mentions inside aggregating expressions
  that are assigned to a variable used nowhere else (`x == Sum{y :- P(y)}`,
  x unused, transitively) are ignored.  Only used to compute the signature of
  a missing table for the known-findings list, never for a verdict."""
  by = {p['name']: p for p in prog['preds']}

  def Selected(node):
    """`{a: e1, b: e2}.a` is compiled as e1: the other fields are never
    translated."""
    if node.get('k') == 'sub' and node['e'].get('k') == 'rec':
      for f in node['e']['fields']:
        if f['f'] == node['f']:
          return f['e']
    return None

  def Mentions(node, skip, out, in_dead_agg=False):
    if isinstance(node, dict):
      if id(node) in skip:
        for side in (node['l'], node['r']):
          Mentions(side, skip, out, 'dead')
        return
      if in_dead_agg == 'dead' and node.get('k') == 'agg':
        return
      if node.get('k') in ('atom', 'pcall'):
        out.add(node['p'])
      if Selected(node) is not None:
        Mentions(Selected(node), skip, out, in_dead_agg)
        return
      for v in node.values():
        Mentions(v, skip, out, in_dead_agg)
    elif isinstance(node, list):
      for v in node:
        Mentions(v, skip, out, in_dead_agg)

  def Count(node, skip, counts):
    if isinstance(node, dict):
      if id(node) in skip:
        return
      if node.get('k') == 'var':
        counts[node['name']] += 1
      if Selected(node) is not None:
        Count(Selected(node), skip, counts)
        return
      for v in node.values():
        Count(v, skip, counts)
    elif isinstance(node, list):
      for v in node:
        Count(v, skip, counts)

  def Unifies(node, out):
    if isinstance(node, dict):
      if node.get('k') == 'unify':
        out.append(node)
      for v in node.values():
        Unifies(v, out)
    elif isinstance(node, list):
      for v in node:
        Unifies(v, out)

  def RuleMentions(rule):
    us = []
    Unifies(rule['body'], us)
    dead = set()
    while True:
      counts = collections.Counter()
      Count(rule, dead, counts)
      new = [u for u in us if id(u) not in dead and any(
          side['k'] == 'var' and counts[side['name']] == 1
          for side in (u['l'], u['r']))]
      if not new:
        break
      dead |= {id(u) for u in new}
    out = set()
    Mentions(rule, dead, out)
    return out
  seen, todo = set(), [start]
  while todo:
    n = todo.pop()
    for rule in by[n]['rules'] if n in by else ():
      for m in RuleMentions(rule):
        if m not in seen:
          seen.add(m)
          todo.append(m)
  return seen


def ClassifyTraceFailures(cases, verdicts, cls, counters, errors):
  """Returns [(case, [failing verdicts that violate C17])].  Every failing
  clause of a step is classified on its own: a listed known finding, shared
  with the same program without @Ground/@AttachDatabase, or a violation."""
  by_tid = {c['tid']: c for c in cases}
  failing = {k: v for k, v in verdicts.items() if not v['ok']}
  if not failing:
    return []
  rowish = {k for k, v in failing.items()
            if any(c['clause'] in ('rows', 'table_unfaithful')
                   for c in v['all'])}
  explained = ExplainByDeviations(cases, rowish, 'c17', errors) if rowish else {}
  memo = {}
  bad = collections.defaultdict(list)
  for (tid, step), v in sorted(failing.items()):
    case = by_tid[tid]
    ev, info = case['events'][step - 1], case['infos'][step - 1]
    feats = case['meta']['features']
    version = case['versions'][ev['ver'] - 1]
    tab = {g['p']: TableKey(version, g) for g in version['grounded']}
    unexplained = []
    for c in v['all']:
      clause = c['clause']
      if clause == 'run_failed':
        sig = {'kind': 'pred_' + ev['status'], 'features': feats,
               'status': ev['status'], 'cls': info.get('cls'),
               'msg_head': semrun.CleanMsg(info.get('msg'))}
        f = cls.Match(sig)
        if f:
          counters['known:' + f['id']] += 1
          continue
        b = BaseRun(case, ev['ver'], ev['p'], memo)
        if (b.get('status') == ev['status'] and
            b.get('cls') == info.get('cls') and
            semrun.CleanMsg(b.get('msg')) == sig['msg_head']):
          counters['inherited_from_ungrounded_program'] += 1
          continue
        unexplained.append(dict(c, signature=sig))
        continue
      if clause in ('table_missing', 'table_unfaithful'):
        # not written at all (missing, or still what it was before the run)
        # because the only mentions are in expressions the compiler never
        # translates?  -> signature of F-C17-unused-aggregate-binding
        live = LiveReach(version['prog'], ev['p'])
        pre = case['events'][step - 2]['file'] if step > 1 else {'$': []}
        rest = []
        for q in c['on']:
          t = tab[q]
          not_written = (t not in ev['file'] or
                         (t in pre and CanonRows(pre[t]) ==
                          CanonRows(ev['file'][t])))
          sig = {'kind': 'table_not_written', 'features': feats,
                 'clause': 'table_not_written' if not_written else clause,
                 'only_in_unused_aggregate_assignment': q not in live}
          f = cls.Match(sig)
          if f:
            counters['known:' + f['id']] += 1
          else:
            rest.append(q)
        if not rest:
          continue
        c = dict(c, on=rest)
        if clause == 'table_missing':
          unexplained.append(c)
          continue
      if clause in ('rows', 'table_unfaithful'):
        devs = explained.get((tid, step))
        if devs:
          fs = [cls.Match({'dev': d, 'kind': 'rows_differ'}) for d in devs]
          if all(fs):
            for f in fs:
              counters['known:' + f['id']] += 1
            continue
        # shared with the ungrounded program?  (then it is C01/C02's business)
        if clause == 'rows':
          pairs = [(ev['p'], ev['out'])]
        else:
          pairs = [(q, ev['file'].get(tab[q], [])) for q in c['on']]
        same = True
        for q, rows in pairs:
          b = BaseRun(case, ev['ver'], q, memo)
          if (b.get('status') != 'ok' or
              CanonRows(b['rows']) != CanonRows(rows)):
            same = False
        if same:
          counters['inherited_from_ungrounded_program'] += 1
          continue
        unexplained.append(dict(c, signature={
            'kind': 'rows_differ', 'clause': clause, 'features': feats,
            'explained_by': devs or []}))
      else:
        unexplained.append(c)
    if unexplained:
      bad[tid].append(dict(v, violating=unexplained))
  return [(by_tid[tid], vs) for tid, vs in sorted(bad.items())]


# ---- the check ------------------------------------------------------------------------------------

def Run(tier):
  clock = common.Clock()
  quick = tier == 'quick'
  n_hist = int(os.environ.get('VERIF_N', 0)) or (320 if quick else 10 ** 9)
  n_traces = int(os.environ.get('VERIF_N_TRACES', 0)) or (48 if quick else 700)
  rng = common.Rng(PROP)
  machinery = []
  violations = []
  counters = collections.Counter()
  cls = findings.Classifier(PROP)

  # the worker pool is forked before any thread exists
  ctx = mp.get_context('fork')
  pool = ctx.Pool(common.NCPU, initializer=_Init,
                  initargs=({'cache': not quick},))
  try:
    traces_async = pool.map_async(RecordTrace, range(n_traces), chunksize=2)
    # quick: every history of <= 4 actions; thorough: also the complete state
    # space (histories of any length, history variable dropped)
    jobs = [(n, ix) for n in (('MCGround',) if quick else
                              ('MCGround', 'MCGroundFull')) for ix in FAMILIES]
    with cf.ThreadPoolExecutor(max_workers=len(jobs)) as ex:
      models = list(ex.map(RunModel, jobs))
    t_model = clock()
    for m in models:
      if not m['ok'] or m['family'] is None or not m['cov']:
        machinery.append('TLC %s family %d: rc=%s invariants=%s %s' % (
            m['name'], m['ix'], m['rc'], m['invariant_violated'], m['tail']))
    # ---- (a) ----
    items = []
    total_hist = 0
    for m in models:
      if m['name'] != 'MCGround' or not m['family']:
        continue
      hs = m['hist']
      total_hist += len(hs)
      if len(hs) > n_hist // len(FAMILIES):
        hs = rng.sample(hs, n_hist // len(FAMILIES))
      # a part of the histories also goes through the subprocess entry point
      every = 4 if quick else 24
      if m['family']['name'] == 'flags':
        every = 1      # flags are about the command line: always the CLI too
      items += [{'ix': m['ix'], 'family': m['family'], 'hist': h,
                 'main': k % every == 0} for k, h in enumerate(hs)]
    replayed = pool.map(ReplayHistory, items, chunksize=4) if items else []
    t_replay = clock() - t_model
    cases = [c for c in traces_async.get() if c is not None]
    repros = semrun.Reproducers(PROP)
    for c in pool.map(PerformCase, repros, chunksize=1) if repros else []:
      cases.append(c)
  finally:
    pool.terminate()
    pool.join()

  step_kinds = collections.Counter()
  steps_compared = 0
  nontrivial_hist = set()
  drift = 0
  compiled = {}
  bad_items = []
  run_modes = collections.Counter()
  family_shapes = collections.Counter()
  for item, res in zip(items, replayed):
    compiled[res['pid']] = (res['compiled'], res['cached'])
    for mode in res['modes']:
      run_modes['history:' + mode] += 1
    family_shapes[item['family']['name']] += 1
    if item['family']['name'] == 'with_chain':
      for h in item['hist']:
        if h['a'] == 'Run':
          family_shapes['with_chain:' + (
              'rerun' if h['kind'] == 'RunAgain' else h['p'])] += 1
    if item['family']['name'] == 'flags':
      for h, mode in zip([h for h in item['hist'] if h['a'] == 'Run'],
                         res['modes']):
        family_shapes['flags:%s:%s' % (
            'default' if h['ver'] == 1 else 'given_on_command_line',
            mode)] += 1
    drift += res['drift']
    steps_compared += len(item['hist'])
    for h in item['hist']:
      step_kinds[h['kind']] += 1
      if h['a'] == 'Run' and h['ver'] == 2:
        step_kinds['RunInSecondVersion'] += 1
      if h['stale']:
        step_kinds['RunOverStaleTable'] += 1
    if any(h['writes'] for h in item['hist']):
      nontrivial_hist.add(common.Sha([item['ix'], [
          (h['a'], h['p'], h['ver']) for h in item['hist']]]))
    if res['bad']:
      bad_items.append((item, res))

  # TLC decides every mismatching history (GroundTrace names the clauses); a
  # difference from the model state that the specification does not reject
  # (a faithful extra table, see GroundSem!Informational) is MODEL-DRIFT.
  history_drift = 0
  # the replayed histories of some families are ALSO judged as recorded
  # traces (code -> spec)
  judged = [(item, res) for item, res in zip(items, replayed)
            if item['family']['name'] in TLC_JUDGED_FAMILIES and not res['bad']]
  n_bad = len(bad_items)
  bad_items = bad_items + judged
  if bad_items:
    lines = [{'tid': 'h%d' % k, 'dev': [], 'versions': item['family']['versions'],
              'steps': res['events']}
             for k, (item, res) in enumerate(bad_items)]
    hv, _, herr = ValidateTraces(lines, 'c17hist')
    if herr:
      machinery.append('GroundTrace on mismatching histories: %s' % herr[:1])
    for k, (item, res) in enumerate(bad_items):
      tlc_says = [v for (tid, _), v in sorted(hv.items())
                  if tid == 'h%d' % k and not v['ok']]
      if not tlc_says and not herr:
        if k < n_bad:
          history_drift += 1
        continue
      if k >= n_bad:
        first = min(tlc_says, key=lambda v: v['step'])
        res = dict(res, bad={'step': first['step'],
                             'clause': 'GroundTrace:' + first['clause']})
      path = common.WriteReplay(PROP, 'hist_f%d_%s' % (
          item['ix'], common.Sha(item['hist'])), {
              'mode': 'history', 'family': item['family'], 'ix': item['ix'],
              'hist': item['hist'], 'first_difference': res['bad'],
              'tlc_verdicts': tlc_says, 'observed': res['events'],
              'errors': res['errors']})
      violations.append(path)
      if len(violations) <= 25:
        print('  history of family %d differs at step %d (%s); GroundTrace: %s'
              % (item['ix'], res['bad']['step'], res['bad']['clause'],
                 sorted({c['clause'] for v in tlc_says for c in v['all']})))
        common.Violation(PROP, path)
  if history_drift:
    print('MODEL-DRIFT property=%s %d replayed histories differ from the '
          'model state but are accepted by GroundTrace (a table of a '
          'grounded predicate that is not below the requested one was '
          'written, faithfully)' % (PROP, history_drift))

  # ---- (b) ----
  kept, skipped = [], collections.Counter()
  for c in cases:
    big = max([len(rows) for ev in c['events']
               for rows in list(ev['file'].values()) + [ev['out']]] + [0])
    if big > MAX_ROWS:
      skipped['big_tables'] += 1
    elif HasFloat([ev['out'] for ev in c['events']] +
                  [ev['file'] for ev in c['events']]):
      skipped['float_values'] += 1
    else:
      kept.append(c)
  t0 = clock()
  errors = []
  verdicts, tstats = {}, {'states': 0, 'generated': 0, 'shards': 0}
  if kept:
    verdicts, tstats, errors = ValidateTraces(
        [TraceLine(c) for c in kept], 'c17')
  trace_kinds = collections.Counter()
  clauses = collections.Counter()
  extra_written = 0
  nontrivial_traces = set()
  by_tid = {c['tid']: c for c in kept}
  for (tid, step), v in verdicts.items():
    trace_kinds[v['kind']] += 1
    clauses[v['clause']] += 1
    extra_written += sum(1 for c in v['all']
                         if c['clause'] == 'extra_table_written')
    ev = by_tid[tid]['events'][step - 1]
    if ev['a'] == 'Run' and ev['ver'] == 2:
      trace_kinds['RunInSecondVersion'] += 1
    if v['kind'] == 'RunDependant' and v['ok']:
      nontrivial_traces.add(tid)
  trace_shapes = collections.Counter()
  for c in kept:
    for sh in c['meta'].get('shapes', []):
      trace_shapes[sh] += 1
    for info in c['infos']:
      if info.get('mode'):
        run_modes['trace:' + info['mode']] += 1
  for c in kept:
    # a run over a stale table: a Pre on a table some later run rewrites
    seen_pre = set()
    for ev in c['events']:
      if ev['a'] == 'Pre':
        seen_pre.add(ev['t'])
      elif ev['a'] == 'Run' and ev['status'] == 'ok':
        tabs = {TableKey(c['versions'][ev['ver'] - 1], g)
                for g in c['versions'][ev['ver'] - 1]['grounded']}
        if seen_pre & tabs:
          trace_kinds['RunOverStaleTable'] += 1
          seen_pre -= tabs
  bad_traces = ClassifyTraceFailures(kept, verdicts, cls, counters, errors)
  t_traces = clock() - t0
  for case, vs in bad_traces:
    path = common.WriteReplay(PROP, 'trace_%s' % case['tid'], {
        'mode': 'trace', 'case': {k: case[k] for k in (
            'tid', 'versions', 'steps', 'query', 'meta')},
        'texts': case['texts'], 'observed': case['events'],
        'infos': case['infos'], 'failing': vs})
    violations.append(path)
    if len(violations) <= 25:
      print('  trace %s: %s' % (case['tid'], [
          (v['step'], [(c['clause'], c['on']) for c in v['violating']])
          for v in vs]))
      common.Violation(PROP, path)
  if errors:
    machinery.append('GroundTrace: %s' % json.dumps(errors)[:2500])
  cls.Report()
  if extra_written:
    print('MODEL-DRIFT property=%s %d recorded run(s) also wrote, faithfully, '
          'the table of a grounded predicate that is not below the requested '
          'one' % (PROP, extra_written))
  if drift:
    print('MODEL-DRIFT property=%s %d run(s) whose main SQL does not mention '
          'the table of a grounded predicate it reads (results agree)' % (
              PROP, drift))

  # ---- vacuity ----
  tlc_cov = collections.Counter()
  for m in models:
    for k, n in m['cov'].items():
      tlc_cov[m['name'] + ':' + k] += n
  for k in REQUIRED:
    if not tlc_cov.get('MCGround:' + k):
      machinery.append('action %s never taken by TLC' % k)
    if not step_kinds.get(k):
      machinery.append('action %s never replayed on the implementation' % k)
    if not trace_kinds.get(k):
      machinery.append('action %s never occurred in a recorded trace' % k)

  # shapes the property's quantifier and anchors name (exit 2 when absent)
  for fam_name in ('order_limit', 'string_literals', 'datasets'):
    if not family_shapes.get(fam_name):
      machinery.append('no history of family %s replayed' % fam_name)
  for sh in ('several_databases', 'dataset_annotation', 'explicit_table_name',
             'order_limit_multi_rule', 'order_limit_single_rule'):
    if not trace_shapes.get(sh):
      machinery.append('shape %s never occurred in a recorded trace' % sh)
  for key in ('with_chain', 'with_chain:MainFirstG', 'with_chain:MainFirstW',
              'with_chain:Two', 'with_chain:TwoRev', 'with_chain:rerun',
              'flags', 'flags:default:script', 'flags:default:main',
              'flags:given_on_command_line:script',
              'flags:given_on_command_line:main'):
    if not family_shapes.get(key):
      machinery.append('required shape %s was not replayed' % key)
  for mode in ('history:script', 'history:main', 'trace:script', 'trace:main'):
    if not run_modes.get(mode):
      machinery.append('no run through the real runner in mode %s' % mode)

  samples = []
  for item, res in list(zip(items, replayed))[:2]:
    samples.append({
        'direction': 'spec->code', 'family': item['family']['name'],
        'history': [{'action': h['a'], 'arg': h['p'], 'version': h['ver'],
                     'kind': h['kind'],
                     'expected_file': {t: r for t, r in h['file'].items()
                                       if t != '$'},
                     'expected_rows': h['out']} for h in item['hist']],
        'observed_last_step': {'file': {t: r for t, r in
                                        res['events'][-1]['file'].items()
                                        if t != '$'},
                               'rows': res['events'][-1]['out']},
        'agrees': res['bad'] is None})
  for c in kept[:2]:
    samples.append({
        'direction': 'code->spec', 'tid': c['tid'], 'text_v1': c['texts'][0],
        'grounded': [v['grounded'] for v in c['versions']],
        'steps': [{'action': ev['a'], 'arg': ev['p'] or ev['t'],
                   'version': ev['ver'], 'status': ev['status'],
                   'tables_after': {t: len(r) for t, r in ev['file'].items()
                                    if t != '$'},
                   'verdict': (verdicts.get((c['tid'], k + 1)) or {}).get(
                       'clause')}
                  for k, ev in enumerate(c['events'])]})

  mc = [m for m in models if m['name'] == 'MCGround']
  full = [m for m in models if m['name'] == 'MCGroundFull']
  coverage = {
      'states': sum(m['distinct'] for m in models) + tstats['states'],
      'transitions': sum(m['generated'] for m in models) + tstats['generated'],
      'traces_validated_against_impl': len(replayed) + len(kept),
      'evaluations': steps_compared + len(verdicts),
      'distinct_nontrivial': len(nontrivial_hist) + len(nontrivial_traces),
      'rule': (
          'spec->code: TLC enumerates every history of <= 4 actions (Run of '
          'every runnable predicate, PrePopulate of every listed table, '
          'SwitchVersion) of 7 program families (spec/GroundModels.tla: docs '
          'example, chain, named/explicit tables, through an ungrounded middle, '
          'order+limit on multi- and single-rule grounded predicates, string '
          'literals with ; newline and quotes, two attached databases with '
          '@Dataset) with '
          'the history kept in the state; %s maximal histories are replayed '
          'on the real pipeline (every run through the real '
          'sqlite3_logica.RunSqlScript, a part through the subprocess '
          'logica.py run_to_csv) against real SQLite files and EVERY attached '
          'file and the '
          'returned rows are compared with the model after EVERY step; '
          'non-trivial = distinct (family, action sequence) in which at least '
          'one run writes a table.  code->spec: seeded random programs '
          '(gen.CORE / gen.AGG7) with @Ground on 1-2 intermediates (some under '
          'explicit alias.table names, one or two attached databases, '
          '@Dataset, @OrderBy+@Limit over all columns on a grounded '
          'predicate), a second version (other facts or other grounding, '
          '@Dataset added/dropped), 4-7 random steps; every step decided by TLC '
          '(GroundTrace); non-trivial = distinct traces with an accepted run '
          'of a dependant of a grounded predicate.  Excluded from traces: '
          'tables > %d rows, float values.' % (
              'a seeded sample of' if total_hist > len(items) else 'ALL',
              MAX_ROWS)),
      'samples': samples,
      'exhaustive': total_hist == len(items),
      'model': {
          'histories_le_4_steps': {
              'family_%d' % m['ix']: {
                  'states_generated': m['generated'],
                  'distinct_states': m['distinct'], 'depth': m['depth'],
                  'maximal_histories': len(m['hist']), 'tlc_wall_s': m['wall'],
                  'actions_taken': m['cov']} for m in mc},
          'complete_state_space_any_length': {
              'family_%d' % m['ix']: {
                  'states_generated': m['generated'],
                  'distinct_states': m['distinct'], 'depth': m['depth'],
                  'tlc_wall_s': m['wall'], 'actions_taken': m['cov']}
              for m in full},
          'invariants': ['GroundedFaithful', 'DependantsReadTables',
                         'Idempotent', 'PrintDoesNotWrite',
                         'OnlyDependenciesWritten'],
          'tlc_coverage_option': 'unusable with LSem (cost model creation '
                                 'does not terminate); per-action counts are '
                                 'TLC registers printed by POSTCONDITION '
                                 'Coverage (workers 1)'},
      'histories_enumerated_by_tlc': total_hist,
      'histories_replayed': len(replayed),
      'history_steps_compared': steps_compared,
      'history_mismatches': n_bad,
      'histories_also_judged_by_groundtrace': len(judged),
      'replayed_steps_by_action': dict(step_kinds),
      'fresh_compilations': sum(a for a, _ in compiled.values()),
      'cached_compilations': sum(b for _, b in compiled.values()),
      'traces_recorded': len(cases), 'traces_judged': len(kept),
      'traces_skipped': dict(skipped),
      'trace_steps_judged': len(verdicts),
      'trace_steps_by_action': dict(trace_kinds),
      'trace_shapes': dict(trace_shapes),
      'histories_replayed_by_family': dict(family_shapes),
      'runs_by_real_entry_point': dict(run_modes),
      'trace_clauses': dict(clauses),
      'trace_tlc_states': tstats['states'],
      'classified': dict(counters),
      'known_findings_hit': {k: len(v) for k, v in cls.hit.items()},
      'model_drift_runs': drift,
      'model_drift_histories_accepted_by_tlc': history_drift,
      'model_drift_extra_tables_written': extra_written,
      'timing_s': {'model': t_model, 'replay': round(t_replay, 1),
                   'traces_tlc': round(t_traces, 1)},
  }
  evidence.Write(PROP, tier, 'model_checking', coverage, clock(),
                 violations=len(violations), assumptions=[
                     'LSem!Den is the reading of docs/learn/logica.md (as for '
                     'C01/C02); harness/ir.py renders the programs TLC '
                     'exports',
                     'the attached file is observed by reading every table '
                     'of sqlite_master with a separate sqlite3 connection '
                     'after each step',
                     'PrePopulate and SwitchVersion are environment actions '
                     'performed by the harness (sqlite3 DROP/CREATE/INSERT; '
                     'another program text)',
                     'a disagreement with Den that the same predicate shows '
                     'without @Ground/@AttachDatabase is C01/C02 business '
                     '(counted as inherited_from_ungrounded_program)',
                     'thorough tier: one compilation per (program text, '
                     'predicate) per worker process is reused (C13 covers '
                     'determinism of compilation); quick tier compiles for '
                     'every run'])
  print('%s %s: TLC %d histories (<=4 steps) + complete state spaces %s; '
        '%d histories replayed (%d steps compared, %d mismatches); %d traces '
        '/ %d steps judged by GroundTrace (%s); %d violations; %.0fs' % (
            PROP, tier, total_hist, [m['distinct'] for m in full],
            len(replayed), steps_compared, n_bad, len(kept),
            len(verdicts), dict(clauses), len(violations), clock()))
  if machinery:
    for m in machinery[:12]:
      print('MACHINERY: ' + m[:3000])
    return 1 if violations else 2
  return 1 if violations else 0


def Replay(path):
  with open(path) as f:
    rp = json.load(f)
  if rp['mode'] == 'history':
    fam, hist = rp['family'], rp['hist']
    res = ReplayHistory({'ix': rp['ix'], 'family': fam, 'hist': hist})
    line = {'tid': 'replay', 'dev': [], 'versions': fam['versions'],
            'steps': res['events']}
    verdicts, _, errors = ValidateTraces([line], 'c17replay')
    bad = [v for v in verdicts.values() if not v['ok']]
    print('first difference from the model state:', res['bad'])
  else:
    case = rp['case']
    PerformCase(case)
    verdicts, _, errors = ValidateTraces([TraceLine(case)], 'c17replay')
    counters = collections.Counter()
    cls = findings.Classifier(PROP)
    bad = [v for _, vs in ClassifyTraceFailures([case], verdicts, cls,
                                                counters, errors) for v in vs]
    cls.Report()
    print('classified:', dict(counters))
  for v in sorted(verdicts.values(), key=lambda v: v['step']):
    print('  step %d %s(%s) [%s]: %s %s' % (
        v['step'], v['a'], v['p'], v['kind'], v['clause'], v['on'] or ''))
  if errors:
    print('MACHINERY:', json.dumps(errors)[:2000])
    return 2
  if bad:
    common.Violation(PROP, path)
    return 1
  return 0
