"""C18 - order_by and limit select the first K rows in the given order."""
import copy
import os

from harness import common
from harness import gen
from harness import meta
from harness import semrun

PROP = 'C18'

PROFILE = gen.Profile(n_idb=(1, 2), p_list=0.0, p_rec=0.0,
                      kinds=dict(plain=5, distinct=0, func=0, inline=1,
                                 aggfunc=0))
CONSUMERS = gen.Profile(n_idb=(1, 2), max_atoms=2,
                        kinds=dict(plain=4, distinct=2, func=1, inline=0,
                                   aggfunc=1),
                        extras=dict(cmp=2, assign=2, inc=1, alt=1, neg=1,
                                    aggexpr=1, filt_inc=1, impl=0))


def OneProgram(rng, k):
  """A program with one ordered/limited predicate O and consumers of it."""
  for _ in range(50):
    g = gen.Gen(rng, PROFILE)
    for _ in range(rng.randint(1, 2)):
      g.Edb()
    for _ in range(rng.randint(1, 2)):
      g.Idb()
    cands = [i for i, s in enumerate(g.sigs)
             if not s.inline and all(g.Scalar(t) for _, t in s.fields) and
             g.preds[i]['rules'][0]['body']]
    if not cands:
      continue
    i = rng.choice(cands)
    sig, pred = g.sigs[i], g.preds[i]
    fields = [f for f, _ in sig.fields]
    rng.shuffle(fields)
    pred['order'] = [{'f': f, 'desc': rng.random() < 0.5} for f in fields]
    mode = rng.choice(['order', 'limit', 'both', 'both'])
    if k == 0 and rng.random() < 0.5:
      # a limit of 0 needs no order to be deterministic
      pred['order'] = []
      mode = 'limit'
      g.features.add('limit_zero_without_order')
    if mode == 'limit':
      pass  # a limit alone is only deterministic with the order; keep order
    if mode in ('limit', 'both'):
      pred['limit'] = k
    single = len(pred['rules']) == 1
    if single and rng.random() < 0.5:
      pred['order_as_denotation'] = True
      if pred['limit'] >= 0:
        pred['limit_as_denotation'] = True
      g.features.add('denotation_form')
    else:
      g.features.add('annotation_form')
    # consumers must read O: restrict the candidate tables to O (+ EDBs)
    g.p = CONSUMERS
    before = len(g.sigs)
    saved = g.sigs
    g.sigs = [s for s in saved if s is sig or s.name.startswith('E')]
    n_cons = rng.randint(1, 2)
    for _ in range(n_cons):
      g.Idb()
    new = g.sigs[2 if False else len([s for s in saved if s is sig or
                                     s.name.startswith('E')]):]
    g.sigs = saved + new
    prog = gen.Prog(g.preds)
    readers = [p['name'] for p in g.preds
               if p['name'] != pred['name'] and
               pred['name'] in meta.PredsRead(p)]
    if not readers:
      continue
    g.features.add('limit_%s' % ('none' if pred['limit'] < 0 else
                                 ('zero' if pred['limit'] == 0 else 'pos')))
    g.features.add('consumer')
    query = [s.name for s in g.sigs if not s.inline]
    return prog, query, pred['name'], sorted(g.features)
  raise RuntimeError('C18 generator could not build a program')


def Cases(tier):
  n = int(os.environ.get('VERIF_N', 0)) or (90 if tier == 'quick' else 1500)
  rng = common.Rng(PROP)
  cases = []
  for i in range(n):
    prog, query, o, feats = OneProgram(rng, i % 6)
    for plan in ('none', 'with', 'nowith', 'noinject_consumer'):
      if plan != 'none' and tier == 'quick' and (i + len(plan)) % 3:
        continue
      v = prog
      if plan in ('with', 'nowith'):
        v = meta.Annotate(prog, {o: plan})
      elif plan == 'noinject_consumer':
        readers = [p['name'] for p in prog['preds']
                   if o in meta.PredsRead(p) and not p['inline']]
        v = meta.Annotate(prog, {r: 'noinject' for r in readers})
      cases.append({'id': 'o%d%s' % (i, plan), 'prog': v, 'query': query,
                    'ordered': [o],
                    'meta': {'features': feats + ['plan_' + plan],
                             'sig': {'limit': [p for p in prog['preds']
                                               if p['name'] == o][0]['limit'],
                                     'plan': plan}}})
  # directed: a single-rule predicate with a limit and NO order, read by
  # another rule (K = 0 is the only K for which this is deterministic)
  from harness import families
  for j in range(4 if tier == 'quick' else 40):
    E = families.Facts('E', families.RandRows(rng, 2))
    x, y = gen.Var('x'), gen.Var('y')
    L = gen.Pred('L', [gen.Rule([('col0', x, ''), ('col1', y, '')],
                                [gen.Atom('E', [('col0', x), ('col1', y)])])],
                 limit=0)
    if j % 2:
      L['limit_as_denotation'] = True
    R = gen.Pred('R', [gen.Rule([('col0', x, '')],
                                [gen.Atom('L', [('col0', x), ('col1', y)])])])
    C = gen.Pred('Cnt', [gen.Rule([('logica_value', gen.Lit(gen.N(1)), 'Sum')],
                                  [gen.Atom('L', [('col0', x)])], True)])
    cases.append({'id': 'dl%d' % j, 'prog': gen.Prog([E, L, R, C]),
                  'query': ['E', 'L', 'R'], 'ordered': ['L'],
                  'meta': {'features': ['directed_limit_zero_reader'],
                           'sig': {'limit': 0, 'plan': 'directed'}}})
  # directed: top-K over multi-body aggregation (denotation / annotation
  # forms), ordered predicate cloned by a functor
  for j in range((3 if tier == 'quick' else 40) * len(families.C18_FAMILIES)):
    name, fn = families.C18_FAMILIES[j % len(families.C18_FAMILIES)]
    prog, query, ordered, feats = fn(rng)
    cases.append({'id': 'df%d' % j, 'prog': prog, 'query': query,
                  'ordered': ordered,
                  'meta': {'features': feats, 'sig': {'plan': 'directed'}}})
  return cases + semrun.Reproducers(PROP)


REQUIRED = ['fam_wide_order_marker', 'fam_wide_order_string10', 'fam_marker_desc',
            'fam_union_top_k_two_rules', 'fam_union_top_k_disjunction',
            'fam_ordered_aggregate', 'fam_two_rules_denotation',
            'fam_disjunction_denotation', 'fam_functor_ordered',
            'directed_limit_zero_reader', 'limit_zero_without_order', 'denotation_form', 'annotation_form', 'limit_none', 'limit_zero',
            'limit_pos', 'consumer', 'plan_with', 'plan_nowith',
            'plan_noinject_consumer']


def Run(tier):
  return semrun.StandardRun(
      PROP, tier, Cases(tier), REQUIRED,
      rule=('random core programs with one predicate ordered by a random '
            'permutation of all its (scalar) columns, each ascending or '
            'descending (a total order), limited to K in 0..5 or unlimited, '
            'written as @OrderBy/@Limit or as order_by()/limit() denotations, '
            'used as final predicate (row order compared) and read by one or '
            'two consumer predicates (bags compared), under @With/@NoWith of '
            'the ordered predicate and @NoInject of the consumers; TLC decides '
            'against LSem!OrdLimit'),
      assumptions=['as C01/C02'])


def Replay(path):
  return semrun.StandardReplay(PROP, path)
