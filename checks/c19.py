"""C19 - invalid programs are rejected with a diagnostic, never compiled to wrong SQL."""
import collections
import json
import os

from harness import common
from harness import corrupt
from harness import evidence
from harness import findings
from harness import gen
from harness import genfun
from harness import genrec
from harness import ir
from harness import semcheck
from harness import semrun

PROP = 'C19'


def Bases(tier, rng):
  n = int(os.environ.get('VERIF_N', 0)) or (70 if tier == 'quick' else 1000)
  out = []
  for i in range(n):
    k = i % 6
    if k in (0, 1):
      prog, query, feats = gen.Generate(rng, gen.CORE)
      out.append({'id': 'b%d' % i, 'prog': prog, 'query': query,
                  'meta': {'features': feats}})
    elif k in (2, 3):
      prog, query, feats = gen.Generate(rng, gen.AGG7)
      out.append({'id': 'b%d' % i, 'prog': prog, 'query': query,
                  'meta': {'features': feats}})
    elif k == 4:
      fam = genrec.FAMILIES[(i // 6) % len(genrec.FAMILIES)]
      # default depth: shallow flat unfolding is itself rejected (known C03
      # finding) and would mask the diagnostic under test
      c = genrec.Case(fam, None, False, rng, 'b%d' % i)
      c['workflow'] = False
      out.append(c)
    else:
      out.append(genfun.Generate(rng, 'b%d' % i))
  return out


def Cases(tier):
  rng = common.Rng(PROP)
  per = 3 if tier == 'quick' else 8
  cases = []
  for base in Bases(tier, rng):
    ops = list(corrupt.OPERATORS)
    rng.shuffle(ops)
    made = 0
    # operators that apply to few programs go first so that they are exercised
    ops.sort(key=lambda o: o[0] not in ('no_base', 'no_base_reader', 'functor_bad_arg',
                                        'functor_bad_arg_via_value',
                                        'inconsistent_distinct',
                                        'drop_distinct',
                                        'cmp_unbound_shared_name'))
    for name, fn in ops:
      if made >= per:
        break
      v = fn(base['prog'], rng)
      if v is None:
        continue
      made += 1
      query = list(base['query'])
      if name in ('functor_bad_arg', 'functor_bad_arg_via_value'):
        query.append('Mbad')
      if name == 'no_base_reader':
        query.append('Qnb')
      cases.append({'id': '%s_%s' % (base['id'], name), 'prog': v,
                    'query': query, 'syntax': False,
                    'meta': {'features': ['op_' + name],
                             'sig': {'op': name}}})
    if rng.random() < 0.5:
      text = ir.RenderProgram(base['prog'])
      for k, (kind, bad) in enumerate(corrupt.SyntaxCorruptions(text, rng)):
        cases.append({'id': '%s_syn%d' % (base['id'], k), 'prog': base['prog'],
                      'query': base['query'][:2], 'text': bad, 'syntax': True,
                      'meta': {'features': ['op_syntax_' + kind],
                               'sig': {'op': 'syntax_' + kind}}})
  return cases


REQUIRED = ['op_' + n for n, _ in corrupt.OPERATORS] + [
    'op_syntax_del_close', 'op_syntax_add_close', 'op_syntax_cut_string',
    'op_syntax_del_open']


def Line(case, res):
  outcomes = []
  for p in case['query']:
    if res.get('status') != 'ok':
      pr = res                       # whole program rejected at parse time
    else:
      pr = res['preds'].get(p, {})
    st = pr.get('status', 'internal')
    outcomes.append({
        'p': p, 'status': st, 'cls': pr.get('cls') or '',
        'mentions': corrupt.Mentions(pr.get('msg')) if st != 'ok' else [],
        'rows': []})
  return {'id': case['id'], 'prog': semcheck.NormProg(case['prog']), 'dev': [],
          'syntax': bool(case.get('syntax')), 'judge_rows': False,
          'text': [ord(c) for c in res.get('text', '')] if case.get('syntax')
                  else [],
          'outcomes': outcomes}


def Run(tier):
  clock = common.Clock()
  cases = Cases(tier)
  feats = collections.Counter()
  for c in cases:
    for f in c['meta']['features']:
      feats[f] += 1
  results = semcheck.RunImpl(cases)
  lines = [Line(c, r) for c, r in zip(cases, results)]
  verdicts, stats, errors = semcheck.Validate(lines, 'c19',
                                              module='LStaticTrace')
  by_id = {c['id']: (c, r) for c, r in zip(cases, results)}
  cls = findings.Classifier(PROP)
  musts = stats.get('musts', {})
  n_must = sum(1 for v in musts.values() if v)
  status = collections.Counter()
  violations = []
  samples = []
  judged = 0
  for (cid, p), (ok, why) in sorted(verdicts.items()):
    case, res = by_id[cid]
    judged += 1
    pr = res if res.get('status') != 'ok' else res['preds'].get(p, {})
    status['%s/%s' % ('must_reject' if musts.get((cid, p)) else 'may_compile',
                      pr.get('status'))] += 1
    if ok:
      if musts.get((cid, p)) and len(samples) < 5:
        samples.append({'id': cid, 'pred': p, 'text': res.get('text'),
                        'outcome': pr.get('status'), 'cls': pr.get('cls'),
                        'msg': semrun.CleanMsg(pr.get('msg'))})
      continue
    sig = semrun.Signature(case, p, 'c19_' + str(pr.get('status')), pr)
    sig['why'] = why
    if cls.Match(sig):
      continue
    path = common.WriteReplay(PROP, 'c19_%s_%s' % (cid, p), {
        'case': case, 'pred': p, 'why': why, 'detail': pr,
        'text': res.get('text'), 'signature': sig})
    violations.append(path)
    if len(violations) <= 25:
      common.Violation(PROP, path)
  cls.Report()
  missing = [f for f in REQUIRED if not feats.get(f)]
  coverage = {
      'states': max(1, stats['tlc_states']),
      'transitions': max(1, stats['tlc_states']),
      'traces_validated_against_impl': judged,
      'evaluations': judged,
      'distinct_nontrivial': n_must,
      'programs': len(cases),
      'rule': ('every applicable operator of the corruption catalogue '
               '(head / comparison / negation variable left unbound, distinct '
               'dropped from an aggregating rule, inconsistent distinct, base '
               'case of a recursion removed, functor applied to a predicate it '
               'does not depend on, annotation of a missing predicate, '
               'unbalanced bracket / cut string in the text) applied to valid '
               'generated programs (core, aggregation, recursion, functor '
               'families); spec/LStatic.tla decides which predicates must be '
               'rejected (MustReject) and which identifiers identify the '
               'offence; TLC judges the recorded outcome of every queried '
               'predicate; distinct_nontrivial = outcomes for which the spec '
               'demands a rejection'),
      'samples': samples,
      'operator_counts': dict(feats),
      'outcome_counts': dict(status),
      'exhaustive': False,
  }
  evidence.Write(PROP, tier, 'model_checking', coverage, clock(),
                 violations=len(violations),
                 assumptions=['spec/LStatic.tla is the reading of "valid '
                              'program"; rows of valid programs are judged by '
                              'C01/C02, not here'])
  if errors:
    print('MACHINERY: TLC errors:', json.dumps(errors)[:3000])
    return 2
  if missing:
    print('MACHINERY: corruption operators never applied:', missing)
    return 2
  print('C19 %s: %d corrupted programs, %d outcomes judged (%d must-reject), '
        '%d violations, %.1fs; outcomes %s' % (
            tier, len(cases), judged, n_must, len(violations), clock(),
            dict(status)))
  return 1 if violations else 0


def Replay(path):
  with open(path) as f:
    rp = json.load(f)
  case = rp['case']
  res = semcheck.RunImpl([case])[0]
  verdicts, _, errors = semcheck.Validate([Line(case, res)], 'c19replay',
                                          module='LStaticTrace')
  if errors:
    return 2
  bad = [k for k, (ok, _) in verdicts.items() if not ok]
  for k in bad:
    common.Violation(PROP, path)
  return 1 if bad else 0
