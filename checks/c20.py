"""C20 - built-in functions and aggregates on SQLite compute their documented
meaning; aggregates do not depend on the order of their input rows.

Specification: spec/SqliteAgg.tla (+ SqliteAggOps.tla): the aggregating UDFs as
a state machine (K-best machine of DESIGN.md A.8, DistinctListAgg,
ArrayConcatAgg) with the property `Permitted(mode, k, steps)`; TLC explores all
step sequences, checks the machine against the property, order independence
and uniqueness without ties, and exports every behaviour.  spec/LValues.tla:
Builtin(op, args) and Agg(op, vals, dev) - the documented meaning of every
built-in and aggregate.

Binding (a): every exported behaviour is replayed on the real classes
sqlite3_logica.ArgMin / ArgMax / DistinctListAgg / ArrayConcatAgg; TLC
(spec/SqliteAggTrace.tla) decides `finalize() \\in Permitted` from the recording.
Binding (b): every built-in on all argument tuples of small domains as
`T(<call>)`, every aggregate on all multisets x all arrangements of the facts,
through parse -> compile -> SQLite; TLC (spec/LSemTrace.tla with
LValues!Builtin / LValues!Agg) decides every returned table.
Python computes no verdict: it builds programs / calls the classes, records,
and reports what TLC printed.
"""
import collections
import json
import multiprocessing
import os
import sys
import time

from harness import common
from harness import evidence
from harness import findings
from harness import semrun
from harness import c20cases
from harness import c20udf

PROP = 'C20'
# Many short single-worker TLC runs (16 shards per validation round): keep each
# JVM small.  The model-checking run of SqliteAgg keeps the full JIT.
JVM_SHORT = '-XX:ParallelGCThreads=2 -XX:TieredStopAtLevel=1'
JVM_MODEL = '-XX:ParallelGCThreads=4'

RULE = (
    'UDF level: ALL step sequences of spec/SqliteAgg.tla within the bounds in '
    'udf.models (K in {null,1,2,3}, <= 4-5 steps over small argument/value '
    'domains incl. ties; DistinctListAgg; ArrayConcatAgg with nulls) are '
    'model-checked (ResultPermitted, FinSubset, KBest, OrderIndep, '
    'UniqueNoTies, BestFirstLemma) and each exported behaviour is replayed on '
    'the real Python classes under order-preserving value interpretations; TLC '
    '(SqliteAggTrace) decides finalize() in Permitted(mode,k,steps). '
    'Pipeline level: each built-in on ALL argument tuples of: ints -2..4, '
    'strings {"","a","ab","b"}, lists of length <= 3 over {0,1,2} and over '
    '{"a","ab","b"} incl. the empty list, Range of zero and negative numbers, '
    'Element / l[i] with index 0..4 (past the end = null), as `T(<call>)` '
    '(genuine one-rule programs plus rules `T(i, <call_i>)` of one predicate); '
    'each aggregate as predicate-level aggregation and as aggregating '
    'expression on all multisets of size <= 4 over {null,0,1,2} (and the same '
    'shapes over {null,"a","ab","b"}; value/argument pairs with distinct '
    'arguments in both label orders for ArgMin/ArgMax/ArgMinK/ArgMaxK/Array) '
    'x all distinct arrangements of the fact statements (quick tier: all '
    'arrangements up to 2 rows and all null-free arrangements of 3 scalar '
    'rows, seeded arrangements of the other multisets; string domain on a '
    'subset); TLC '
    '(LSemTrace: LValues!Builtin / LValues!Agg) decides every table. '
    'Composite results re-embedded: Element / l[i] / r.f / Range over lists '
    'of lists, lists of records and records with list fields, put inside a '
    'list literal, a record literal and a List= aggregate, compared as '
    'structured values (UDF-produced lists and lists passing through a column '
    'or an aggregating-expression sub-select arrive as text on the unchanged '
    'tree: known findings F-C20-*). `x in l` as an expression (head value, '
    'under !, inside && / ||, as a negated constraint, over lists from facts) '
    'with null elements and the item absent / present / null, and the empty '
    'list: two-valued like the IN_LIST UDF (assumed meaning, docs silent); a '
    'positive `x in l` conjunct is the inclusion proposition; == != < <= > >= '
    'isnull ! && || with null operands (three-valued), Size / Element of '
    'lists holding nulls. '
    'Kept out of the domains as engine-defined: negative Element index, '
    'inexact `/`, `%` with negative or zero operands, ToInt64 of non-numeric '
    'text, mixed-type comparison / Least / Greatest / Sort, Split with empty '
    'separator, null arguments of built-ins, `++` on lists, one-argument '
    'Least / Greatest, null keys or elements of Array, null values fed '
    'directly to the UDF classes (covered at pipeline level). '
    'distinct_nontrivial = distinct (program, predicate) pairs with a '
    'non-empty denoted table + distinct replayed behaviours with >= 1 step')

ASSUMPTIONS = [
    'spec/LValues.tla Builtin/Agg encode docs/learn/logica.md where it speaks '
    '(nulls ignored by aggregates, aggregating nothing gives null, ArgMin / '
    'ArgMax pick the key of the extreme value) and the obvious mathematical '
    'definition elsewhere',
    'harness/ir.py renderer is trusted (program text is stored in every replay)',
    'facts written as separate rules reach the SQLite aggregate in statement '
    'order (UNION ALL); the verdict does not depend on it, only the claim that '
    'all arrival orders were exercised',
    'bounded domains: see rule',
]


# ---- (a) UDF conformance, run in its own process --------------------------------
def UdfConformance(tier):
  clock = common.Clock()
  res = {'models': {}, 'states': 0, 'transitions': 0, 'errors': [],
         'model_failures': []}
  behaviours = []
  names = c20udf.TIER_MODELS[tier]
  for n in names:
    c20udf.WriteCfg(n)
  import concurrent.futures as cf
  per = max(2, min(8, common.NCPU // len(names)))
  with cf.ThreadPoolExecutor(len(names)) as ex:
    runs = list(ex.map(lambda n: c20udf.RunModel(n, workers=per), names))
  for n, (r, beh) in zip(names, runs):
    cov = r.Coverage()
    res['models'][n] = {
        'constants': c20udf.MODEL_CFG[n], 'ok': bool(r.ok),
        'states': r.distinct, 'transitions': r.generated, 'depth': r.depth,
        'behaviours_exported': len(beh), 'action_coverage': cov,
        'wall_s': round(r.wall, 1),
        'invariants': c20udf.INVARIANTS + ['BestFirstLemma (postcondition)']}
    res['states'] += r.distinct
    res['transitions'] += r.generated
    if not r.ok:
      res['model_failures'].append((n, r.invariant_violated, r.out[-3000:]))
    behaviours += beh
  res['t_model'] = clock()
  seen = set()
  uniq = []
  for b in behaviours:
    key = json.dumps([b['m'], b['k'], b['steps']])
    if key not in seen:
      seen.add(key)
      uniq.append(b)
  lines = c20udf.Replay(uniq, c20udf.TIER_INTERP[tier],
                        workers=4 if tier == 'quick' else 8,
                        per_behaviour=1 if tier == 'quick' else 2)
  res['t_replay'] = clock() - res['t_model']
  shards = max(1, min(common.NCPU, len(lines) // 3000 + 1))
  verdicts, counters, states, errors = c20udf.Judge(lines, 'c20udf',
                                                    shards=shards)
  res['t_judge'] = clock() - res['t_model'] - res['t_replay']
  res['states'] += states
  res['transitions'] += states
  res['errors'] = errors
  res['counters'] = counters
  res['behaviours'] = len(uniq)
  res['nontrivial'] = sum(1 for b in uniq if b['steps'])
  res['lines'] = len(lines)
  res['per_mode_k'] = dict(collections.Counter(
      '%s/k=%s' % (b['m'], b['k'] or 'null') for b in uniq))
  res['interpretations'] = c20udf.TIER_INTERP[tier]
  res['impl_raised'] = sum(1 for l in lines if l['st'] != 'ok')
  by_id = {l['id']: l for l in lines}
  res['failed'] = [dict(by_id[i], verdict=v) for i, v in verdicts.items()
                   if not v['ok']][:200]
  res['drift'] = [dict(by_id[i], verdict=v) for i, v in verdicts.items()
                  if v['ok'] and v['drift']][:50]
  res['n_failed'] = sum(1 for v in verdicts.values() if not v['ok'])
  res['n_drift'] = sum(1 for v in verdicts.values() if v['ok'] and v['drift'])
  ties = [l for l in lines if len(l['steps']) >= 3 and l['k'] == 2][:2000]
  res['samples'] = [
      {'class': l['m'], 'limit': l['k'] or None, 'steps': l['steps'],
       'interpretation': l['interp'], 'finalize': l['res'],
       'retained_after_each_step': l['kept']}
      for l in (ties[7::401] + lines[5::max(1, len(lines) // 3)])[:4]]
  res['wall_s'] = clock()
  return res


def _UdfMain(tier, path):
  os.environ['JAVA_TOOL_OPTIONS'] = JVM_MODEL
  try:
    res = UdfConformance(tier)
  except BaseException as e:  # pylint: disable=broad-except
    import traceback
    res = {'crash': traceback.format_exc()[-3000:]}
  with open(path, 'w') as f:
    json.dump(res, f, default=str)


# ---- (b) pipeline cases ------------------------------------------------------------
def Cases(tier):
  rng = common.Rng(PROP)
  cases = c20cases.BuiltinCases(tier, rng) + c20cases.AggCases(tier, rng)
  cases += c20cases.NestedCases() + c20cases.InNullCases()
  return cases + semrun.Reproducers(PROP)


def CallCounts(cases, out):
  """Per built-in / aggregate: calls sent, and calls in tables TLC accepted."""
  bad = collections.defaultdict(set)
  for case, p, _, _ in out.disagreements:
    bad[case['id']].add(p)
  sent, accepted = collections.Counter(), collections.Counter()
  programs = collections.Counter()
  for c in cases:
    calls = c.get('meta', {}).get('calls', {})
    nq = len(c['query'])
    for name, n in calls.items():
      sent[name] += n
      programs[name] += 1
      if c['id'] not in bad:
        accepted[name] += n
      elif nq > 1:
        # aggregate programs: count the share of the accepted predicates
        okq = nq - len(bad[c['id']])
        accepted[name] += n * okq // nq
  return sent, accepted, programs


def Run(tier):
  clock = common.Clock()
  cpu0 = os.times()
  udf_path = os.path.join(common.BuildDir('c20'), 'udf_%s.json' % tier)
  if os.path.exists(udf_path):
    os.unlink(udf_path)
  os.environ.setdefault('JAVA_TOOL_OPTIONS', JVM_SHORT)
  ctx = multiprocessing.get_context('fork')
  proc = ctx.Process(target=_UdfMain, args=(tier, udf_path))
  proc.start()

  cases = Cases(tier)
  out = semrun.RunCases(PROP, cases, tag='c20')
  t_pipe = clock()
  proc.join()
  udf = {}
  if os.path.exists(udf_path):
    with open(udf_path) as f:
      udf = json.load(f)

  machinery = []
  violations = list(out.violations)
  if not udf or udf.get('crash'):
    machinery.append('UDF conformance crashed: %s' % udf.get('crash', 'no result'))
    udf = {'states': 0, 'transitions': 0, 'lines': 0, 'counters': {},
           'models': {}, 'failed': [], 'drift': [], 'n_failed': 0,
           'n_drift': 0, 'nontrivial': 0, 'samples': [], 'errors': [],
           'model_failures': []}
  for n, inv, tail in udf.get('model_failures', []):
    machinery.append('SqliteAgg model %s: TLC did not complete cleanly '
                     '(invariants violated: %s)\n%s' % (n, inv, tail[-1500:]))
  for e in udf.get('errors', []):
    machinery.append('SqliteAggTrace: %s' % json.dumps(e)[:2000])
  for k, line in enumerate(udf.get('failed', [])):
    path = common.WriteReplay(PROP, 'udf_%s_k%s_%d' % (line['m'], line['k'],
                                                      line['id']),
                              {'kind': 'udf', 'line': line})
    violations.append(path)
    if k < 25:
      common.Violation(PROP, path)
  for line in udf.get('drift', [])[:5]:
    print('MODEL-DRIFT property=%s class=%s limit=%s steps=%s: retained state '
          'departs from the A.8 machine, finalize() is permitted' % (
              PROP, line['m'], line['k'], line['steps']), flush=True)

  sent, accepted, programs = CallCounts(cases, out)
  required = c20cases.BUILTINS_REQUIRED + c20cases.AGGS_REQUIRED
  never = [n for n in required if not sent.get(n)]
  cnt = udf.get('counters', {})
  for cls_name in ('ArgMin', 'ArgMax', 'Distinct', 'Concat'):
    if udf.get('lines') and not cnt.get(cls_name):
      never.append('udf:' + cls_name)
  for feat in ('agg_head', 'agg_expr', 'ties', 'null_row', 'one_rule',
               'batched', 'string_domain', 'rows0', 'rows4',
               # composite results re-embedded as structured values (Element,
               # l[i], r.f, Range inside list / record literals and List=)
               'nested_reembed', 'nested:in_list', 'nested:in_record',
               'nested:in_List_agg', 'nested_via:Element', 'nested_via:l[i]',
               'nested_via:r.f', 'nested_reembed_udf',
               # `in` as a two-valued expression over lists holding nulls;
               # boolean built-ins with null operands
               'in_null_expr', 'in_null:value', 'in_null:not', 'in_null:and',
               'in_null:or', 'in_null:constraint', 'in_null:not_constraint',
               'in_null:facts', 'bool_null_operand'):
    if not out.feature_counts.get(feat):
      never.append('feature:' + feat)
  if out.impl_status.get('skipped_big'):
    machinery.append('tables skipped as too big: %d' %
                     out.impl_status['skipped_big'])

  cpu1 = os.times()
  cpu_s = round((cpu1.user - cpu0.user) + (cpu1.system - cpu0.system) +
                (cpu1.children_user - cpu0.children_user) +
                (cpu1.children_system - cpu0.children_system), 1)
  samples = list(out.samples[:3]) + udf.get('samples', [])[:3]
  coverage = {
      'states': max(1, out.tlc_states + udf['states']),
      'transitions': max(1, out.tlc_states + udf['transitions']),
      'traces_validated_against_impl': out.preds_judged + udf.get('lines', 0),
      'evaluations': sum(sent.values()) + udf.get('lines', 0),
      'distinct_nontrivial': len(out.nontrivial) + udf.get('nontrivial', 0),
      'rule': RULE,
      'samples': samples,
      # built-in domains and UDF step sequences are exhaustive in both tiers;
      # the arrangements of 3-4 aggregate rows are sampled in the quick tier
      'exhaustive': tier == 'thorough',
      'pipeline': {
          'programs': out.cases, 'tables_judged': out.preds_judged,
          'tables_ok': out.ok,
          'disagreements_with_spec': len(out.disagreements),
          'known_findings_hit': dict(out.known),
          'impl_status': dict(out.impl_status),
          'tlc_states': out.tlc_states,
          'feature_counts': dict(out.feature_counts),
          'per_builtin': {n: {'calls': sent.get(n, 0),
                              'calls_in_accepted_tables': accepted.get(n, 0),
                              'programs': programs.get(n, 0)}
                          for n in c20cases.BUILTINS_REQUIRED},
          'per_aggregate': {n: {'evaluations': sent.get(n, 0),
                                'evaluations_in_accepted_tables':
                                    accepted.get(n, 0),
                                'programs': programs.get(n, 0)}
                            for n in c20cases.AGGS_REQUIRED},
          'wall_s': t_pipe, 't_impl': out.t_impl, 't_tlc': out.t_tlc,
      },
      'udf': {
          'models': udf.get('models', {}),
          'behaviours_replayed': udf.get('behaviours', 0),
          'recordings_judged': cnt.get('judged', 0),
          'recordings_with_retained_state_observed': cnt.get('kept_observed', 0),
          'recordings_with_more_than_one_permitted_result':
              cnt.get('with_ties', 0),
          'per_class': {k: cnt.get(k, 0) for k in ('ArgMin', 'ArgMax',
                                                   'Distinct', 'Concat')},
          'per_mode_k': udf.get('per_mode_k', {}),
          'interpretations': udf.get('interpretations', []),
          'impl_raised': udf.get('impl_raised', 0),
          'result_not_permitted': udf.get('n_failed', 0),
          'model_drift': udf.get('n_drift', 0),
          'wall_s': udf.get('wall_s', 0),
          't_model': udf.get('t_model'), 't_replay': udf.get('t_replay'),
          't_judge': udf.get('t_judge'),
      },
      'never_exercised': never,
      'cpu_s': cpu_s,
  }
  evidence.Write(PROP, tier, 'model_checking', coverage, clock(),
                 violations=len(violations), assumptions=ASSUMPTIONS)
  print('%s %s: pipeline %d programs, %d tables judged, %d ok, %d '
        'disagreements (%d known); UDF %d behaviours, %d recordings judged, %d '
        'not permitted, %d drift; TLC states %d; %d violations; %.1fs wall, '
        '%.0f CPU-s' % (
            PROP, tier, out.cases, out.preds_judged, out.ok,
            len(out.disagreements), sum(out.known.values()),
            udf.get('behaviours', 0), cnt.get('judged', 0),
            udf.get('n_failed', 0), udf.get('n_drift', 0),
            coverage['states'], len(violations), clock(), cpu_s), flush=True)
  if out.tlc_errors:
    machinery.append('LSemTrace errors: %s' % json.dumps(out.tlc_errors)[:3000])
  if never:
    machinery.append('never exercised: %s' % never)
  if udf.get('lines') and cnt.get('judged', 0) != udf['lines']:
    machinery.append('recordings judged %s != recordings %s' % (
        cnt.get('judged'), udf['lines']))
  if violations:
    for m in machinery:
      print('MACHINERY:', m, flush=True)
    return 1
  if machinery:
    for m in machinery:
      print('MACHINERY:', m, flush=True)
    return 2
  return 0


def Replay(path):
  with open(path) as f:
    rp = json.load(f)
  if rp.get('kind') != 'udf':
    return semrun.StandardReplay(PROP, path)
  old = rp['line']
  b = {'m': old['m'], 'k': old['k'], 'steps': old['steps']}
  line = c20udf.ReplayOne((0, b, old['interp']))
  verdicts, counters, _, errors = c20udf.Judge([line], 'c20udf_replay',
                                               shards=1)
  print(json.dumps({'recorded': line, 'verdict': verdicts.get(0)},
                   default=str)[:3000])
  if errors or counters.get('judged') != 1:
    print('MACHINERY:', json.dumps(errors)[:2000])
    return 2
  if verdicts.get(0) and not verdicts[0]['ok']:
    common.Violation(PROP, path)
    return 1
  return 0
