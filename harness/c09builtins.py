"""C09: one small typed program per built-in of the function tables.

The names come from the tree under test at run time:
  QL.BUILT_IN_FUNCTIONS, QL.BUILT_IN_INFIX_OPERATORS, QL.ANALYTIC_FUNCTIONS,
  every dialect's BuiltInFunctions() / InfixOperators()      ("tables")
  QL.BULK_FUNCTIONS (StandardSQL functions from processed_functions.csv;
  thorough tier only)                                          ("bulk")
  plus the aggregates ArgMax/ArgMin/ArgMaxK/ArgMinK/Array that every
  dialect's LibraryProgram() defines                           ("library")
Each name is turned into a rule over the facts B(1, "a"); B(2, "b") with
variables x (number), s (string), l == [x, 2], ls == [s, "b"].  The argument
shapes below are the only hand-written part; a name that has no entry is
called with numbers (arity read off the SQL template / the csv).  Names whose
call cannot be written in Logica source are reported as not exercised.
"""
import collections
import re

from harness import impl

ENGINES = ('sqlite', 'duckdb', 'psql', 'bigquery', 'trino', 'presto',
           'clickhouse', 'databricks')

X, S, L, LS = 'x', 's', 'l', 'ls'
ARGS = {
    'Range': [X], 'RangeOf': [L], 'Element': [L, '0'], 'Size': [L],
    'Join': [LS, '"-"'], 'Sort': [L], 'Unique': [L], 'Concat': [L, L],
    'ArrayConcat': [L, L], 'Split': [S, '","'], 'Like': [S, '"a%"'],
    'ILike': [S, '"a%"'], 'Replace': [S, '"a"', '"b"'],
    'JsonExtract': [S, '"$.a"'], 'JsonExtractScalar': [S, '"$.a"'],
    'Length': [S], 'DateDiff': ['"day"', S, S], 'DateAddDay': [S, X],
    'DateDiffDay': [S, S], 'TimestampAddDays': [S, X], 'IsNull': [X],
    'Format': ['"%d-%s"', X, S], 'Least': [X, '2'], 'Greatest': [X, '2'],
    'ToString': [X], 'ToInt64': [S], 'ToUInt64': [S], 'ToFloat64': [S],
    'MagicalEntangle': [X, '0'], 'ValueOfUnnested': [X], 'Log': [X],
    'Rand': [], 'CurrentTimestamp': [], 'TimeAdd': ['CurrentTimestamp()', X],
    'Constraint': ['(x > 0)'], 'Container': [X], 'Aggr': [X],
    'Cast': [X, '"INT64"'], 'TryCast': [S, '"INT64"'],
    'SqlExpr': ['"{a} + 1"', '{a: x}'], 'FlagValue': ['"c09flag"'],
    'TypeRepr': ['"B"', '"col0"'], 'Substr': [S, '1', '1'], 'Upper': [S], 'Lower': [S],
}
# name -> (aggregating operator as written before `=`, argument)
AGGREGATES = {
    '1': ('1', X), 'Agg+': ('+', X), 'Agg++': ('++', L), 'Count': ('Count', X),
    'ExactCount': ('ExactCount', X), 'List': ('List', X), 'Set': ('Set', X),
    'Median': ('Median', X), 'SomeValue': ('SomeValue', X),
    'AnyValue': ('AnyValue', X), 'StringAgg': ('StringAgg', S),
    'LogicalOr': ('LogicalOr', '(x > 1)'),
    'LogicalAnd': ('LogicalAnd', '(x > 1)'),
}
INFIX_EXPR = {
    '==': '(x == 1)', '<=': '(x <= 1)', '<': '(x < 1)', '>=': '(x >= 1)',
    '>': '(x > 1)', '!=': '(x != 1)', '/': '(x / 2)', '+': '(x + 2)',
    '-': '(x - 2)', '*': '(x * 2)', '^': '(x ^ 2)', '%': '(x % 2)',
    '++': '(s ++ "z")', 'in': '(x in l)', 'is': '(x is null)',
    'is not': '(x is not null)', '||': '((x > 1) || (x < 0))',
    '&&': '((x > 0) && (x < 5))',
}
UNARY = {'!': '(!(x > 1))', '-': '(-x)'}
ANALYTIC_ARGS = lambda name: ([X, '[s]', '[x]', '2'] if name.startswith('Window')
                              else [X, '[s]', '[x]'])

# Aggregates every dialect library (LibraryProgram) defines in Logica itself.
LIBRARY = collections.OrderedDict([
    ('ArgMax', 'T(r? ArgMax= s -> x) distinct :- %s;'),
    ('ArgMin', 'T(r? ArgMin= s -> x) distinct :- %s;'),
    ('ArgMaxK', 'T() Aggr= ArgMaxK(s -> x, 2) :- %s;'),
    ('ArgMinK', 'T() Aggr= ArgMinK(s -> x, 2) :- %s;'),
    ('Array', 'T() Array= x -> s :- %s;'),
])

HEAD = ('@Engine("%s");\n@DefineFlag("c09flag", "v");\nB(1, "a");\nB(2, "b");\n')
BODY = 'B(x, s), l == [x, 2], ls == [s, "b"]'
_IDENT = re.compile(r'[A-Z][A-Za-z0-9_]*$')


def _TemplateArity(template):
  idx = [int(k) for k in re.findall(r'\{(\d+)\}', template)]
  if idx:
    return max(idx) + 1
  return 1 if '%s' in template else 0


def Tables():
  """{'common': {name: kind}, engine: {name: kind}} from the tree under test."""
  impl.Mods()
  from compiler import dialects
  from compiler import expr_translate
  ql = expr_translate.QL
  ql.InstallBulkFunctionsOfStandardSQL()
  t = {'common': collections.OrderedDict()}
  for k, v in ql.BUILT_IN_FUNCTIONS.items():
    t['common'][k] = ('fun', v)
  for k, v in ql.BUILT_IN_INFIX_OPERATORS.items():
    t['common'][k] = ('infix', v)
  for k, v in ql.ANALYTIC_FUNCTIONS.items():
    t['common'][k] = ('analytic', v)
  for e in ENGINES:
    d = dialects.Get(e)
    t[e] = collections.OrderedDict()
    for k, v in d.BuiltInFunctions().items():
      t[e][k] = ('fun', v)
    for k, v in d.InfixOperators().items():
      t[e][k] = ('infix', v)
  bulk = collections.OrderedDict()
  for k, v in ql.BULK_FUNCTIONS.items():
    lo, hi = ql.BULK_FUNCTIONS_ARITY_RANGE[k]
    bulk[k] = ('bulk', v, lo, hi)
  t['bulk'] = bulk
  return t


def Rule(name, kind, template, arity=None):
  """Logica rule defining T that uses the built-in once, or None."""
  if kind == 'infix':
    if name == '-':
      return 'T(r, q) :- %s, r == %s, q == %s;' % (BODY, INFIX_EXPR['-'],
                                                  UNARY['-'])
    if name in INFIX_EXPR:
      return 'T(r) :- %s, r == %s;' % (BODY, INFIX_EXPR[name])
    return None
  if kind == 'analytic':
    return 'T(r) :- %s, r == %s(%s);' % (BODY, name,
                                         ', '.join(ANALYTIC_ARGS(name)))
  if name in AGGREGATES:
    op, arg = AGGREGATES[name]
    return 'T(r? %s= %s) distinct :- %s;' % (op, arg, BODY)
  if name in UNARY:
    return 'T(r) :- %s, r == %s;' % (BODY, UNARY[name])
  if not _IDENT.match(name):
    return None
  if name in ARGS:
    args = ARGS[name]
  else:
    n = arity if arity is not None else _TemplateArity(template)
    args = [X, '2', '3', '4', '5', '6'][:n]
  return 'T(r) :- %s, r == %s(%s);' % (BODY, name, ', '.join(args))


def Items(bulk):
  """Work items for harness/c09run.CompileItem + the plan (what each engine
  owes): plan[engine] = {name: source table}."""
  t = Tables()
  items, plan, unbuildable = [], {}, {}
  for e in ENGINES:
    names = collections.OrderedDict()
    for k, v in t['common'].items():
      names[k] = ('common', v[0], v[1], None)
    for k, v in t[e].items():
      names[k] = ('dialect', v[0], v[1], None)   # the dialect entry wins
    if bulk:
      for k, v in t['bulk'].items():
        if k not in names:
          names[k] = ('bulk', 'fun', v[1], max(v[2], 0))
    for k, v in LIBRARY.items():
      if k not in names:
        names[k] = ('library', 'lib', v % BODY, None)
    plan[e] = {}
    for name, (src, kind, template, arity) in names.items():
      rule = template if kind == 'lib' else Rule(name, kind, template, arity)
      if rule is None:
        unbuildable.setdefault(name, []).append(e)
        continue
      plan[e][name] = src
      items.append({'id': 'b/%s/%s' % (name, e), 'engine': e, 'preds': ['T'],
                    'text': HEAD % e + rule + '\n', 'execute': True,
                    'meta': {'kind': 'builtin', 'name': name, 'table': src}})
  plan['unbuildable'] = unbuildable
  return items, plan


def Coverage(items, results, plan):
  by_id = {r['id']: r for r in results}
  out = {'not_exercised_no_source_form': sorted(plan['unbuildable']),
         'per_engine': {}}
  for e in ENGINES:
    ok, diag, internal = [], {}, []
    for name, src in plan[e].items():
      r = by_id.get('b/%s/%s' % (name, e))
      if r is None:
        continue
      if r['parse'] is not None:
        st, rec = r['parse']['status'], r['parse']
      else:
        rec = r['preds']['T']
        st = rec['status']
      if st == 'ok':
        ok.append(name)
      elif st == 'diag':
        diag[name] = '%s: %s' % (rec['cls'], re.sub(
            r'\x1b\[[0-9;]*m', '', rec['msg'])[:90])
      else:
        internal.append(name)
    dialect_names = [n for n, s in plan[e].items() if s == 'dialect']
    out['per_engine'][e] = {
        'planned': len(plan[e]), 'compiled_to_sql': len(ok),
        'diagnostic': len(diag), 'internal': sorted(internal),
        'dialect_table_keys': len(dialect_names),
        'dialect_table_keys_compiled': len(
            [n for n in dialect_names if n in ok]),
        'dialect_table_keys_not_compiled': {
            n: diag.get(n, 'internal') for n in dialect_names if n not in ok},
        'library_functions_compiled': [
            n for n, s in plan[e].items() if s == 'library' and n in ok],
        'common_table_keys_not_compiled': {
            n: diag.get(n, 'internal') for n, s in plan[e].items()
            if s == 'common' and n not in ok},
    }
  return out
