"""C09 workers: compile one program text under one engine with the real
pipeline, classify the outcome of every predicate, lex the emitted SQL into
SqlScope events (harness/sqllex.py) and - for SQLite - execute it (calibration
of the lexer/scoper: whatever SQLite executes must be accepted).

A work item is {'id', 'engine', 'text', 'preds': [...], 'meta': {...},
'want': {pred: [strings the script of pred must carry as literals]}}.
The result is {'id', 'engine', 'parse': None | {...}, 'preds': {p: rec}} with
  rec = {'status': 'ok' | 'diag' | 'internal', 'cls', 'msg', 'tb',
         'texts': [preamble, defines_and_exports..., main_predicate_sql] (only with
         item['keep_texts']), 'line' / 'key' / 'kinds' / 'nstr' (see Attach),
         'exec': None | 'ok' | 'error', 'exec_msg'}
"""
import collections
import contextlib
import hashlib
import io
import json
import traceback

from harness import impl
from harness import sqllex

ENGINES = ('sqlite', 'duckdb', 'psql', 'bigquery', 'trino', 'presto',
           'clickhouse', 'databricks')


def _Outcome(e):
  return 'diag' if type(e).__name__ in impl.DIAGNOSTICS else 'internal'


def _Frames(e):
  """file:function of the innermost repo frames (stable signature part)."""
  tb = traceback.extract_tb(e.__traceback__)
  return [('%s:%s' % (f.filename.split('/')[-1], f.name)) for f in tb[-3:]]


def _Strings(x):
  """All string constants of the parsed program (what the real parser read)."""
  out = set()
  if isinstance(x, dict):
    t = x.get('the_string')
    if isinstance(t, dict) and isinstance(t.get('the_string'), str):
      out.add(t['the_string'])
    for v in x.values():
      out |= _Strings(v)
  elif isinstance(x, list):
    for v in x:
      out |= _Strings(v)
  return out


def _Execute(m, texts):
  con = m['sqlite3_logica'].SqliteConnect()
  try:
    cur = con.cursor()
    for s in texts[:-1]:
      cur.executescript(s)
    cur.execute(texts[-1])
    cur.fetchall()
  finally:
    con.close()


def SharedWith(ev):
  """Shape A measured on the events: WITH tables that are defined in the WITH
  lists of two or more statements of the script and whose body reads another
  script-defined table (`use`).  Returns the sorted names."""
  per_stmt, cur, stack, depth = [], {}, [], 0
  for k, a in ev:
    if k == 'open':
      depth += 1
    elif k == 'close':
      depth -= 1
      while stack and stack[-1][1] > depth:
        stack.pop()
    elif k in ('with', 'withrec'):
      while stack and stack[-1][1] >= depth + 1:
        stack.pop()
      stack.append((a, depth + 1))
      cur.setdefault(a, False)
    elif k == 'use' and stack:
      cur[stack[0][0]] = True
      for name, _ in stack:
        cur[name] = True
    elif k == 'end':
      per_stmt.append(cur)
      cur, stack, depth = {}, [], 0
  count = collections.Counter()
  for d in per_stmt:
    for name, nested in d.items():
      if nested:
        count[name] += 1
  return sorted(n for n, c in count.items() if c >= 2)


def LongNames(ev):
  """Shape C measured on the events: the largest group of distinct WITH names /
  aliases of 55+ characters that agree on the 50 characters before their last
  one (long predicate names sharing a prefix)."""
  groups = collections.defaultdict(set)
  for k, a in ev:
    if k in ('with', 'alias') and len(a) >= 55:
      groups[(k, a[-51:-1])].add(a)
  return max([len(g) for g in groups.values()] or [0])


def Attach(rec, trace, engine, want=()):
  """Stores the trace of a compiled predicate in compact form: `line` is the
  JSON text SqlScopeTrace reads (without the id), `key` identifies equal traces
  so that each distinct one is sent to TLC once.  want: strings of the program
  that must come back as the decoding of some literal of the script."""
  rec['line'] = json.dumps({'d': engine, 'ev': trace['ev'],
                            'strs': trace['strs'],
                            'want': [[ord(c) for c in w] for w in want]},
                           separators=(',', ':'))
  rec['shared_with'] = SharedWith(trace['ev'])
  rec['long_names'] = LongNames(trace['ev'])
  rec['creates'] = sum(1 for e in trace['ev'] if e[0] == 'create')
  rec['key'] = hashlib.sha256(rec['line'].encode()).hexdigest()[:20]
  kinds = collections.Counter(e[0] for e in trace['ev'])
  rec['kinds'] = dict(kinds)
  rec['nstr'] = len(trace['strs'])


def CompileItem(item):
  m = impl.Mods()
  out = {'id': item['id'], 'engine': item['engine'], 'parse': None,
         'preds': {}}
  sink = io.StringIO()
  with contextlib.redirect_stderr(sink), contextlib.redirect_stdout(sink):
    try:
      rules = m['parse'].ParseFile(item['text'])['rule']
    except BaseException as e:  # pylint: disable=broad-except
      if isinstance(e, KeyboardInterrupt):
        raise
      out['parse'] = {'status': _Outcome(e), 'cls': type(e).__name__,
                      'msg': impl.ExcText(e)[:400], 'frames': _Frames(e),
                      'tb': traceback.format_exc()[-1500:]}
      return out
    strings = _Strings(rules)
    for p in item['preds']:
      rec = {'status': 'ok', 'exec': None}
      out['preds'][p] = rec
      try:
        program = m['universe'].LogicaProgram(rules, user_flags={})
        program.FormattedPredicateSql(p)
        ex = program.execution
        rec['texts'] = ([ex.preamble] + list(ex.defines_and_exports) +
                        [ex.main_predicate_sql])
      except BaseException as e:  # pylint: disable=broad-except
        if isinstance(e, KeyboardInterrupt):
          raise
        rec.update(status=_Outcome(e), cls=type(e).__name__,
                   msg=impl.ExcText(e)[:400], frames=_Frames(e),
                   tb=traceback.format_exc()[-1500:])
        continue
      want = (item.get('want') or {}).get(p, ())
      missing = [w for w in want if w not in strings]
      if missing:      # the harness wrote the literal wrongly: not a verdict
        rec.update(status='harness', cls='HarnessError',
                   msg='program does not contain the strings %r' % missing,
                   frames=[], tb='')
        continue
      Attach(rec, sqllex.Script(rec['texts'], item['engine']), item['engine'],
             want)
      if item['engine'] == 'sqlite' and item.get('execute', True):
        try:
          _Execute(m, rec['texts'])
          rec['exec'] = 'ok'
        except BaseException as e:  # pylint: disable=broad-except
          if isinstance(e, KeyboardInterrupt):
            raise
          rec['exec'] = 'error'
          rec['exec_msg'] = '%s: %s' % (type(e).__name__, str(e)[:300])
      if not item.get('keep_texts'):
        del rec['texts']
  return out
