"""C09 workers: compile one program text under one engine with the real
pipeline, classify the outcome of every predicate, lex the emitted SQL into
SqlScope events (harness/sqllex.py) and - for SQLite - execute it (calibration
of the lexer/scoper: whatever SQLite executes must be accepted).

A work item is {'id', 'engine', 'text', 'preds': [...], 'meta': {...}}.
The result is {'id', 'engine', 'parse': None | {...}, 'preds': {p: rec}} with
  rec = {'status': 'ok' | 'diag' | 'internal', 'cls', 'msg', 'tb',
         'texts': [defines_and_exports..., main_predicate_sql] (only with
         item['keep_texts']), 'line' / 'key' / 'kinds' / 'nstr' (see Attach),
         'exec': None | 'ok' | 'error', 'exec_msg'}
"""
import collections
import contextlib
import hashlib
import io
import json
import traceback

from harness import impl
from harness import sqllex

ENGINES = ('sqlite', 'duckdb', 'psql', 'bigquery', 'trino', 'presto',
           'clickhouse', 'databricks')


def _Outcome(e):
  return 'diag' if type(e).__name__ in impl.DIAGNOSTICS else 'internal'


def _Frames(e):
  """file:function of the innermost repo frames (stable signature part)."""
  tb = traceback.extract_tb(e.__traceback__)
  return [('%s:%s' % (f.filename.split('/')[-1], f.name)) for f in tb[-3:]]


def _Execute(m, preamble, texts):
  con = m['sqlite3_logica'].SqliteConnect()
  try:
    cur = con.cursor()
    cur.executescript(preamble)
    for s in texts[:-1]:
      cur.executescript(s)
    cur.execute(texts[-1])
    cur.fetchall()
  finally:
    con.close()


def Attach(rec, trace, engine):
  """Stores the trace of a compiled predicate in compact form: `line` is the
  JSON text SqlScopeTrace reads (without the id), `key` identifies equal traces
  so that each distinct one is sent to TLC once."""
  rec['line'] = json.dumps({'d': engine, 'ev': trace['ev'],
                            'strs': trace['strs']}, separators=(',', ':'))
  rec['key'] = hashlib.sha256(rec['line'].encode()).hexdigest()[:20]
  kinds = collections.Counter(e[0] for e in trace['ev'])
  rec['kinds'] = dict(kinds)
  rec['nstr'] = len(trace['strs'])


def CompileItem(item):
  m = impl.Mods()
  out = {'id': item['id'], 'engine': item['engine'], 'parse': None,
         'preds': {}}
  sink = io.StringIO()
  with contextlib.redirect_stderr(sink), contextlib.redirect_stdout(sink):
    try:
      rules = m['parse'].ParseFile(item['text'])['rule']
    except BaseException as e:  # pylint: disable=broad-except
      if isinstance(e, KeyboardInterrupt):
        raise
      out['parse'] = {'status': _Outcome(e), 'cls': type(e).__name__,
                      'msg': impl.ExcText(e)[:400], 'frames': _Frames(e),
                      'tb': traceback.format_exc()[-1500:]}
      return out
    for p in item['preds']:
      rec = {'status': 'ok', 'exec': None}
      out['preds'][p] = rec
      try:
        program = m['universe'].LogicaProgram(rules, user_flags={})
        program.FormattedPredicateSql(p)
        ex = program.execution
        rec['texts'] = list(ex.defines_and_exports) + [ex.main_predicate_sql]
        preamble = ex.preamble
      except BaseException as e:  # pylint: disable=broad-except
        if isinstance(e, KeyboardInterrupt):
          raise
        rec.update(status=_Outcome(e), cls=type(e).__name__,
                   msg=impl.ExcText(e)[:400], frames=_Frames(e),
                   tb=traceback.format_exc()[-1500:])
        continue
      Attach(rec, sqllex.Script(rec['texts'], item['engine']), item['engine'])
      if item['engine'] == 'sqlite' and item.get('execute', True):
        try:
          _Execute(m, preamble, rec['texts'])
          rec['exec'] = 'ok'
        except BaseException as e:  # pylint: disable=broad-except
          if isinstance(e, KeyboardInterrupt):
            raise
          rec['exec'] = 'error'
          rec['exec_msg'] = '%s: %s' % (type(e).__name__, str(e)[:300])
      if not item.get('keep_texts'):
        del rec['texts']
  return out
