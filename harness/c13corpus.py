"""C13: the corpus of programs the histories range over.

Every entry: {"idx" (1-based program index = element of History!Progs), "id",
"kind": [corpus kinds], "text", "preds", "user_flags", "import_root"}.

Corpus kinds (each must be present, checks/c13.py fails as machinery otherwise):
  integration          program of $LOGICA_REPO/integration_tests (as listed in
                       run_tests.py: predicate / flags / import root taken from
                       the RunTest call)
  engine:<dialect>     the program's @Engine (all 8 dialects)
  typechecked          compiled with type inference (psql, duckdb, clickhouse,
                       or @Engine(..., type_checking: true))
  gen                  harness.gen random core program
  rec:vertical, rec:flat, rec:iterative_auto (depth > 20), rec:iterative_forced
                       (`iterative: true`), rec:diamond
  functor              harness.genfun program with `N := F(A: B)`
  imports              program importing module files written under build/c13
  incantation          contains the experimental-syntax incantation
  toomuch              parse depends on parse.TOO_MUCH (`2*Size(x)`, ...)
  stopfile             compiled SQL names a time-stamped stop-signal file
"""
import ast
import os
import re

from harness import c13victims
from harness import common
from harness import gen
from harness import genfun
from harness import genrec
from harness import ir

INCANTATION = 'Signa inter verba conjugo, symbolum infixus evoco!'
ENGINES = ['sqlite', 'bigquery', 'psql', 'duckdb', 'presto', 'trino',
           'clickhouse', 'databricks']
TYPECHECKED_ENGINES = ('psql', 'duckdb', 'clickhouse')
REQUIRED_KINDS = (
    ['integration', 'typechecked', 'gen', 'rec:vertical', 'rec:flat',
     'rec:iterative_auto', 'rec:iterative_forced', 'rec:diamond', 'functor',
     'imports', 'incantation', 'toomuch', 'stopfile', 'iteration', 'victim',
     'fails:parse', 'fails:compile', 'fails:type', 'fails:exec',
     'importhist'] +
    ['engine:' + e for e in ENGINES])


# ---- integration tests -----------------------------------------------------------


def _Literal(node):
  try:
    return ast.literal_eval(node)
  except (ValueError, SyntaxError):
    return None


def IntegrationCalls():
  """RunTest(...) calls of integration_tests/run_tests.py with literal
  arguments: (name, src, predicate, user_flags, import_root)."""
  path = os.path.join(common.REPO, 'integration_tests', 'run_tests.py')
  with open(path) as f:
    tree = ast.parse(f.read())
  calls = []
  for node in ast.walk(tree):
    if not (isinstance(node, ast.Call) and isinstance(node.func, ast.Name) and
            node.func.id == 'RunTest'):
      continue
    kw = {k.arg: _Literal(k.value) for k in node.keywords if k.arg}
    pos = [_Literal(a) for a in node.args]
    names = ['name', 'src', 'golden', 'predicate', 'user_flags', 'import_root']
    for n, v in zip(names, pos):
      kw.setdefault(n, v)
    name = kw.get('name')
    src = kw.get('src') or (name + '.l' if isinstance(name, str) else None)
    if not isinstance(src, str):
      continue
    calls.append({'name': name or src[:-2], 'src': src,
                  'predicate': kw.get('predicate') or 'Test',
                  'user_flags': kw.get('user_flags') or {},
                  'import_root': kw.get('import_root')})
  return calls


def EngineOf(text):
  m = re.search(r'@Engine\(\s*"(\w+)"', text)
  return m.group(1) if m else 'duckdb'   # the default engine


def IntegrationEntries():
  root = os.path.join(common.REPO, 'integration_tests')
  seen = set()
  out = []
  for c in sorted(IntegrationCalls(), key=lambda c: (c['src'], c['predicate'])):
    key = (c['src'], c['predicate'])
    path = os.path.join(root, c['src'])
    if key in seen or not os.path.exists(path):
      continue
    seen.add(key)
    with open(path) as f:
      text = f.read()
    ir_ = c['import_root']
    if ir_ is None:
      import_root = '$REPO'
    elif isinstance(ir_, str):
      import_root = os.path.join('$REPO', ir_)
    else:
      import_root = [os.path.join('$REPO', r) if r else '$REPO' for r in ir_]
    engine = EngineOf(text)
    kinds = ['integration', 'engine:' + engine]
    if (engine in TYPECHECKED_ENGINES or
        re.search(r'type_checking:\s*true', text)):
      kinds.append('typechecked')
    if INCANTATION in text:
      kinds.append('incantation')
    if re.search(r'^\s*import\s', text, re.M):
      kinds.append('imports')
    if ':=' in text:
      kinds.append('functor')
    if '@Recursive' in text:
      kinds.append('recursive')
    if '@Iteration' in text:
      kinds.append('iteration')
    out.append({'id': 'it/' + c['src'][:-2] + (
        '' if c['predicate'] == 'Test' else ':' + c['predicate']),
                'kind': kinds, 'text': text, 'preds': [c['predicate']],
                'user_flags': c['user_flags'], 'import_root': import_root})
  return out


# ---- generated -------------------------------------------------------------------


def GenEntries(rng, n):
  out = []
  for k in range(n):
    prog, preds, _ = gen.Generate(rng, gen.AGG if k % 2 else gen.CORE)
    engine = ['databricks', 'sqlite', 'psql', 'duckdb', 'bigquery', 'sqlite',
              'clickhouse', 'trino', 'presto'][k % 9]
    kinds = ['gen', 'engine:' + engine]
    if engine in TYPECHECKED_ENGINES:
      kinds.append('typechecked')
    out.append({'id': 'gen/%d' % k, 'kind': kinds,
                'text': ir.RenderProgram(prog, '@Engine("%s");' % engine),
                'preds': preds[-2:], 'user_flags': {}, 'import_root': None})
  return out


# (family, depth, iterative, engine, kind)
REC_SHAPES = [
    ('tc_set', 3, False, 'sqlite', 'rec:vertical'),
    ('cycle3', 4, False, 'sqlite', 'rec:vertical'),
    ('complete3', 4, False, 'sqlite', 'rec:flat'),
    ('twocycles', 5, False, 'sqlite', 'rec:flat'),
    ('sp_min', 25, False, 'sqlite', 'rec:iterative_auto'),
    ('evenodd', 22, False, 'sqlite', 'rec:iterative_auto'),
    ('tc_set', 3, True, 'sqlite', 'rec:iterative_forced'),
    ('two_components', 2, True, 'sqlite', 'rec:iterative_forced'),
    ('counter', None, False, 'sqlite', 'rec:vertical'),
    ('tc_set', 6, False, 'duckdb', 'rec:diamond'),
    ('complete3', 5, False, 'duckdb', 'rec:diamond'),
    ('twocycles', 30, False, 'psql', 'rec:iterative_auto'),
    ('complete3', 3, False, 'bigquery', 'rec:flat'),
    ('cycle3', 2, True, 'psql', 'rec:iterative_forced'),
    ('tc_set', 4, False, 'databricks', 'rec:vertical'),
    ('evenodd', 24, False, 'databricks', 'rec:iterative_auto'),
]
# quick tier: one program per (style, engine family)
REC_QUICK = [0, 2, 4, 6, 9, 10, 11, 13, 14]


def RecEntries(rng, n):
  out = []
  for k in range(n):
    shape = (REC_QUICK[k] if n <= len(REC_QUICK) else k % len(REC_SHAPES))
    fam, depth, iterative, engine, kind = REC_SHAPES[shape]
    case = genrec.Case(fam, depth, iterative, rng, 'rec%d' % k)
    members = [m for c in case['prog']['rec'] for m in c['members']]
    kinds = [kind, 'recursive', 'engine:' + engine]
    if engine in TYPECHECKED_ENGINES:
      kinds.append('typechecked')
    out.append({'id': 'rec/%d/%s' % (k, fam), 'kind': kinds,
                'text': ir.RenderProgram(case['prog'],
                                         '@Engine("%s");' % engine),
                'preds': members[-1:], 'user_flags': {}, 'import_root': None,
                'expect_mode': kind})
  return out


def FunEntries(rng, n):
  out = []
  for k in range(n):
    case = genfun.Generate(rng, 'fun%d' % k)
    makes = [m['name'] for m in case['prog']['makes']]
    out.append({'id': 'fun/%d' % k, 'kind': ['functor', 'engine:sqlite'],
                'text': ir.RenderProgram(case['prog']),
                'preds': makes[-2:], 'user_flags': {}, 'import_root': None})
  return out


MODULES = {
    'c13lib/base.l': (
        'Helper(x) = x * 2;\n'
        'Edge(1, 2);\nEdge(2, 3);\nEdge(3, 1);\nEdge(3, 4);\n'
        'Twice(x) = Helper(x);\n'),
    'c13lib/paths.l': (
        'import c13lib.base.Edge;\n'
        'import c13lib.base.Twice;\n'
        'Helper(x) = x + 100;\n'
        'Path(a, b) distinct :- Edge(a, b);\n'
        'Path(a, c) distinct :- Path(a, b), Edge(b, c);\n'
        'Far(a) = Helper(Twice(a));\n'),
    'c13lib/stats.l': (
        'import c13lib.base.Edge;\n'
        'Degree(a) += 1 :- Edge(a, b);\n'
        'Helper(x) = x - 1;\n'
        'Total() += Helper(Degree(a)) :- Edge(a);\n'),
    'other/weights.l': (
        'Edge(10, 20);\nEdge(20, 30);\nHelper(x) = -x;\n'
        'Weight(a, b) = Helper(a) + b :- Edge(a, b);\n'),
}

# A module tree with two files of the same base name in different directories,
# a distinct-name module and a nested import: the prefix an imported file gets
# depends on which other files the SAME main program imports, so main programs
# importing different subsets / orders of them must not influence each other.
MODULES.update({
    'imptree/shop/util.l': (
        'Price(item: "apple", price: 3);\nPrice(item: "pear", price: 5);\n'
        'Helper(x) = x * 2;\nDouble(item:, d: Helper(price)) :- Price(item:, price:);\n'),
    'imptree/depot/util.l': (
        'Stock(item: "apple", n: 10);\nStock(item: "fig", n: 2);\n'
        'Helper(x) = x + 1;\nMore(item:, m: Helper(n)) :- Stock(item:, n:);\n'),
    'imptree/misc/tools.l': (
        'Tag(item: "apple", tag: "red");\nTag(item: "fig", tag: "blue");\n'),
    'imptree/depot/stock.l': (
        'import imptree.depot.util.Stock;\nimport imptree.depot.util.More;\n'
        'Level(item:, level: n + m) :- Stock(item:, n:), More(item:, m:);\n'),
})

IMPORT_HISTORY_MAINS = [
    ('imph/both', '@Engine("sqlite");\n'
     'import imptree.shop.util.Price;\nimport imptree.depot.util.Stock;\n'
     'Out(item:, v: price * n) :- Price(item:, price:), Stock(item:, n:);\n'),
    ('imph/depot_only', '@Engine("sqlite");\n'
     'import imptree.depot.util.Stock;\nimport imptree.depot.util.More;\n'
     'Out(item:, n:, m:) :- Stock(item:, n:), More(item:, m:);\n'),
    ('imph/other_order', '@Engine("sqlite");\n'
     'import imptree.depot.util.Stock;\nimport imptree.shop.util.Double;\n'
     'Out(item:, v: d + n) :- Double(item:, d:), Stock(item:, n:);\n'),
    ('imph/shop_tools', '@Engine("psql");\n'
     'import imptree.misc.tools.Tag;\nimport imptree.shop.util.Price;\n'
     'Out(item:, tag:, price:) :- Tag(item:, tag:), Price(item:, price:);\n'),
    ('imph/nested', '@Engine("sqlite");\n'
     'import imptree.depot.stock.Level;\nimport imptree.shop.util.Price;\n'
     'Out(item:, level:, price:) :- Level(item:, level:), Price(item:, price:);\n'),
]

IMPORT_MAINS = [
    ('imp/diamond', '@Engine("sqlite");\n'
     'import c13lib.paths.Path;\nimport c13lib.paths.Far;\n'
     'import c13lib.stats.Degree;\n'
     'Helper(x) = x * 1000;\n'
     'Out(a, b, d: Degree(a), f: Far(b), h: Helper(a)) :- Path(a, b);\n',
     ['Out']),
    ('imp/alias', '@Engine("psql");\n'
     'import c13lib.base.Edge as E1;\nimport other.weights.Edge as E2;\n'
     'import other.weights.Weight;\n'
     'Out(a, b, w? Max= Weight(b, c)) distinct :- E1(a, b), E2(c, d);\n',
     ['Out']),
    ('imp/rec', '@Engine("sqlite");\n'
     'import c13lib.paths.Path;\nimport c13lib.stats.Total;\n'
     '@Recursive(Reach, 24);\n'
     'Reach(a) distinct :- a == 1;\n'
     'Reach(b) distinct :- Reach(a), Path(a, b);\n'
     'Out(n? += 1, t? Max= Total()) distinct :- Reach(a);\n',
     ['Out', 'Reach']),
    ('imp/functor', '@Engine("duckdb");\n'
     'import c13lib.base.Edge;\nimport other.weights.Edge as Other;\n'
     'import c13lib.paths.Path;\n'
     'Deg(a) += 1 :- Edge(a, b);\n'
     'OtherDeg := Deg(Edge: Other);\n'
     'Out(a, Deg(a)) :- Path(a, a);\n'
     'Out(a, OtherDeg(a)) :- Other(a, b);\n',
     ['Out']),
]

# Programs whose parse depends on parse.TOO_MUCH: with the experimental syntax
# on, `2*Size(x)` is the call of a predicate named `2*Size`, `a%Abs(b)` of
# `a%Abs`, `x/Abs(y)` of `x/Abs`, and `<=>` is propositional equivalence.
TOOMUCH_PROGRAMS = [
    ('tm/size', '@Engine("sqlite");\n'
     'T(x) :- x in [[1, 2], [3]];\n'
     'Out(y) :- T(x), y == 2*Size(x);\n', ['Out']),
    ('tm/mod', '@Engine("sqlite");\n'
     'T(5); T(-7);\n'
     'Out(x, y) :- T(x), y == 17%Abs(x);\n', ['Out']),
    ('tm/div', '@Engine("psql");\n'
     'T(5.0); T(2.0);\n'
     'Out(x, y) :- T(x), y == 10/Abs(x), z == 3^Abs(x);\n', ['Out']),
    ('tm/bq', '@Engine("bigquery");\n'
     'T(x) :- x in [[1, 2], [3]];\n'
     'Out(total? += 2*ArrayLength(x)) distinct :- T(x);\n', ['Out']),
]

# the same, with the forms a reviewer's change was sensitive to: an operator of
# `* / % ^` tight against an opening parenthesis, and `<=>` (a parse error in
# the standard grammar - being rejected is part of the function)
TOOMUCH_PROGRAMS += [
    ('tm/paren', '@Engine("sqlite");\n'
     'T(x: 1); T(x: 4);\n'
     'Out(y) :- T(x:), y == 2*(x+1);\n', ['Out']),
    ('tm/paren_psql', '@Engine("psql");\n'
     'T(x: 1); T(x: 4);\n'
     'Out(y, z) :- T(x:), y == 7%(x+1), z == 3/(x+1);\n', ['Out']),
    ('tm/equiv', '@Engine("sqlite");\n'
     'T(x: 1); T(x: 4);\n'
     'Out(x) :- T(x:), (x > 0 <=> x > 1);\n', ['Out']),
]

# Programs whose compilation FAILS (stage -> expected exception class); the
# first two carry the incantation, so the parser flag is set before the failure.
FAILING_PROGRAMS = [
    ('fail/inc_syntax', 'parse', 'ParsingException', '@Engine("sqlite");\n'
     '# ' + INCANTATION + '\n'
     'T(1);\nOut(x) :- T(x) T(y);\n', ['Out'], False),
    ('fail/inc_import', 'parse', 'ParsingException', '@Engine("sqlite");\n'
     '# ' + INCANTATION + '\n'
     'import nowhere.nothing.Missing;\nOut(x) :- Missing(x);\n', ['Out'],
     False),
    ('fail/syntax', 'parse', 'ParsingException', '@Engine("psql");\n'
     'T(1);\nOut(x) :- T(x), (x > ;\n', ['Out'], False),
    ('fail/compile_sqlite', 'compile', 'RuleCompileException',
     '@Engine("sqlite");\n'
     'T(x: 7, y: 3, l: [1, 2]);\n'
     'Out(a: x % y, b: (x in l), c: Greatest(x, y), d: z) :- T(x:, y:, l:);\n',
     ['Out'], False),
    ('fail/compile_duckdb', 'compile', 'RuleCompileException',
     '@Engine("duckdb");\n'
     'T(x: 7, l: [1, 2]);\n'
     'Out(a: Size(l), b: Element(l, 0), c: Size()) :- T(x:, l:);\n',
     ['Out'], False),
    ('fail/functor', 'compile', 'FunctorError', '@Engine("sqlite");\n'
     'T(1);\nF(x) :- T(x);\nOut := F(Nothing: T);\n', ['Out'], False),
    ('fail/type_psql', 'type', 'TypeErrorCaughtException', '@Engine("psql");\n'
     'T(x: 7, y: 3, l: [1, 2]);\n'
     'Out(a: x % y, b: (x in l), c: x + "a") :- T(x:, y:, l:);\n', ['Out'],
     False),
    ('fail/exec_sqlite', 'exec', 'OperationalError', '@Engine("sqlite");\n'
     'T(x: 7, y: 3, l: [1, 2]);\n'
     'Out(a: x % y, b: (x in l), c: Greatest(x, y), d: w) :- T(x:, y:, l:), '
     'NoSuchTable(w);\n', ['Out'], True),
]

INCANTATION_PROGRAMS = [
    ('inc/comment', '@Engine("sqlite");\n'
     '# ' + INCANTATION + '\n'
     'T(1); T(2);\nOut(x + 1) :- T(x);\n', ['Out']),
    ('inc/operators', '@Engine("sqlite");\n'
     '# ' + INCANTATION + '\n'
     '`-+-`(left:, right:) = left * 10 + right;\n'
     'T(1); T(2);\nOut(x -+- 3) :- T(x);\n', ['Out']),
]

STOP_PROGRAMS = [
    ('stop/fixpoint', '@Engine("duckdb");\n'
     'E(1, 2); E(2, 3); E(3, 4);\n'
     '@Recursive(TC, -1);\n'
     'TC(a, b) distinct :- E(a, b);\n'
     'TC(a, c) distinct :- TC(a, b), E(b, c);\n'
     'Out(a, b) :- TC(a, b);\n', ['Out']),
    ('stop/explicit', '@Engine("duckdb");\n'
     'E(1, 2); E(2, 3); E(3, 4);\n'
     '@Recursive(R, 40, stop: Done);\n'
     'R(1) distinct;\n'
     'R(b) distinct :- R(a), E(a, b);\n'
     'Done() :- R(4);\n'
     'Out(a) :- R(a);\n', ['Out']),
]


def WriteModules():
  root = common.BuildDir('c13', 'modules')
  for rel, text in MODULES.items():
    path = os.path.join(root, rel)
    os.makedirs(os.path.dirname(path), exist_ok=True)
    with open(path, 'w') as f:
      f.write(text)
  return root


def Resolve(import_root):
  """Symbolic import root ($REPO = tree under test, $MODULES = the module
  files of this file written under build/c13/modules) -> absolute."""
  if import_root is None:
    return None
  if isinstance(import_root, list):
    return [Resolve(r) for r in import_root]
  return (import_root.replace('$REPO', common.REPO)
          .replace('$MODULES', os.path.join(common.BUILD, 'c13', 'modules')))


def HandEntries():
  WriteModules()
  out = []
  for id_, text, preds in IMPORT_MAINS:
    engine = EngineOf(text)
    kinds = ['imports', 'engine:' + engine]
    if engine in TYPECHECKED_ENGINES:
      kinds.append('typechecked')
    if ':=' in text:
      kinds.append('functor')
    out.append({'id': id_, 'kind': kinds, 'text': text, 'preds': preds,
                'user_flags': {}, 'import_root': '$MODULES'})
  for parser in ('PY', 'CPP'):
    for id_, text in IMPORT_HISTORY_MAINS:
      mods = sorted(set(re.findall(r'import (imptree\.\w+\.\w+)\.', text)))
      if 'imptree.depot.stock' in mods:
        mods.append('imptree.depot.util')
      engine = EngineOf(text)
      kinds = ['imports', 'importhist', 'parser:' + parser,
               'engine:' + engine]
      if engine in TYPECHECKED_ENGINES:
        kinds.append('typechecked')
      out.append({'id': id_ + ('' if parser == 'PY' else '@cpp'),
                  'kind': kinds, 'text': text, 'preds': ['Out'],
                  'user_flags': {}, 'import_root': '$MODULES',
                  'parser': parser, 'modules': sorted(set(mods))})
  for id_, text, preds in TOOMUCH_PROGRAMS:
    out.append({'id': id_, 'kind': ['toomuch', 'engine:' + EngineOf(text)],
                'text': text, 'preds': preds, 'user_flags': {},
                'import_root': None})
    if id_ == 'tm/equiv':
      # `<=>` is a syntax error of the standard grammar: F[prog] is that
      # diagnostic (and valid SQL only when the program itself has the
      # incantation)
      out[-1].update(fail_stage='parse', fail_class='ParsingException')
  for id_, text, preds in INCANTATION_PROGRAMS:
    out.append({'id': id_, 'kind': ['incantation', 'engine:' + EngineOf(text)],
                'text': text, 'preds': preds, 'user_flags': {},
                'import_root': None})
  for id_, stage, cls, text, preds, run in FAILING_PROGRAMS:
    kinds = ['failing', 'fails:' + stage, 'engine:' + EngineOf(text)]
    if INCANTATION in text:
      kinds.append('incantation')
    if EngineOf(text) in TYPECHECKED_ENGINES:
      kinds.append('typechecked')
    out.append({'id': id_, 'kind': kinds, 'text': text, 'preds': preds,
                'user_flags': {}, 'import_root': '$MODULES', 'run': run,
                'fail_stage': stage, 'fail_class': cls})
  for id_, text, preds in STOP_PROGRAMS:
    out.append({'id': id_, 'kind': ['stopfile-candidate', 'rec:diamond',
                                    'typechecked', 'engine:duckdb'],
                'text': text, 'preds': preds, 'user_flags': {},
                'import_root': None})
  return out


# ---- assembly ----------------------------------------------------------------------

QUICK = dict(integration=12, gen=2, rec=len(REC_QUICK), fun=2)
# compile for > 3 CPU-s each (measured); the quick tier leaves them out
HEAVY = ('psql_graph_coloring_test', 'psql_flow_test',
         'sqlite_shortest_path_test', 'clingo_pipeline_test', 'psql_game_test')
THOROUGH = dict(integration=10 ** 6, gen=45, rec=4 * len(REC_SHAPES), fun=30)


def PickIntegration(entries, n, rng):
  """All of them, or a sample that keeps every engine, the incantation
  program, imports, functors, recursion, iteration and type-checked ones."""
  if n >= len(entries):
    return list(entries)
  chosen = {}
  def Take(pred, k):
    pool = [e for e in entries if pred(e) and e['id'] not in chosen and
            e['id'].split('/')[-1].split(':')[0] not in HEAVY]
    for e in rng.sample(pool, min(k, len(pool))):
      chosen[e['id']] = e
  Take(lambda e: 'incantation' in e['kind'], 2)
  for eng in ENGINES:
    Take(lambda e, eng=eng: 'engine:' + eng in e['kind'],
         2 if eng in ('sqlite', 'psql', 'duckdb') else 1)
  for k in ('imports', 'functor', 'recursive', 'typechecked'):
    if not any(k in e['kind'] for e in chosen.values()):
      Take(lambda e, k=k: k in e['kind'], 1)
  Take(lambda e: 'recursive' in e['kind'] and 'engine:duckdb' in e['kind'], 1)
  Take(lambda e: True, max(0, n - len(chosen)))
  return [e for e in entries if e['id'] in chosen]


def VictimEntries():
  """One program per engine calling every built-in whose translation differs
  between dialects (derived from the tables of the tree under test)."""
  d = c13victims.Load(common.REPO, common.BUILD, common.PY)
  out = []
  for engine in sorted(d['victims']):
    v = d['victims'][engine]
    kinds = ['victim', 'engine:' + engine]
    if engine in TYPECHECKED_ENGINES:
      kinds.append('typechecked')
    out.append({'id': 'victim/' + engine, 'kind': kinds, 'text': v['text'],
                'preds': ['V'], 'user_flags': {}, 'import_root': None,
                'victim_uses': v['uses'],
                'victim_left_standard': v['left_standard']})
  return out, d


def Build(tier):
  sizes = THOROUGH if tier == 'thorough' else QUICK
  rng = common.Rng('c13-corpus')
  integ = IntegrationEntries()
  entries = PickIntegration(integ, sizes['integration'], rng)
  entries += HandEntries()
  victims, derivation = VictimEntries()
  entries += victims
  entries += RecEntries(rng, sizes['rec'])
  entries += FunEntries(rng, sizes['fun'])
  entries += GenEntries(rng, sizes['gen'])
  for k, e in enumerate(entries):
    e['idx'] = k + 1
    e['import_root_sym'] = e['import_root']
    e['import_root'] = Resolve(e['import_root'])
    e['engine'] = [k[7:] for k in e['kind'] if k.startswith('engine:')][0]
    e.setdefault('fail_stage', 'ok')
    e.setdefault('parser', 'PY')
    e.setdefault('modules', [])
    e.setdefault('run', False)
  return entries, {
      'integration_available': len(integ),
      'differing_builtins': (derivation['differing_functions'] +
                             derivation['differing_operators']),
      'victim_uses': {e: len(v['uses'])
                      for e, v in derivation['victims'].items()},
      'victim_rejected': {e: v['rejected']
                          for e, v in derivation['victims'].items()
                          if v['rejected']}}
