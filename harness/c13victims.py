"""C13: victim programs for cross-engine histories.

For every SQL dialect of $LOGICA_REPO the compiler builds its translation
tables from class-level tables of expr_translate.QL (BUILT_IN_FUNCTIONS,
BULK_FUNCTIONS, BUILT_IN_INFIX_OPERATORS) overridden by the dialect's
BuiltInFunctions() / InfixOperators().  A built-in *differs* when at least two
dialects translate it differently.  The victim program of an engine calls every
differing built-in that this engine knows and that compiles there, in ONE
predicate V - so that any leakage of another dialect's table into this
engine's compilation changes V's SQL.

Nothing is hard-coded about which built-ins differ: the list is derived from
the tables of the tree under test, in a subprocess (the harness process never
imports the compiler), and cached under build/c13/victims/<sha of the
compiler sources>.json.

  python -m harness.c13victims derive <out.json>
"""
import hashlib
import json
import os
import re
import subprocess
import sys

FACT = 'T(x: 7, y: 3, s: "ab", l: [1, 2], t: "2020-01-02");\n'
BODY = 'T(x:, y:, s:, l:, t:)'
OPERATOR_CALLS = {'%': '(x % y)', '++': '(s ++ "z")', 'in': '(x in l)'}


def _Arity(name, templates, arity_range):
  n = 0
  for t in templates:
    if t is None:
      continue
    ks = [int(k) for k in re.findall(r'\{(\d+)\}', t)]
    if ks:
      n = max(n, max(ks) + 1)
  if n:
    return n
  lo, hi = arity_range.get(name, (1, 1))
  hi = 8 if hi is None else hi
  return max(lo, min(2, hi))


def _Arg(type_text, k):
  t = type_text or ''
  if t.startswith('['):
    return 'l'
  if t.startswith('Str') or t.startswith('Sequential'):
    return ['s', '"b"', '"c"'][k % 3]
  if t.startswith('Bool'):
    return '(x > 1)'
  if t.startswith('Time'):
    return None
  return ['x', 'y', '5'][k % 3]


def _Call(name, arity, sig):
  args = []
  for k in range(arity):
    a = _Arg(sig.get(str(k)), k)
    if a is None:
      return None
    args.append(a)
  return '%s(%s)' % (name, ', '.join(args))


def _Program(engine, calls):
  fields = ', '.join('c%d: %s' % (k, c) for k, c in enumerate(calls))
  return '@Engine("%s");\n%sV(%s) :- %s;\n' % (engine, FACT, fields, BODY)


def _Compiles(args):
  engine, calls = args
  import contextlib
  import io
  from parser_py import parse
  from compiler import universe
  sink = io.StringIO()
  try:
    with contextlib.redirect_stdout(sink), contextlib.redirect_stderr(sink):
      rules = parse.ParseFile(_Program(engine, calls))['rule']
      universe.LogicaProgram(rules).FormattedPredicateSql('V')
    return True
  except BaseException as e:  # pylint: disable=broad-except
    if isinstance(e, KeyboardInterrupt):
      raise
    return False


def Derive():
  """Runs inside a subprocess with $LOGICA_REPO on sys.path."""
  import multiprocessing as mp
  from compiler import dialects
  from compiler import expr_translate
  ql = expr_translate.QL
  ql.InstallBulkFunctionsOfStandardSQL()
  std_f = dict(ql.BULK_FUNCTIONS)
  std_f.update(ql.BUILT_IN_FUNCTIONS)
  std_o = dict(ql.BUILT_IN_INFIX_OPERATORS)
  arity_range = dict(ql.BULK_FUNCTIONS_ARITY_RANGE or {})
  engines = sorted(dialects.DIALECTS)
  eff_f, eff_o = {}, {}
  for e in engines:
    d = dialects.Get(e)
    f = dict(std_f)
    f.update(d.BuiltInFunctions())
    o = dict(std_o)
    o.update(d.InfixOperators())
    eff_f[e], eff_o[e] = f, o
  names = sorted(set().union(*[set(eff_f[e]) for e in engines]))
  diff_f = [n for n in names
            if len({eff_f[e].get(n, '<absent>') for e in engines}) > 1]
  diff_o = [n for n in sorted(std_o)
            if len({eff_o[e].get(n) for e in engines}) > 1]
  try:
    from type_inference.research import types_of_builtins
    sigs = {k: {str(a): str(t) for a, t in v.items()}
            for k, v in types_of_builtins.TypesOfBultins().items()}
  except Exception:  # pylint: disable=broad-except
    sigs = {}
  cand = {}
  for e in engines:
    calls = []
    for n in diff_f:
      if eff_f[e].get(n) is None:
        continue
      arity = _Arity(n, [eff_f[x].get(n) for x in engines], arity_range)
      c = _Call(n, arity, sigs.get(n, {}))
      if c:
        calls.append((n, c))
    for n in diff_o:
      if n in OPERATOR_CALLS and eff_o[e].get(n) is not None:
        calls.append((n, OPERATOR_CALLS[n]))
    cand[e] = calls
  jobs = [(e, [c]) for e in engines for _, c in cand[e]]
  ctx = mp.get_context('fork')
  with ctx.Pool(min(16, os.cpu_count() or 1)) as pool:
    ok = pool.map(_Compiles, jobs, chunksize=4)
    good = {}
    it = iter(ok)
    for e in engines:
      good[e] = [(n, c) for (n, c) in cand[e] if next(it)]

    def Works(e, calls):
      if not calls:
        return []
      if pool.apply(_Compiles, ((e, [c for _, c in calls]),)):
        return calls
      if len(calls) == 1:
        return []
      h = len(calls) // 2
      left, right = Works(e, calls[:h]), Works(e, calls[h:])
      both = left + right
      if both and pool.apply(_Compiles, ((e, [c for _, c in both]),)):
        return both
      return left if len(left) >= len(right) else right
    final = {e: Works(e, good[e]) for e in engines}
  out = {'engines': engines, 'differing_functions': diff_f,
         'differing_operators': diff_o, 'victims': {}}
  for e in engines:
    used = [n for n, _ in final[e]]
    std = lambda n: (std_o if n in std_o else std_f).get(n, '<absent>')
    eff = lambda x, n: (eff_o[x] if n in std_o else eff_f[x]).get(n, '<absent>')
    leak_prone = {}
    for n in used:
      if eff(e, n) == std(n):
        src = [x for x in engines if eff(x, n) != std(n)]
      else:
        src = [x for x in engines if eff(x, n) != eff(e, n)]
      leak_prone[n] = src
    out['victims'][e] = {
        'text': _Program(e, [c for _, c in final[e]]),
        'uses': used,
        'left_standard': [n for n in used if eff(e, n) == std(n)],
        'differs_from': leak_prone,
        'rejected': [n for n, _ in cand[e] if n not in used]}
  return out


def SourceSha(repo):
  h = hashlib.sha256()
  for sub in ('compiler', 'type_inference', 'parser_py'):
    for root, _, files in sorted(os.walk(os.path.join(repo, sub))):
      for f in sorted(files):
        if f.endswith('.py'):
          p = os.path.join(root, f)
          h.update(p[len(repo):].encode())
          with open(p, 'rb') as fh:
            h.update(fh.read())
  with open(os.path.abspath(__file__), 'rb') as fh:
    h.update(fh.read())
  return h.hexdigest()[:20]


def Load(repo, build_dir, py):
  """Derivation result for the tree `repo` (cached by content)."""
  d = os.path.join(build_dir, 'c13', 'victims')
  os.makedirs(d, exist_ok=True)
  path = os.path.join(d, SourceSha(repo) + '.json')
  if not os.path.exists(path):
    env = dict(os.environ, LOGICA_REPO=repo, PYTHONHASHSEED='0')
    verif = os.path.dirname(os.path.dirname(os.path.abspath(__file__)))
    p = subprocess.run([py, '-m', 'harness.c13victims', 'derive', path + '.tmp'],
                       cwd=verif, env=env, capture_output=True, text=True,
                       timeout=1800)
    if p.returncode != 0:
      raise RuntimeError('victim derivation failed: %s' % p.stderr[-2000:])
    os.replace(path + '.tmp', path)
  with open(path) as f:
    return json.load(f)


if __name__ == '__main__':
  if sys.argv[1] == 'derive':
    sys.path.insert(0, os.environ.get('LOGICA_REPO', '/repo'))
    res = Derive()
    with open(sys.argv[2], 'w') as fh:
      json.dump(res, fh, indent=1)
