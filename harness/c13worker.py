"""C13: one operating-system process of a history (History!NewProcess).

Run as
    PYTHONHASHSEED=<seed> /venv/bin/python -m harness.c13worker <job.json>
with job = {"corpus": path, "out": path, "seed": n,
            "actions": [{"prog": index, "mode": "parse"|"reuse"}, ...]}.

Performs the Compile actions in order on the REAL code of $LOGICA_REPO and
writes {"events": [...], "texts": {sha: masked text}} to job["out"].

  mode "parse"   for every requested predicate: ParseFile (fresh rules object),
                 LogicaProgram, FormattedPredicateSql.
  entry["run"]   after a successful compilation the statements are executed
                 on an in-memory SQLite (failures caught and recorded in
                 "exec"; the digests stay those of the SQL text).
  mode "reuse"   the process keeps ONE parsed rules object per program; every
                 requested predicate is compiled from it (new LogicaProgram per
                 predicate, as logica.py does).  When the object has not been
                 used yet the whole pass is done twice, so a `reuse` action
                 always exercises an object that was compiled from before.

One event per (pass, predicate):
  {"prog", "pred", "mode", "used": was the rules object compiled from before,
   "sql": sha256 of the masked FormattedPredicateSql text (or of the masked
          diagnostic "ERROR <class>: <message>" when compilation is rejected),
   "aux": sha256 of the masked execution data (defines_and_exports in order,
          table_to_export_map, dependency edges as sets),
   "ord": sha256 of the same data with container orders kept (informational),
   "stop": the text contained a stop-signal file name (mask exercised),
   "raw_differs": text changed by the mask}

The only masking is MASK_RE: the time-stamped stop-signal file name.
"""
import contextlib
import hashlib
import io
import json
import os
import re
import sys
import time

# The one variation the property permits: recursion_library builds
#   '/tmp/logical_stop_%s_%s.json' % (str(time.time()).replace('.', ''), stop)
MASK_RE = re.compile(r'/tmp/logical_stop_\d+_')
MASK_TO = '/tmp/logical_stop_<T>_'


def Mask(text):
  return MASK_RE.sub(MASK_TO, text)


def Sha(text):
  return hashlib.sha256(text.encode('utf-8', 'surrogatepass')).hexdigest()


def Canon(x):
  """JSON-able copy; tuples -> lists, sets -> sorted lists, other -> repr."""
  if isinstance(x, dict):
    return {str(k): Canon(v) for k, v in x.items()}
  if isinstance(x, (list, tuple)):
    return [Canon(v) for v in x]
  if isinstance(x, (set, frozenset)):
    return sorted((Canon(v) for v in x), key=lambda v: json.dumps(v, sort_keys=True))
  if isinstance(x, (str, int, float, bool)) or x is None:
    return x
  return repr(x)


def AuxOf(execution):
  """(verdict-level text, order-keeping text) of the execution data named in
  the property: the statements (their order is the order of the SQL script),
  the per-table SQL, and the dependency edges."""
  dae = [str(s) for s in execution.defines_and_exports]
  t2e = Canon(execution.table_to_export_map)
  edges = [Canon(e) for e in execution.dependency_edges]
  dedges = [Canon(e) for e in execution.data_dependency_edges]
  key = lambda v: json.dumps(v, sort_keys=True)
  verdict = json.dumps({
      'defines_and_exports': dae,
      'table_to_export_map': t2e,
      'dependency_edges': sorted({key(e) for e in edges}),
      'data_dependency_edges': sorted({key(e) for e in dedges}),
      'preamble': str(execution.preamble),
      'main_predicate_sql': str(execution.main_predicate_sql),
  }, sort_keys=True)
  order = json.dumps({
      'table_to_export_map_keys': list(t2e),
      'dependency_edges': edges, 'data_dependency_edges': dedges})
  return verdict, order


class Process:
  def __init__(self, corpus):
    self.corpus = corpus
    self.store = {}      # prog -> parsed rules object kept by the process
    self.used = {}       # prog -> the kept object was compiled from before
    self.texts = {}
    self.events = []
    repo = os.environ.get('LOGICA_REPO', '/repo')
    if repo not in sys.path:
      sys.path.insert(0, repo)
    from parser_py import parse
    from compiler import universe
    self.parse = parse
    self.universe = universe
    # Coverage probe (informational, transparent): which unfolding style
    # Functors.RecursiveAnalysis chose.  Absent after a refactor -> no data.
    self.rec_modes = []
    try:
      from compiler import functors
      orig = functors.Functors.RecursiveAnalysis
      me = self

      def Probe(this, *a, **k):
        r = orig(this, *a, **k)
        try:
          me.rec_modes += [str(v) for v in r[0].values()]
        except Exception:  # pylint: disable=broad-except
          pass
        return r
      functors.Functors.RecursiveAnalysis = Probe
    except Exception:  # pylint: disable=broad-except
      pass

  def Parse(self, entry):
    # LOGICA_PARSER is read by every ParseFile call
    os.environ['LOGICA_PARSER'] = entry.get('parser') or 'PY'
    return self.parse.ParseFile(entry['text'],
                                import_root=entry.get('import_root'))['rule']

  def Execute(self, execution):
    """Runs the compiled statements on an in-memory SQLite the way
    `logica.py run` does; only whether it failed is recorded (the step is there
    for what a failing execution may leave behind in the process)."""
    try:
      from common import sqlite3_logica
      con = sqlite3_logica.SqliteConnect()
      cur = con.cursor()
      cur.executescript(execution.preamble)
      for st in execution.defines_and_exports:
        cur.executescript(st)
      cur.execute(execution.main_predicate_sql)
      cur.fetchall()
      con.close()
      return 'ok'
    except BaseException as e:  # pylint: disable=broad-except
      if isinstance(e, KeyboardInterrupt):
        raise
      return 'error:' + type(e).__name__

  def Keep(self, text):
    sha = Sha(text)
    self.texts.setdefault(sha, text)
    return sha

  def One(self, entry, pred, mode, rules_fn, used, fresh=True):
    sink = io.StringIO()
    aux_v = aux_o = ''
    n_iter = 0
    parse_failed = False
    rules_sha = ''
    exec_status = ''
    self.rec_modes = []
    cpu0 = time.process_time()
    with contextlib.redirect_stdout(sink), contextlib.redirect_stderr(sink):
      try:
        parse_failed = True
        rules = rules_fn()
        parse_failed = False
        if fresh:
          rules_sha = Sha(json.dumps(Canon(rules), sort_keys=True))
        program = self.universe.LogicaProgram(
            rules, user_flags=dict(entry.get('user_flags') or {}))
        raw = program.FormattedPredicateSql(pred)
        aux_v, aux_o = AuxOf(program.execution)
        status = 'ok'
        n_iter = len(getattr(program.execution, 'iterations', None) or {})
        if entry.get('run'):
          exec_status = self.Execute(program.execution)
      except BaseException as e:  # pylint: disable=broad-except
        if isinstance(e, KeyboardInterrupt):
          raise
        try:
          msg = str(e)
        except Exception:  # pylint: disable=broad-except
          msg = repr(e)
        raw = 'ERROR %s: %s' % (type(e).__name__, msg)
        status = 'error:' + type(e).__name__
    text = Mask(raw)
    aux_m = Mask(aux_v)
    self.events.append({
        'prog': entry['idx'], 'pred': pred, 'mode': mode, 'used': bool(used),
        'status': status, 'exec': exec_status, 'parse_failed': parse_failed,
        'sql': self.Keep(text), 'aux': self.Keep(aux_m), 'rul': rules_sha,
        'ord': Sha(Mask(aux_o)),
        'stop': bool(MASK_RE.search(raw) or MASK_RE.search(aux_v)),
        'raw_differs': text != raw or aux_m != aux_v,
        'iterations': n_iter, 'rec_modes': sorted(set(self.rec_modes)),
        'cpu_s': round(time.process_time() - cpu0, 3),
        'too_much': str(getattr(self.parse, 'TOO_MUCH', ''))})

  def Compile(self, prog, mode):
    entry = self.corpus[prog]
    if mode == 'parse':
      for pred in entry['preds']:
        self.One(entry, pred, mode, lambda: self.Parse(entry), False)
      return
    assert mode == 'reuse', mode
    failed = []
    if prog not in self.store:
      sink = io.StringIO()
      with contextlib.redirect_stdout(sink), contextlib.redirect_stderr(sink):
        try:
          self.store[prog] = self.Parse(entry)
        except BaseException as e:  # pylint: disable=broad-except
          if isinstance(e, KeyboardInterrupt):
            raise
          failed.append(e)
      self.used[prog] = False

    def Rules():
      if failed:
        raise failed[0]
      if prog not in self.store:
        return self.Parse(entry)   # a parse that failed before is retried
      return self.store[prog]
    # a text that does not parse leaves no rules object: one pass, retried
    passes = 1 if (self.used[prog] or failed) else 2
    for _ in range(passes):
      for pred in entry['preds']:
        self.One(entry, pred, mode, Rules, self.used[prog], fresh=False)
      if prog in self.store:
        self.used[prog] = True
    if failed:
      self.store.pop(prog, None)


def Main(job_path):
  with open(job_path) as f:
    job = json.load(f)
  with open(job['corpus']) as f:
    corpus = {e['idx']: e for e in json.load(f)['programs']}
  want_seed = str(job['seed'])
  assert os.environ.get('PYTHONHASHSEED') == want_seed, (
      'PYTHONHASHSEED=%r, job wants %s' % (os.environ.get('PYTHONHASHSEED'),
                                           want_seed))
  cwd = job.get('cwd')
  if cwd:
    os.chdir(cwd)
  proc = Process(corpus)
  for k, a in enumerate(job['actions']):
    n0 = len(proc.events)
    proc.Compile(a['prog'], a['mode'])
    for e in proc.events[n0:]:
      e['action'] = k
  out = {'seed': job['seed'], 'actions': job['actions'],
         'events': proc.events,
         'texts': proc.texts if job.get('keep_texts', True) else {},
         'hash_probe': hash('logica') & 0xffff,
         'cpu_total_s': round(time.process_time(), 3)}
  tmp = job['out'] + '.tmp'
  with open(tmp, 'w') as f:
    json.dump(out, f)
  os.replace(tmp, job['out'])


if __name__ == '__main__':
  Main(sys.argv[1])
