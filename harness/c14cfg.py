"""C14: the bounded family of workflow configurations (harness-made).

Same family as spec/ConcertinaConfigs.tla (`Configs`), enumerated in Python
because TLC's interpreter needs ~1 ms per candidate; the quick tier lets TLC
enumerate the family declaratively for a small bound and checks that the two
sets are *equal* (MCConcertinaEnum), so the enumerator is not trusted blindly.

A configuration is
  {"n": n, "req": [[...], ...]          req[a-1] = sorted list of what a reads
   "iters": [{"members": [...], "mode": "halves"|"diamond", "reps": r,
              "sig": 0|1, "raiseAt": t}, ...]}
Statement k is named "a<k>" when the real Concertina is driven, so number order
is name order (SortActions breaks ties by name).
"""
import itertools


def Dags(n, labelling='all'):
  """All acyclic requirement relations on 1..n as tuples of frozensets."""
  nodes = list(range(1, n + 1))
  res = []
  if labelling == 'all':
    others = [[b for b in nodes if b != a] for a in nodes]
    subsets = [[frozenset(c) for k in range(len(o) + 1)
                for c in itertools.combinations(o, k)] for o in others]
    for r in itertools.product(*subsets):
      if _Acyclic(r, n):
        res.append(r)
  else:
    seen = set()
    for up in (True, False):
      opts = []
      for a in nodes:
        cand = [b for b in nodes if (b < a if up else b > a)]
        opts.append([frozenset(c) for k in range(len(cand) + 1)
                     for c in itertools.combinations(cand, k)])
      for r in itertools.product(*opts):
        if r not in seen:
          seen.add(r)
          res.append(r)
  return res


def _Acyclic(r, n):
  left = set(range(1, n + 1))
  while left:
    free = [v for v in left if not (r[v - 1] & left)]
    if not free:
      return False
    left -= set(free)
  return True


def Skeletons(n, max_groups, max_len):
  """Lists of disjoint member lists; canonical order by smallest member."""
  nodes = list(range(1, n + 1))
  lists = [p for l in range(1, min(max_len, n) + 1)
           for p in itertools.permutations(nodes, l)]
  res = [()]
  if max_groups >= 1:
    res += [(m,) for m in lists]
  if max_groups >= 2:
    for g in lists:
      for h in lists:
        if min(g) < min(h) and not (set(g) & set(h)):
          res.append((g, h))
  return res


def WellFormed(n, req, groups):
  itof = {}
  pos = {}
  for i, g in enumerate(groups):
    for j, a in enumerate(g):
      itof[a] = i
      pos[a] = j
  # a member reads only earlier members of its own group
  for a in range(1, n + 1):
    if a in itof:
      for b in req[a - 1]:
        if itof.get(b) == itof[a] and pos[b] >= pos[a]:
          return False
  unit = {a: (('it', itof[a]) if a in itof else ('a', a))
          for a in range(1, n + 1)}
  edges = {}
  for b in range(1, n + 1):
    for a in req[b - 1]:
      if unit[a] != unit[b]:
        edges.setdefault(unit[b], set()).add(unit[a])
  left = set(unit.values())
  while left:
    free = [v for v in left if not (edges.get(v, set()) & left)]
    if not free:
      return False
    left -= set(free)
  return True


def Upper(g):
  m = g['members']
  return list(m) if g['mode'] == 'diamond' else list(m[:len(m) // 2])


def Lower(g):
  m = g['members']
  return [] if g['mode'] == 'diamond' else list(m[len(m) // 2:])


def External(cfg, a):
  for g in cfg['iters']:
    if a in g['members']:
      return set(cfg['req'][a - 1]) - set(g['members'])
  return set(cfg['req'][a - 1])


def LowerHalfExternal(cfg):
  for g in cfg['iters']:
    upper_ext = set()
    for u in Upper(g):
      upper_ext |= External(cfg, u)
    for l in Lower(g):
      if not External(cfg, l) <= upper_ext:
        return True
  return False


def Attributes(members, min_reps, max_reps, timing):
  l = len(members)
  modes = ['halves', 'diamond'] if l % 2 == 0 else ['diamond']
  for mode in modes:
    for reps in range(min_reps, max_reps + 1):
      for sig in (0, 1):
        times = range(0, l * max(1, reps) + 1) if (timing and sig) else [0]
        for t in times:
          yield {'members': list(members), 'mode': mode, 'reps': reps,
                 'sig': sig, 'raiseAt': t}


def Enumerate(min_n, max_n, min_reps=1, max_reps=3, max_groups=2, max_len=4,
              labelling='all', timing=True, shape='all'):
  """Generator over the family, deterministic order."""
  for n in range(min_n, max_n + 1):
    dags = Dags(n, labelling)
    skels = Skeletons(n, max_groups, max_len)
    for r in dags:
      req = [sorted(s) for s in r]
      for sk in skels:
        if not WellFormed(n, r, sk):
          continue
        for attrs in itertools.product(
            *[list(Attributes(m, min_reps, max_reps, timing)) for m in sk]):
          cfg = {'n': n, 'req': req, 'iters': [dict(a) for a in attrs]}
          if shape != 'all':
            lhe = LowerHalfExternal(cfg)
            if (shape == 'clean') == lhe:
              continue
          yield cfg


def Features(cfg):
  """Construct coverage of one configuration (for vacuity accounting)."""
  f = set()
  f.add('n=%d' % cfg['n'])
  f.add('groups=%d' % len(cfg['iters']))
  if any(cfg['req']):
    f.add('has-edges')
  for g in cfg['iters']:
    f.add('mode=' + g['mode'])
    f.add('reps=%d' % g['reps'])
    f.add('len=%d' % len(g['members']))
    f.add('signal' if g['sig'] else 'no-signal')
    if g['sig']:
      f.add('raised' if g['raiseAt'] else 'never-raised')
      # round (run number of the member) in which the signal file becomes
      # non-empty; 'pre' = it was written EMPTY in the calls before
      l = len(g['members'])
      rnd = (g['raiseAt'] + l - 1) // l
      if g.get('pre'):
        f.add('signal-file-empty-then-nonempty-round=%d' % rnd
              if g['raiseAt'] > 1 else
              ('signal-file-empty-never-raised' if not g['raiseAt']
               else 'signal-file-nonempty-at-first-write'))
      elif g['raiseAt']:
        f.add('signal-file-appears-nonempty-round=%d' % rnd)
    if any(External(cfg, a) for a in g['members']):
      f.add('group-with-external-input')
    if any(set(cfg['req'][a - 1]) & set(g['members']) for a in g['members']):
      f.add('group-internal-edge')
    ms = set(g['members'])
    if any(set(cfg['req'][b - 1]) & ms for b in range(1, cfg['n'] + 1)
           if b not in ms):
      f.add('group-feeds-outside')
  if LowerHalfExternal(cfg):
    f.add('lower-half-external')
  return f


def Key(cfg):
  return (cfg['n'], tuple(tuple(r) for r in cfg['req']),
          tuple((tuple(g['members']), g['mode'], g['reps'], g['sig'],
                 g['raiseAt']) for g in cfg['iters']))
