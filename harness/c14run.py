"""C14: driving the REAL workflow code of $LOGICA_REPO and recording what it
does, for spec/ConcertinaTrace.tla to judge.

Three sources of recorded executions (a *line* of the trace file):
  hand      a harness-made configuration run on concertina_lib.Concertina with
            a logging engine (which also raises stop signals when told to);
  compiled  a generated Logica program compiled for SQLite and executed through
            concertina_lib.ExecuteLogicaProgram with a recording sql_runner
            wired like tools/run_in_terminal.py (one line per requested subset
            of predicates; multi-predicate lines carry the tables to compare);
  stub      a program compiled for DuckDB (stop signals compile only there)
            executed through ExecuteLogicaProgram on a stub runner that does
            not execute SQL and raises the compiled stop signal at a chosen
            call.

No verdict is taken here: this module only records.  The configuration of a
compiled line is derived from the *plan* (table_to_export_map,
dependency_edges, iterations of each execution), not from Concertina's state.
"""
import contextlib
import io
import itertools
import json
import os
import shutil
import tempfile
import time

from harness import common
from harness import impl

common.UseRepo()

_mods = {}


def Mods():
  if not _mods:
    with contextlib.redirect_stdout(io.StringIO()):
      from common import concertina_lib
      from common import sqlite3_logica
      from compiler import universe
      from parser_py import parse
      from tools import run_in_terminal
    _mods.update(concertina_lib=concertina_lib, sqlite3_logica=sqlite3_logica,
                 universe=universe, parse=parse,
                 run_in_terminal=run_in_terminal)
  return _mods


class Abort(Exception):
  pass


def ExcText(e):
  s = '%s: %s' % (type(e).__name__, e)
  return 'exc ' + s[:300]


# ----------------------------------------------------------------------------
# (a) hand-made configurations on the real Concertina

def Name(a):
  return 'a%d' % a


class LoggingEngine(object):
  """engine.Run(action) as Concertina calls it; raises signals on schedule."""

  def __init__(self, cfg, sigdir, budget):
    self.events = []
    self.budget = budget
    self.itof = {}
    self.mcalls = {}
    self.sigfile = {}
    self.completion_time = {}
    for i, g in enumerate(cfg['iters']):
      self.mcalls[i + 1] = 0
      for a in g['members']:
        self.itof[a] = i + 1
      if g['sig']:
        self.sigfile[i + 1] = os.path.join(sigdir, 'stop_%d.json' % (i + 1))
    self.cfg = cfg

  def Run(self, action):
    a = action['id']
    i = self.itof.get(a)
    if i:
      self.mcalls[i] += 1
      g = self.cfg['iters'][i - 1]
      if g['sig'] and g['raiseAt'] and self.mcalls[i] == g['raiseAt']:
        with open(self.sigfile[i], 'w') as f:
          f.write('[{"stop": true}]')
        self.events.append(['raise', i])
      elif g['sig'] and g.get('pre') and (
          not g['raiseAt'] or self.mcalls[i] < g['raiseAt']):
        # the stop predicate's table is exported every round; while it is
        # empty the file is empty: not a raise (no event), no sleeping, so
        # the later non-empty write falls into the same second
        with open(self.sigfile[i], 'w') as f:
          f.write('')
    self.events.append(['run', a])
    if len(self.events) > self.budget:
      raise Abort('call budget exceeded (%d)' % self.budget)


def ConcertinaArgs(cfg, engine):
  n = cfg['n']
  read_by = set()
  for r in cfg['req']:
    read_by |= set(r)
  config = []
  for a in range(1, n + 1):
    if not cfg['req'][a - 1] and a in read_by and a not in engine.itof:
      typ = 'data'
    elif a not in read_by:
      typ = 'final'
    else:
      typ = 'intermediate'
    config.append({'name': Name(a), 'type': typ,
                   'requires': [Name(b) for b in cfg['req'][a - 1]],
                   'action': {'id': a, 'predicate': Name(a),
                              'launcher': 'none'}})
  iterations = {}
  for i, g in enumerate(cfg['iters']):
    iterations['it%d' % (i + 1)] = {
        'predicates': [Name(a) for a in g['members']],
        'repetitions': g['reps'],
        'stop_signal': engine.sigfile.get(i + 1),
        'mode': 'diamond' if g['mode'] == 'diamond' else None}
  return config, iterations


def RunHand(cfg):
  """Runs one configuration on the real Concertina; returns (events, end)."""
  m = Mods()
  sigdir = tempfile.mkdtemp(prefix='sig_', dir=common.BuildDir('c14', 'sig'))
  total = sum(len(g['members']) * max(1, g['reps']) for g in cfg['iters'])
  engine = LoggingEngine(cfg, sigdir, budget=2 * (cfg['n'] + total) + 8)
  end = 'ok'
  try:
    config, iterations = ConcertinaArgs(cfg, engine)
    with contextlib.redirect_stdout(io.StringIO()):
      c = m['concertina_lib'].Concertina(config, engine, display_mode='silent',
                                         iterations=iterations)
      c.Run()
  except BaseException as e:  # pylint: disable=broad-except
    if isinstance(e, KeyboardInterrupt):
      raise
    end = ExcText(e)
  finally:
    shutil.rmtree(sigdir, ignore_errors=True)
  return engine.events, end


def HandLine(item):
  ident, cfg = item
  ev, end = RunHand(cfg)
  return {'id': ident, 'cfg': cfg, 'ev': ev, 'end': end, 'res': []}


# ----------------------------------------------------------------------------
# (b), (c) compiled programs

def PlanToCfg(executions):
  """Abstract configuration of a list of compiled executions.

  A statement is (predicate, role): role 'main' for the SELECT whose rows are
  returned for a requested predicate, role 'table' for a table-creating
  statement.  The same predicate can be both (requested itself and an
  intermediate of another requested predicate); compiling the same table
  statement for two requests may give texts that differ in alias numbering, so
  a statement keeps every text seen for it.
  Returns (cfg, stmts, problems); stmts[k-1] = {'key', 'sqls'}.
  """
  ids = {}
  stmts = []

  def Node(e, name):
    key = (name, 'main' if name == e.main_predicate else 'table')
    if key not in ids:
      ids[key] = len(stmts) + 1
      stmts.append({'key': key, 'sqls': []})
    sql = e.table_to_export_map[name]
    if sql not in stmts[ids[key] - 1]['sqls']:
      stmts[ids[key] - 1]['sqls'].append(sql)
    return ids[key]

  req = {}
  groups = {}
  problems = []
  for e in executions:
    tmap = e.table_to_export_map
    for name in tmap:
      req.setdefault(Node(e, name), set())
    for a, b in list(e.dependency_edges):
      if a in tmap and b in tmap:
        req[Node(e, b)].add(Node(e, a))
    for it_name, it in (e.iterations or {}).items():
      members = [Node(e, p) for p in it['predicates'] if p in tmap]
      if not members:
        continue
      g = {'members': members,
           'mode': 'diamond' if it.get('mode') == 'diamond' else 'halves',
           'reps': int(it['repetitions']),
           'sig': 1 if it.get('stop_signal') else 0, 'raiseAt': 0,
           'declared': len(it['predicates']),
           'stop_signal': it.get('stop_signal')}
      if it_name in groups and groups[it_name]['members'] != members:
        problems.append('iteration %s differs between executions' % it_name)
      groups[it_name] = g
  n = len(stmts)
  cfg = {'n': n, 'req': [sorted(req.get(k, ())) for k in range(1, n + 1)],
         'iters': [groups[k] for k in sorted(groups)]}
  return cfg, stmts, problems


def MapCall(sql, stmts, preambles):
  """Statement number of a recorded sql_runner call; 0 = preamble;
  -1 = unknown."""
  best = -1
  best_len = -1
  for k, s in enumerate(stmts):
    for v in s['sqls']:
      if (sql == v or sql.endswith(v)) and len(v) > best_len:
        best, best_len = k + 1, len(v)
  if best > 0:
    return best
  if sql in preambles:
    return 0
  return -1


def TagTable(t):
  header, rows = t
  return {'cols': [str(c) for c in header],
          'rows': [[impl.Tag(v) for v in r] for r in rows]}


def Compile(text, preds):
  m = Mods()
  rules = m['parse'].ParseFile(text)['rule']
  program = m['universe'].LogicaProgram(rules)
  executions = []
  for p in preds:
    program.FormattedPredicateSql(p)
    executions.append(program.execution)
  return program, executions


def ExecuteRecorded(text, preds, pre_sql=()):
  """What tools/run_in_terminal.RunMany does, with a recording runner.

  Returns dict(cfg, stmts, ev, end, results, calls, problems)."""
  m = Mods()
  out = {'ev': [], 'end': 'ok', 'results': {}, 'problems': [], 'calls': 0}
  err = io.StringIO()
  with contextlib.redirect_stdout(err), contextlib.redirect_stderr(err):
    try:
      program, executions = Compile(text, preds)
    except BaseException as e:  # pylint: disable=broad-except
      if isinstance(e, KeyboardInterrupt):
        raise
      out.update(end='compile ' + ExcText(e), cfg=None, stmts=[])
      return out
    cfg, stmts, problems = PlanToCfg(executions)
    out.update(cfg=cfg, stmts=stmts, problems=problems)
    out['rename'] = sum(1 for e in executions for p in preds
                        if e.main_predicate != p and p in e.table_to_export_map)
    # largest number of requested predicates that are intermediates of ONE
    # other requested predicate (their renames have to accumulate)
    out['renamed_in_one'] = max(
        [sum(1 for p in preds
             if e.main_predicate != p and p in e.table_to_export_map)
         for e in executions] + [0])
    preambles = {e.preamble for e in executions}
    engine_name = program.annotations.Engine()
    connection = m['sqlite3_logica'].SqliteConnect()
    for s in pre_sql:
      connection.execute(s)
    budget = 4 * (cfg['n'] + sum(len(g['members']) * max(1, g['reps'])
                                 for g in cfg['iters'])) + 16

    def Runner(sql, engine, is_final):
      out['calls'] += 1
      k = MapCall(sql, stmts, preambles)
      if k != 0:
        out['ev'].append(['run', k if k > 0 else cfg['n'] + 1])
      if out['calls'] > budget:
        raise Abort('call budget exceeded (%d)' % budget)
      return m['run_in_terminal'].RunSQL(sql, engine, connection, is_final)

    try:
      res = m['concertina_lib'].ExecuteLogicaProgram(
          executions, Runner, engine_name, display_mode='silent')
      out['results'] = {p: TagTable(t) for p, t in res.items()}
      missing = [p for p in preds if p not in res]
      if missing:
        out['end'] = 'exc results missing for %s' % missing
    except BaseException as e:  # pylint: disable=broad-except
      if isinstance(e, KeyboardInterrupt):
        raise
      out['end'] = ExcText(e)
    finally:
      connection.close()
  return out


def PublicCfg(cfg):
  return {'n': cfg['n'], 'req': cfg['req'],
          'iters': [{k: g[k] for k in ('members', 'mode', 'reps', 'sig',
                                       'raiseAt')} for g in cfg['iters']]}


def RunSubset(task):
  """One requested subset of one program: {'case', 'sub', 'singles'} ->
  trace line ('_' holds bookkeeping that is not sent to TLC)."""
  case, sub = task['case'], task['sub']
  singles = task.get('singles') or {}
  t0 = time.time()
  r = ExecuteRecorded(case['text'], sub, case.get('pre_sql', ()))
  ident = '%s/%s' % (case['id'], '+'.join(sub))
  meta = {'case': case['id'], 'subset': sub, 'stmts': [], 'problems': [],
          'origin': case['origin'], 'text': case['text'],
          'pre_sql': list(case.get('pre_sql', ())), 'results': {}}
  if r['cfg'] is None:
    return {'id': ident, 'cfg': {'n': 0, 'req': [], 'iters': []}, 'ev': [],
            'end': r['end'], 'res': [], '_': meta}
  res = []
  if len(sub) > 1 and r['end'] == 'ok':
    for p in sub:
      if singles.get(p) is not None:
        res.append({'p': p, 'multi': r['results'][p], 'single': singles[p]})
      else:
        r['problems'].append('no single result for %s' % p)
  meta.update(stmts=['%s:%s' % s['key'] for s in r['stmts']],
              problems=r['problems'], rename=r.get('rename', 0),
              renamed_in_one=r.get('renamed_in_one', 0),
              calls=r['calls'], wall=round(time.time() - t0, 3),
              results=r['results'] if len(sub) == 1 and r['end'] == 'ok'
              else {})
  return {'id': ident, 'cfg': PublicCfg(r['cfg']), 'ev': r['ev'],
          'end': r['end'], 'res': res, '_': meta}


def RunProgramCase(case):
  """All requested subsets of one program, singletons first (their tables
  are what the multi-predicate requests are compared with)."""
  lines = []
  singles = {}
  for sub in sorted(case['subsets'], key=len):
    line = RunSubset({'case': case, 'sub': sub, 'singles': singles})
    if len(sub) == 1:
      singles.update(line['_']['results'])
    lines.append(line)
  return lines


def RunTask(task):
  """Dispatcher for one pool of heterogeneous tasks."""
  kind = task['kind']
  if kind == 'subset':
    return RunSubset(task)
  if kind == 'runmany':
    return RunManyCase(task['case'])
  if kind == 'stub':
    return RunStubCase(task['case'])
  if kind == 'hand':
    return [HandLine(item) for item in task['items']]
  raise ValueError(kind)


def RunManyCase(case):
  """The real tools/run_in_terminal.Run / RunMany on a file: tables only."""
  m = Mods()
  d = tempfile.mkdtemp(prefix='prog_', dir=common.BuildDir('c14', 'prog'))
  path = os.path.join(d, 'p.l')
  with open(path, 'w') as f:
    f.write(case['text'])
  out = {'id': case['id'] + '/RunMany', 'end': 'ok', 'res': []}
  err = io.StringIO()
  try:
    with contextlib.redirect_stdout(err), contextlib.redirect_stderr(err):
      preds = case['finals']
      multi = m['run_in_terminal'].RunMany(
          path, preds, output_format='header_rows', display_mode='silent')
      for p in preds:
        single = m['run_in_terminal'].Run(
            path, p, output_format='header_rows', display_mode='silent')
        out['res'].append({'p': p, 'multi': TagTable(multi[p]),
                           'single': TagTable(single)})
  except BaseException as e:  # pylint: disable=broad-except
    if isinstance(e, KeyboardInterrupt):
      raise
    out['end'] = ExcText(e)
  finally:
    shutil.rmtree(d, ignore_errors=True)
  return out


# ----------------------------------------------------------------------------
# DuckDB-compiled plans with stop signals on a stub runner

def RunStubCase(case):
  """case: {'id', 'text', 'pred', 'round', 'pre'}.  The stub runner executes
  nothing.  It plays the engine's part for the compiled stop signal: the
  statements that `COPY ... TO <stop file>` (re)write that file when they run:
  EMPTY in their rounds before `round` (only if `pre`, otherwise the file is
  absent until then) and NON-EMPTY in round `round` - without sleeping, so all
  writes fall into the same second.  Rounds are counted on the writers that
  are members of the signalled iteration; the event order is exact."""
  m = Mods()
  out = {'id': case['id'], 'ev': [], 'end': 'ok', 'res': []}
  err = io.StringIO()
  files = []
  with contextlib.redirect_stdout(err), contextlib.redirect_stderr(err):
    try:
      program, executions = Compile(case['text'], [case['pred']])
    except BaseException as e:  # pylint: disable=broad-except
      if isinstance(e, KeyboardInterrupt):
        raise
      out.update(end='compile ' + ExcText(e),
                 cfg={'n': 0, 'req': [], 'iters': []},
                 _={'origin': 'stub', 'text': case['text'], 'problems': []})
      return out
    cfg, stmts, problems = PlanToCfg(executions)
    preambles = {e.preamble for e in executions}
    itof = {}
    writers = {}
    for i, g in enumerate(cfg['iters']):
      for a in g['members']:
        itof[a] = i + 1
      if g['sig']:
        g['raiseAt'] = -1            # filled in when the signal is raised
        files.append(g['stop_signal'])
        for k, st in enumerate(stmts):
          if any(g['stop_signal'] in v for v in st['sqls']):
            writers[k + 1] = i + 1
    wcalls = {}
    mcalls = {}
    raised = set()
    budget = 60 + 4 * cfg['n'] + 8 * case['round'] * max(
        [len(g['members']) for g in cfg['iters']] + [1])
    state = {'calls': 0}

    def Runner(sql, engine, is_final):
      state['calls'] += 1
      k = MapCall(sql, stmts, preambles)
      if k > 0 and k in itof:
        mcalls[itof[k]] = mcalls.get(itof[k], 0) + 1
      if k > 0 and k in writers and writers[k] not in raised:
        i = writers[k]
        g = cfg['iters'][i - 1]
        if itof.get(k) == i:
          wcalls[i] = wcalls.get(i, 0) + 1
        if itof.get(k) == i and wcalls[i] == case['round']:
          with open(g['stop_signal'], 'w') as f:
            f.write('[{"logica_value": true}]')
          raised.add(i)
          g['raiseAt'] = mcalls[i]
          out['ev'].append(['raise', i])
        elif case['pre']:
          with open(g['stop_signal'], 'w') as f:
            f.write('')
      if k != 0:
        out['ev'].append(['run', k if k > 0 else cfg['n'] + 1])
      if state['calls'] > budget:
        raise Abort('call budget exceeded (%d)' % budget)
      return (['stub'], []) if is_final else None

    try:
      for f in files:
        if os.path.exists(f):
          os.unlink(f)
      res = m['concertina_lib'].ExecuteLogicaProgram(
          executions, Runner, 'duckdb', display_mode='silent')
      if case['pred'] not in res:
        out['end'] = 'exc result missing'
    except BaseException as e:  # pylint: disable=broad-except
      if isinstance(e, KeyboardInterrupt):
        raise
      out['end'] = ExcText(e)
    finally:
      for f in files:
        if f and os.path.exists(f):
          os.unlink(f)
  for g in cfg['iters']:
    if g['raiseAt'] < 0:
      g['raiseAt'] = 0
  out['cfg'] = PublicCfg(cfg)
  out['_'] = {'origin': 'stub', 'text': case['text'], 'problems': problems,
              'stmts': ['%s:%s' % s['key'] for s in stmts],
              'round': case['round'], 'pre': case['pre'],
              'pred': case['pred'], 'writers': len(writers),
              'raised': len(raised)}
  return out


# ----------------------------------------------------------------------------
# generated Logica programs (SQLite)

def GenProgram(rng, ident, origin='compiled', multi=False, orders=3,
               max_blocks=3, data=None, two_iter=False):
  """A program with @Ground intermediates and deep / iterative recursion.

  multi=True forces the shape "a requested predicate reads >= 2 @Ground-ed
  intermediates that are requested as well" (several '⤓' renames have to
  accumulate in ExecuteLogicaProgram); requests of >= 3 predicates are issued
  in `orders` different orders.

  Returns {'id', 'text', 'finals', 'subsets', 'pre_sql', 'origin', 'meta'}."""
  lines = ['@Engine("sqlite");']
  meta = {'recursive': [], 'ground': [], 'data': False}
  nodes = rng.randint(3, 5)
  edges = set()
  for x in range(1, nodes):
    edges.add((x, x + 1))
  for _ in range(rng.randint(0, 3)):
    edges.add((rng.randint(1, nodes), rng.randint(1, nodes)))
  lines.append(' '.join('E(%d,%d);' % e for e in sorted(edges)))
  if rng.random() < 0.6:
    lines.append('@Ground(E);')
    meta['ground'].append('E')
  lines.append('S(1); S(%d);' % rng.randint(2, nodes))
  pre_sql = []
  use_data = (rng.random() < 0.4) if data is None else data
  if use_data:
    pre_sql.append('CREATE TABLE T0 AS SELECT 1 AS col0 UNION ALL SELECT 2 '
                   'UNION ALL SELECT 3 UNION ALL SELECT 4')
    meta['data'] = True

  def Depth():
    kind = rng.choice(['deep', 'deep', 'iter', 'iter'] +
                      ([] if two_iter else ['plain']))
    if kind == 'deep':
      return ', %d' % rng.choice([21, 22, 25, 30, 33]), kind
    if kind == 'iter':
      return ', %d, iterative: true' % rng.choice([1, 2, 3, 4, 5, 8, 11]), kind
    return ', %d' % rng.choice([3, 6]), kind

  sources = {}          # predicate -> arity usable by consumers
  blocks = rng.sample(['tc', 'reach', 'evod', 'num'],
                      max(2, rng.randint(1, max_blocks)) if two_iter
                      else rng.randint(1, max_blocks))
  for b in blocks:
    d, kind = Depth()
    if b == 'tc':
      lines += ['@Recursive(TC%s);' % d,
                'TC(x,y) distinct :- E(x,y);',
                'TC(x,z) distinct :- TC(x,y), E(y,z);']
      sources['TC'] = 2
      meta['recursive'].append(('TC', kind))
    elif b == 'reach':
      extra = ', T0(y)' if use_data and rng.random() < 0.5 else ''
      lines += ['@Recursive(Reach%s);' % d,
                'Reach(x) distinct :- S(x);',
                'Reach(y) distinct :- Reach(x), E(x,y)%s;' % extra]
      sources['Reach'] = 1
      meta['recursive'].append(('Reach', kind))
    elif b == 'evod':
      top = rng.randint(4, 8)
      lines += ['@Recursive(Ev%s);' % d,
                'Ev(0) distinct;',
                'Od(y) distinct :- Ev(x), y = x + 1, y < %d;' % top,
                'Ev(y) distinct :- Od(x), y = x + 1, y < %d;' % top]
      sources['Ev'] = 1
      sources['Od'] = 1
      meta['recursive'].append(('Ev', kind))
    else:
      top = rng.randint(3, 7)
      lines += ['@Recursive(Num%s);' % d,
                'Num(0) distinct;',
                'Num(y) distinct :- Num(x), y = x + 1, y < %d;' % top]
      sources['Num'] = 1
      meta['recursive'].append(('Num', kind))
  sources['S'] = 1
  if use_data:
    sources['T0'] = 1

  def Atom(p, var):
    if sources[p] == 2:
      return '%s(%s, %s)' % (p, rng.choice(['1', '2', 'w' + var]), var)
    return '%s(%s)' % (p, var)

  # grounded intermediates, each reading 1-2 earlier things
  inter = []
  for k in range(rng.randint(2, 3) if multi else rng.randint(1, 3)):
    name = 'G%d' % (k + 1)
    pool = sorted(sources)
    body = [Atom(rng.choice(pool), 'x')]
    if rng.random() < 0.5:
      body.append(Atom(rng.choice(pool), 'x'))
    # a distinct constant keeps the SQL of two statements from coinciding
    # (recorded runner calls are mapped back to statements by their text)
    lines.append('%s(x) distinct :- %s, x != %d;' % (name, ', '.join(body),
                                                     100 + k))
    if rng.random() < 0.8 or (multi and k < 2):
      lines.append('@Ground(%s);' % name)
      meta['ground'].append(name)
    sources[name] = 1
    inter.append(name)
  finals = []
  nfin = rng.randint(2, 3)
  for k in range(nfin):
    name = 'Q%d' % (k + 1)
    pool = sorted(sources)
    body = [Atom(rng.choice(pool), 'x'), Atom(rng.choice(inter), 'x')]
    if multi and k == 0:
      body = [Atom('G1', 'x'), Atom('G2', 'x')] + body[:1]
    if two_iter and k == 0:      # one request needs both iterations
      body = [Atom(r[0], 'x') for r in meta['recursive'][:2]] + body[1:]
    if rng.random() < 0.5:
      body.append('x > %d' % rng.randint(0, 2))
    lines.append('%s(x, c) distinct :- %s, c = %d;' % (name, ', '.join(body),
                                                      k + 10))
    finals.append(name)
  # sometimes a requested predicate is itself an intermediate of another one
  if multi:
    finals = ['Q1', 'G1', 'G2'] + (finals[1:2] if rng.random() < 0.4 else [])
    meta['multi_rename'] = True
  elif rng.random() < 0.6:
    g = rng.choice([n for n in inter])
    finals[-1:] = [g]
    meta['final_is_intermediate'] = g
  elif rng.random() < 0.5 and meta['recursive']:
    finals[-1:] = [meta['recursive'][0][0]]
    meta['final_is_recursive'] = finals[-1]
  finals = list(dict.fromkeys(finals))
  subsets = [list(c) for k in range(1, len(finals) + 1)
             for c in itertools.combinations(finals, k)]
  # the order of a multi-predicate request is also varied
  subsets = [s if rng.random() < 0.5 else list(reversed(s)) for s in subsets]
  for sub in [x for x in subsets if len(x) >= 3]:
    perms = [list(q) for q in itertools.permutations(sub) if list(q) != sub]
    rng.shuffle(perms)
    subsets += perms[:max(0, orders - 1)]
  return {'id': ident, 'text': '\n'.join(lines) + '\n', 'finals': finals,
          'subsets': subsets, 'pre_sql': pre_sql, 'origin': origin,
          'meta': meta}


# Reproducer of the listed finding through compilation: only with the
# undocumented `ignition:` option of @Recursive (see checks/c14.notes.md).
IGNITION_PROGRAM = '''@Engine("sqlite");
@Ground(Z);
Z(1); Z(2);
Base(1);
@Recursive(A, 25, ignition: 4);
A(x) distinct :- Base(x);
B(x) distinct :- A(x);
C(x) distinct :- B(x), Z(x);
A(x) distinct :- C(x);
Q(x) :- A(x);
'''

# Reproducer through a hand-written (undocumented) @Iteration annotation.
HAND_ITERATION_PROGRAM = '''@Engine("sqlite");
@Ground(A); @Ground(B); @Ground(Z);
Z(1);
A(1);
B(x) :- A(x), Z(x);
@Iteration(I, predicates: [A, B], repetitions: 2);
Q(x) :- B(x);
'''


# The shape missed before: three predicates requested at once, two of them
# @Ground-ed intermediates of the third (every subset, every order).
THREE_REQUESTS_PROGRAM = '''@Engine("sqlite");
Base(1); Base(2); Base(3); Base(4);
@Ground(Grand);
Grand(x) distinct :- Base(x), x > 1;
@Ground(Cnt);
Cnt(x) distinct :- Base(x), x < 4;
Out(x, y) :- Grand(x), Cnt(y), y == x + 1;
'''


def ThreeRequestsCase():
  finals = ['Out', 'Grand', 'Cnt']
  subsets = [[p] for p in finals]
  subsets += [list(q) for q in itertools.permutations(finals, 2)]
  subsets += [list(q) for q in itertools.permutations(finals, 3)]
  return {'id': 'x-three-requests', 'text': THREE_REQUESTS_PROGRAM,
          'finals': finals, 'subsets': subsets, 'pre_sql': [],
          'origin': 'compiled', 'meta': {'recursive': [], 'ground':
                                         ['Grand', 'Cnt'], 'data': False,
                                         'multi_rename': True}}


CHAIN_NAMES = ['Alpha', 'Beta', 'Gamma', 'Omega']


def ChainCases(full):
  """@Ground-ed chains P1 -> P2 -> P3 -> P4 (P1 facts) with the names permuted
  over the chain positions, so that the sort order of names (SortActions'
  tie-break; '⤓' sorts last) is adversarial to the dependency order.  Requests:
  every predicate alone and every subset of size 2..3 (intermediates
  included).  full=False: the 6 orders of the first three names, requests over
  positions 2..4; full=True: all 24 orders, requests over all positions."""
  cases = []
  perms = list(itertools.permutations(CHAIN_NAMES)) if full else [
      q + (CHAIN_NAMES[3],) for q in itertools.permutations(CHAIN_NAMES[:3])]
  for n, names in enumerate(perms):
    lines = ['@Engine("sqlite");']
    for j, name in enumerate(names):
      lines.append('@Ground(%s);' % name)
      if j == 0:
        lines.append('%s(1); %s(2); %s(3); %s(4);' % ((name,) * 4))
      else:
        lines.append('%s(x) distinct :- %s(x), x != %d;' % (
            name, names[j - 1], 100 + j))
    req = list(names) if full else list(names[1:])
    subsets = [[p] for p in req]
    k = 0
    for size in (2, 3):
      for c in itertools.combinations(req, size):
        k += 1
        subsets.append(list(c) if (k + n) % 2 else list(reversed(c)))
    adversarial = [names[j] for j in range(2, 4)
                   if any(names[a] > names[b]
                          for a in range(j) for b in range(a + 1, j))]
    cases.append({'id': 'chain-%s' % ''.join(x[0] for x in names),
                  'text': '\n'.join(lines) + '\n', 'finals': req[-2:],
                  'subsets': subsets, 'pre_sql': [], 'origin': 'compiled',
                  'meta': {'recursive': [], 'ground': list(names),
                           'data': False, 'chain': list(names),
                           'adversarial': adversarial}})
  return cases


def StubPrograms():
  """DuckDB programs whose plans carry a compiled stop signal."""
  progs = []
  base = ('@Engine("duckdb");\n@Ground(E);\nE(1,2); E(2,3); E(3,4);\n'
          '%s\n'
          'TC(x,y) distinct :- E(x,y);\n'
          'TC(x,z) distinct :- TC(x,y), E(y,z);\n'
          'Done() :- TC(1,4);\n'
          '@Ground(G);\nG(x) :- TC(1,x);\n'
          'Q(x) :- G(x);\n')
  for ann in ['@Recursive(TC, -1, stop: Done);',
              '@Recursive(TC, 30, stop: Done);',
              '@Recursive(TC, 6, stop: Done);',
              '@Recursive(TC, -1);',
              '@Recursive(TC, 30, mode: "iterative", stop: Done);',
              '@Recursive(TC, 9, mode: "iterative", stop: Done);']:
    progs.append(base % ann)
  return progs
