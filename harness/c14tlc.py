"""C14: TLC launcher for many short single-worker runs.

Same command line as harness.tlc.Run, but with JVM flags that suit runs of a
few seconds (measured on a trace shard of 13k states: C1-only JIT and the
serial collector halve the CPU time: 41 s -> 21 s user).  Results are parsed by
harness.tlc.TlcResult.
"""
import os
import shutil
import subprocess
import tempfile
import time

from harness import common
from harness import tlc


def Run(module, cfg, env, coverage=False, timeout=1500, tag='c14', heap='3g'):
  meta = tempfile.mkdtemp(prefix='tlc_%s_' % tag, dir=common.BuildDir('tlc'))
  cmd = ['java', '-Xmx' + heap, '-XX:+UseSerialGC', '-XX:TieredStopAtLevel=1',
         '-cp', tlc.JAR + ':/opt/veriftools/tla/CommunityModules-deps.jar',
         'tlc2.TLC', '-config', cfg, '-metadir', meta, '-noGenerateSpecTE',
         '-workers', '1', '-deadlock']
  if coverage:
    cmd += ['-coverage', '1']
  cmd.append(module)
  e = dict(os.environ)
  e.update({k: str(v) for k, v in env.items()})
  t0 = time.time()
  try:
    p = subprocess.run(cmd, cwd=common.SPEC, env=e, capture_output=True,
                       text=True, timeout=timeout)
    rc, out = p.returncode, p.stdout + p.stderr
  except subprocess.TimeoutExpired as ex:
    rc = 124
    out = ((ex.stdout or b'').decode(errors='replace')
           if isinstance(ex.stdout, bytes) else (ex.stdout or ''))
    out += '\nTLC-TIMEOUT after %ss' % timeout
  finally:
    shutil.rmtree(meta, ignore_errors=True)
  return tlc.TlcResult(rc, out, time.time() - t0)
