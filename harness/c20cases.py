"""C20, conformance (b): programs that put every built-in and every aggregate of
the property through the real pipeline (parse -> compile -> SQLite).

Built-ins: `T(<call>)` with literal arguments, for ALL argument tuples of the
small domains below.  To keep the number of compilations affordable most calls
are packed as the rules of one predicate `T(i, <call_i>)` (one rule per call,
the row's first column names the call); every built-in is additionally run as
genuine one-rule programs `T(<call>)`.  The IR uses only nodes harness/ir.py
renders (Op, Lit, Var, Unify, Inc), so spec/LSem.tla + LValues!Builtin decide
every returned value.

Aggregates: facts are separate rules `E(v);` - permuting the statements
permutes the arrival order of the rows.  For every multiset (size <= 4 over
{null,0,1,2}, the same shape over strings, and value/argument pairs for the
Arg* family) and every distinct arrangement of it, the aggregates are evaluated
as predicate-level aggregation and as aggregating expressions; LValues!Agg
decides (ties: any permitted result).

Engine-defined corners kept OUT of the enumerated domains (R2): negative
Element index (SQLite: "JSON path error"), inexact `/`, `%` with a negative or
zero operand, ToInt64 of non-numeric text, comparison / Least / Greatest /
Sort of mixed types, Split with an empty separator, null arguments of
built-ins, `++` on lists, one-argument Least/Greatest, nulls in Array.
"""
import itertools

from harness import ir
from harness.ir import (N, S, NULL, Var, Lit, Op, ListE, AggE, Atom, Cmp, Unify,
                        Inc, Rule, Pred, Prog)

# K-best wrappers the way README.md shows them: ArgMax5(x) = ArgMaxK(x, 5);
K_WRAPPERS = ['ArgMinK%d(x) = ArgMinK(x, %d);' % (k, k) for k in (1, 2, 3)] + [
    'ArgMaxK%d(x) = ArgMaxK(x, %d);' % (k, k) for k in (1, 2, 3)]
for _k in (1, 2, 3):
  for _n in ('ArgMinK%d' % _k, 'ArgMaxK%d' % _k):
    ir.AGG_SYNTAX.setdefault(_n, _n)
    ir.AGG_FUNC.setdefault(_n, _n)
ir.AGG_FUNC.setdefault('Array', 'Array')

INTS = list(range(-2, 5))
STRS = ['', 'a', 'ab', 'b']
LIST_INTS = [0, 1, 2]
LIST_STRS = ['a', 'ab', 'b']


def Lists(items, maxlen=3):
  out = []
  for n in range(maxlen + 1):
    out += [list(t) for t in itertools.product(items, repeat=n)]
  return out


def L(items):
  """A list literal value."""
  return Lit(['l', [N(x) if isinstance(x, int) else S(x) for x in items]])


def V(x):
  if isinstance(x, list):
    return L(x)
  return Lit(N(x) if isinstance(x, int) else S(x))


# ---- built-in calls -----------------------------------------------------------
# A call is (builtin name for the counts, expression, body conjuncts, rows)
# rows = 'one' (the rule yields exactly one row) or 'many'.
def Call(name, e, body=()):
  return {'name': name, 'e': e, 'body': list(body)}


def BuiltinCalls(tier):
  thorough = tier == 'thorough'
  il = Lists(LIST_INTS)
  sl = Lists(LIST_STRS)
  il2 = Lists(LIST_INTS, 2)
  sl2 = Lists(LIST_STRS, 2)
  calls = []
  # Range: zero and negative included
  for n in INTS + ([5, 6] if thorough else []):
    calls.append(Call('Range', Op('Range', V(n))))
  # Size
  for l in il + sl:
    calls.append(Call('Size', Op('Size', V(l))))
  # Element / l[i]: index 0 .. beyond the end (no such element: null);
  # negative indices are engine-defined (SQLite: JSON path error)
  for l in il + sl:
    for i in range(0, 5):
      calls.append(Call('Element', Op('Element', V(l), V(i))))
      idx = Op('Element', Var('l'), V(i))
      idx['form'] = 'index'
      calls.append(Call('l[i]', idx, [Unify(Var('l'), V(l))]))
  # in: as a value, as a filter and as a generator
  for l in il:
    for x in (-1, 0, 1, 2, 3):
      calls.append(Call('in', Op('InList', V(x), V(l))))
  for l in sl:
    for x in STRS:
      calls.append(Call('in', Op('InList', V(x), V(l))))
  for l in il + sl:
    calls.append(Call('in(generator)', Var('x'), [Inc(Var('x'), V(l))]))
  # Sort
  for l in il + sl:
    calls.append(Call('Sort', Op('Sort', V(l))))
  # ArrayConcat
  for ls in ((il, sl2) if thorough else (il2, sl2)):
    for a in ls:
      for b in ls:
        calls.append(Call('ArrayConcat', Op('ArrayConcat', V(a), V(b))))
  # ++ on strings
  for a in STRS:
    for b in STRS:
      calls.append(Call('++', Op('++', V(a), V(b))))
  if thorough:
    for a in STRS:
      for b in STRS:
        for c in STRS:
          calls.append(Call('++', Op('++', Op('++', V(a), V(b)), V(c))))
  # Join
  for sep in ['', ',', 'ab'] + (['b'] if thorough else []):
    for l in il + sl:
      calls.append(Call('Join', Op('Join', V(l), V(sep))))
  # Split (non-empty separator)
  texts = ['', 'a,b', ',a,', 'ab'] + (['a', ',', 'a,,b', 'abab', 'b,a,b']
                                      if thorough else [])
  seps = [',', 'a', 'ab', 'b,'] + ([',,', 'abab'] if thorough else [])
  for t in texts:
    for sep in seps:
      calls.append(Call('Split', Op('Split', V(t), V(sep))))
  # ToString / ToInt64 (numeric text only)
  for n in INTS + ([10, 123, -45] if thorough else []):
    calls.append(Call('ToString', Op('ToString', V(n))))
    calls.append(Call('ToInt64', Op('ToInt64', V(n))))
  for s in STRS:
    calls.append(Call('ToString', Op('ToString', V(s))))
  for s in ['0', '4', '-2', '12'] + (['007', '-0', '100', '-31']
                                     if thorough else []):
    calls.append(Call('ToInt64', Op('ToInt64', V(s))))
  # ToString and ToInt64 are inverse on the integers
  for n in INTS:
    calls.append(Call('ToInt64', Op('ToInt64', Op('ToString', V(n)))))
  # Least / Greatest (same-type arguments, arity >= 2)
  for f in ('Least', 'Greatest'):
    for a in INTS:
      for b in INTS:
        calls.append(Call(f, Op(f, V(a), V(b))))
    for a in STRS:
      for b in STRS:
        calls.append(Call(f, Op(f, V(a), V(b))))
    tri = INTS if thorough else [-1, 0, 2]
    for a in tri:
      for b in tri:
        for c in tri:
          calls.append(Call(f, Op(f, V(a), V(b), V(c))))
  # arithmetic
  for a in INTS:
    calls.append(Call('-(unary)', Op('-', V(a))))
    for b in INTS:
      calls.append(Call('+', Op('+', V(a), V(b))))
      calls.append(Call('-', Op('-', V(a), V(b))))
      calls.append(Call('*', Op('*', V(a), V(b))))
      if b != 0 and a % abs(b) == 0:
        calls.append(Call('/', Op('/', V(a), V(b))))
      if a >= 0 and b > 0:
        calls.append(Call('%', Op('%', V(a), V(b))))
  # comparison operators
  for op in ('==', '!=', '<', '<=', '>', '>='):
    for a in INTS:
      for b in INTS:
        calls.append(Call(op, Op(op, V(a), V(b))))
    for a in STRS:
      for b in STRS:
        calls.append(Call(op, Op(op, V(a), V(b))))
  return calls


BUILTINS_REQUIRED = ['Range', 'Size', 'Element', 'l[i]', 'in', 'in(generator)',
                     'Sort', 'ArrayConcat', '++', 'Join', 'Split', 'ToString',
                     'ToInt64', 'Least', 'Greatest', '+', '-', '*', '/', '%',
                     '-(unary)', '==', '!=', '<', '<=', '>', '>=']


def BuiltinCases(tier, rng, batch=20, singles_per_op=2):
  """-> list of semrun cases; meta.calls = {builtin: number of calls}."""
  calls = BuiltinCalls(tier)
  by_op = {}
  for c in calls:
    by_op.setdefault(c['name'], []).append(c)
  cases = []
  for name in BUILTINS_REQUIRED:
    cs = by_op.get(name, [])
    # genuine one-rule programs: the first, the last and seeded picks
    pick = set([0, len(cs) - 1] + [rng.randrange(len(cs))
                                   for _ in range(singles_per_op)]) if cs else ()
    for j in sorted(pick):
      c = cs[j]
      prog = Prog([Pred('T', [Rule([('col0', c['e'], '')], c['body'])])])
      cases.append({'id': 'b1_%s_%d' % (Slug(name), j), 'prog': prog,
                    'query': ['T'],
                    'meta': {'features': ['builtin:' + name, 'one_rule'],
                             'calls': {name: 1}, 'kind': 'builtin'}})
    for s in range(0, len(cs), batch):
      part = cs[s:s + batch]
      rules = [Rule([('col0', Lit(N(i)), ''), ('col1', c['e'], '')], c['body'])
               for i, c in enumerate(part)]
      prog = Prog([Pred('T', rules)])
      cases.append({'id': 'bN_%s_%d' % (Slug(name), s), 'prog': prog,
                    'query': ['T'],
                    'meta': {'features': ['builtin:' + name, 'batched'],
                             'calls': {name: len(part)}, 'kind': 'builtin'}})
  for c in cases:
    c['text'] = ir.RenderProgram(c['prog'])
  return cases


def Slug(name):
  return ''.join(ch if ch.isalnum() else '%02x' % ord(ch) for ch in name)


# ---- aggregates ---------------------------------------------------------------
# Set is kept apart from Count / List.  (1) semrun's explanation stage first
# tests the full set of engine deviations, and "Set of nothing is []" (listed
# for C02) does not hold where "List of nothing is []" does, so a table of the
# empty input holding both could not be explained.  (2) With "List keeps nulls"
# and "Set keeps nulls" in different tables every null-holding input is
# explained by a single deviation (first, cheapest explanation round).  At most
# three deviations meet in one table (no rows: Count 0, List [], one row for
# no key).
NUM_AGGS_A = [('s', 'Sum'), ('mn', 'Min'), ('mx', 'Max'), ('av', 'Avg'),
              ('st', 'Set')]
NUM_AGGS_B = [('c', 'Count'), ('l', 'List')]
STR_AGGS_A = [('mn', 'Min'), ('mx', 'Max'), ('st', 'Set')]
STR_AGGS_B = [('c', 'Count'), ('l', 'List')]
ARG_AGGS = [('mn', 'ArgMin'), ('mn1', 'ArgMinK1'), ('mn2', 'ArgMinK2'),
            ('mn3', 'ArgMinK3'), ('mx', 'ArgMax'), ('mx1', 'ArgMaxK1'),
            ('mx2', 'ArgMaxK2'), ('mx3', 'ArgMaxK3')]
STR_OF = {0: 'a', 1: 'ab', 2: 'b'}
AGGS_REQUIRED = ['Sum', 'Min', 'Max', 'Avg', 'Count', 'List', 'Set', 'ArgMin',
                 'ArgMax', 'ArgMinK', 'ArgMaxK', 'Array']


def Facts(name, rows, width):
  """Facts as separate rules; an empty relation is a rule that never fires."""
  if rows:
    return Pred(name, [Rule([('col%d' % i, Lit(v), '') for i, v in enumerate(r)])
                       for r in rows])
  x = [Var('e%d' % i) for i in range(width)]
  body = [Inc(v, ListE([Lit(N(0))])) for v in x] + [
      Cmp(Op('>', x[0], Lit(N(5))))]
  return Pred(name, [Rule([('col%d' % i, v, '') for i, v in enumerate(x)],
                          body)])


def HeadAgg(name, src, fields):
  """Predicate-level aggregation  name(f? Agg= x, ...) distinct :- src(x)."""
  x = Var('x')
  return Pred(name, [Rule([(f, x, agg) for f, agg in fields],
                          [Atom(src, [('col0', x)])], distinct=True)])


def ExprAgg(name, src, fields):
  """Aggregating expressions  name(f: Agg{x :- src(x)}, ...)."""
  x = Var('x')
  return Pred(name, [Rule([(f, AggE(agg, x, [Atom(src, [('col0', x)])]), '')
                           for f, agg in fields])])


def Sequences(symbols, maxlen):
  """All distinct arrangements of all multisets of size <= maxlen."""
  out = []
  for n in range(maxlen + 1):
    out += [list(t) for t in itertools.product(symbols, repeat=n)]
  return out


def Multisets(symbols, n):
  return [list(t) for t in itertools.combinations_with_replacement(symbols, n)]


def Arrangements(ms):
  return sorted(set(itertools.permutations(ms)), key=repr)


def ValueSequences(tier, rng, symbols=(None, 0, 1, 2), full=3, maxlen=4,
                   picks=1):
  """thorough: every arrangement of every multiset of size <= maxlen.
  quick: every arrangement up to 2 rows and every null-free arrangement of
  `full` rows; `picks` seeded arrangements of every other multiset."""
  key = lambda v: (v is not None, v if v is not None else 0)
  if tier == 'thorough':
    return Sequences(symbols, maxlen)
  out = Sequences(symbols, full - 1)
  out += Sequences([x for x in symbols if x is not None], full)[
      len(Sequences([x for x in symbols if x is not None], full - 1)):]
  for n in range(full, maxlen + 1):
    for ms in Multisets(sorted(symbols, key=key), n):
      if n == full and None not in ms:
        continue
      arr = Arrangements(tuple(ms))
      for a in rng.sample(arr, min(picks, len(arr))):
        out.append(list(a))
  return out


def Tv(v):
  return NULL if v is None else (N(v) if isinstance(v, int) else S(v))


def ScalarAggCase(seq, strings=True):
  nums = [[Tv(v)] for v in seq]
  strs = [[Tv(None if v is None else STR_OF[v])] for v in seq]
  num_groups = [('A', NUM_AGGS_A), ('B', NUM_AGGS_B)]
  str_groups = [('C', STR_AGGS_A), ('D', STR_AGGS_B)]
  preds = [Facts('E', nums, 1)]
  query, groups = [], []
  for suffix, fields in num_groups:
    preds += [HeadAgg('P' + suffix, 'E', fields),
              ExprAgg('X' + suffix, 'E', fields)]
    query += ['P' + suffix, 'X' + suffix]
    groups.append(fields)
  if strings:
    preds.append(Facts('F', strs, 1))
    for suffix, fields in str_groups:
      preds += [HeadAgg('P' + suffix, 'F', fields),
                ExprAgg('X' + suffix, 'F', fields)]
      query += ['P' + suffix, 'X' + suffix]
      groups.append(fields)
  tag = ''.join('z' if v is None else str(v) for v in seq) or 'empty'
  counts = {}
  for fields in groups:
    for _, agg in fields:
      counts[agg] = counts.get(agg, 0) + 2     # head + expression
  feats = ['agg:' + a for a in counts] + ['agg_head', 'agg_expr',
                                          'rows%d' % len(seq)]
  if strings:
    feats.append('string_domain')
  if None in seq:
    feats.append('null_row')
  return {'id': 'ag_' + tag, 'prog': Prog(preds), 'query': query,
          'meta': {'features': feats, 'calls': counts, 'kind': 'agg',
                   'rows': len(seq), 'sig': {'c20': 'scalar_agg'}}}


def PairSequences(tier, rng):
  """Value multisets {null,0,1,2} (size <= 4) whose rows carry distinct
  arguments "a".."d" (in value order and in reverse value order), in every
  arrangement (quick: every arrangement up to 2 rows, seeded picks of 3, 4)."""
  key = lambda v: (v is not None, v if v is not None else 0)
  out = []
  for n in range(5):
    for j, ms in enumerate(Multisets(sorted((None, 0, 1, 2), key=key), n)):
      for li, labels in enumerate(('abcd', 'dcba')):
        rows = tuple((labels[i], v) for i, v in enumerate(ms))
        arr = Arrangements(rows)
        if tier != 'thorough' and n == 4:
          if li != j % 2:
            continue
          arr = rng.sample(arr, 1)
        elif tier != 'thorough' and n == 3:
          arr = rng.sample(arr, 2 if li == j % 2 else 1)
        for a in arr:
          out.append(list(a))
        if n == 0:
          break
  return out


def PairAggCase(rows, idx):
  facts = [[S(a), Tv(v)] for a, v in rows]
  a, v = Var('a'), Var('v')
  src = [Atom('G', [('col0', a), ('col1', v)])]
  fields = list(ARG_AGGS)
  null_free = all(x is not None for _, x in rows)
  head = [(f, Op('->', a, v), agg) for f, agg in fields]
  expr = [(f, AggE(agg, Op('->', a, v), src), '') for f, agg in fields]
  counts = {'ArgMin': 2, 'ArgMax': 2, 'ArgMinK': 6, 'ArgMaxK': 6}
  if null_free:
    # Array= key -> element: the arguments ordered by their value
    head.append(('ar', Op('->', v, a), 'Array'))
    expr.append(('ar', AggE('Array', Op('->', v, a), src), ''))
    counts['Array'] = 2
  preds = [Facts('G', facts, 2),
           Pred('PM', [Rule(head, src, distinct=True)]),
           Pred('XM', [Rule(expr)])]
  tag = '_'.join('%s%s' % (x, 'z' if y is None else y) for x, y in rows)
  feats = ['agg:' + c for c in counts] + ['agg_head', 'agg_expr',
                                          'rows%d' % len(rows)]
  vals = [y for _, y in rows if y is not None]
  if len(set(vals)) < len(vals):
    feats.append('ties')
  if len(vals) < len(rows):
    feats.append('null_row')
  return {'id': 'ap%d_%s' % (idx, tag or 'empty'),
          'prog': Prog(preds, ann=K_WRAPPERS), 'query': ['PM', 'XM'],
          'meta': {'features': feats, 'calls': counts, 'kind': 'agg',
                   'rows': len(rows), 'sig': {'c20': 'arg_agg'}}}


def AggCases(tier, rng):
  seqs = ValueSequences(tier, rng, picks=1)
  cases = []
  for i, s in enumerate(seqs):
    # quick: the string domain on every arrangement up to 2 rows and on every
    # sixth longer one
    strings = tier == 'thorough' or len(s) <= 2 or i % 6 == 0
    cases.append(ScalarAggCase(s, strings))
  cases += [PairAggCase(r, i) for i, r in enumerate(PairSequences(tier, rng))]
  for c in cases:
    c['text'] = ir.RenderProgram(c['prog'])
  return cases
