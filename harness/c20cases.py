"""C20, conformance (b): programs that put every built-in and every aggregate of
the property through the real pipeline (parse -> compile -> SQLite).

Built-ins: `T(<call>)` with literal arguments, for ALL argument tuples of the
small domains below.  To keep the number of compilations affordable most calls
are packed as the rules of one predicate `T(i, <call_i>)` (one rule per call,
the row's first column names the call); every built-in is additionally run as
genuine one-rule programs `T(<call>)`.  The IR uses only nodes harness/ir.py
renders (Op, Lit, Var, Unify, Inc), so spec/LSem.tla + LValues!Builtin decide
every returned value.

Aggregates: facts are separate rules `E(v);` - permuting the statements
permutes the arrival order of the rows.  For every multiset (size <= 4 over
{null,0,1,2}, the same shape over strings, and value/argument pairs for the
Arg* family) and every distinct arrangement of it, the aggregates are evaluated
as predicate-level aggregation and as aggregating expressions; LValues!Agg
decides (ties: any permitted result).

Engine-defined corners kept OUT of the enumerated domains (R2): negative
Element index (SQLite: "JSON path error"), inexact `/`, `%` with a negative or
zero operand, ToInt64 of non-numeric text, comparison / Least / Greatest /
Sort of mixed types, Split with an empty separator, null arguments of
built-ins, `++` on lists, one-argument Least/Greatest, nulls in Array.
"""
import itertools

from harness import ir
from harness.ir import (N, S, NULL, Var, Lit, Op, ListE, AggE, Atom, Cmp, Unify,
                        Inc, Rule, Pred, Prog)

# K-best wrappers the way README.md shows them: ArgMax5(x) = ArgMaxK(x, 5);
K_WRAPPERS = ['ArgMinK%d(x) = ArgMinK(x, %d);' % (k, k) for k in (1, 2, 3)] + [
    'ArgMaxK%d(x) = ArgMaxK(x, %d);' % (k, k) for k in (1, 2, 3)]
for _k in (1, 2, 3):
  for _n in ('ArgMinK%d' % _k, 'ArgMaxK%d' % _k):
    ir.AGG_SYNTAX.setdefault(_n, _n)
    ir.AGG_FUNC.setdefault(_n, _n)
ir.AGG_FUNC.setdefault('Array', 'Array')

INTS = list(range(-2, 5))
STRS = ['', 'a', 'ab', 'b']
LIST_INTS = [0, 1, 2]
LIST_STRS = ['a', 'ab', 'b']


def Lists(items, maxlen=3):
  out = []
  for n in range(maxlen + 1):
    out += [list(t) for t in itertools.product(items, repeat=n)]
  return out


def L(items):
  """A list literal value."""
  return Lit(['l', [N(x) if isinstance(x, int) else S(x) for x in items]])


def V(x):
  if isinstance(x, list):
    return L(x)
  return Lit(N(x) if isinstance(x, int) else S(x))


# ---- built-in calls -----------------------------------------------------------
# A call is (builtin name for the counts, expression, body conjuncts, rows)
# rows = 'one' (the rule yields exactly one row) or 'many'.
def Call(name, e, body=()):
  return {'name': name, 'e': e, 'body': list(body)}


def BuiltinCalls(tier):
  thorough = tier == 'thorough'
  il = Lists(LIST_INTS)
  sl = Lists(LIST_STRS)
  il2 = Lists(LIST_INTS, 2)
  sl2 = Lists(LIST_STRS, 2)
  calls = []
  # Range: zero and negative included
  for n in INTS + ([5, 6] if thorough else []):
    calls.append(Call('Range', Op('Range', V(n))))
  # Size
  for l in il + sl:
    calls.append(Call('Size', Op('Size', V(l))))
  # Element / l[i]: index 0 .. beyond the end (no such element: null);
  # negative indices are engine-defined (SQLite: JSON path error)
  for l in il + sl:
    for i in range(0, 5):
      calls.append(Call('Element', Op('Element', V(l), V(i))))
      idx = Op('Element', Var('l'), V(i))
      idx['form'] = 'index'
      calls.append(Call('l[i]', idx, [Unify(Var('l'), V(l))]))
  # in: as a value, as a filter and as a generator
  for l in il:
    for x in (-1, 0, 1, 2, 3):
      calls.append(Call('in', Op('InList', V(x), V(l))))
  for l in sl:
    for x in STRS:
      calls.append(Call('in', Op('InList', V(x), V(l))))
  for l in il + sl:
    calls.append(Call('in(generator)', Var('x'), [Inc(Var('x'), V(l))]))
  # Sort
  for l in il + sl:
    calls.append(Call('Sort', Op('Sort', V(l))))
  # ArrayConcat
  for ls in ((il, sl2) if thorough else (il2, sl2)):
    for a in ls:
      for b in ls:
        calls.append(Call('ArrayConcat', Op('ArrayConcat', V(a), V(b))))
  # ++ on strings
  for a in STRS:
    for b in STRS:
      calls.append(Call('++', Op('++', V(a), V(b))))
  if thorough:
    for a in STRS:
      for b in STRS:
        for c in STRS:
          calls.append(Call('++', Op('++', Op('++', V(a), V(b)), V(c))))
  # Join
  for sep in ['', ',', 'ab'] + (['b'] if thorough else []):
    for l in il + sl:
      calls.append(Call('Join', Op('Join', V(l), V(sep))))
  # Split (non-empty separator)
  texts = ['', 'a,b', ',a,', 'ab'] + (['a', ',', 'a,,b', 'abab', 'b,a,b']
                                      if thorough else [])
  seps = [',', 'a', 'ab', 'b,'] + ([',,', 'abab'] if thorough else [])
  for t in texts:
    for sep in seps:
      calls.append(Call('Split', Op('Split', V(t), V(sep))))
  # ToString / ToInt64 (numeric text only)
  for n in INTS + ([10, 123, -45] if thorough else []):
    calls.append(Call('ToString', Op('ToString', V(n))))
    calls.append(Call('ToInt64', Op('ToInt64', V(n))))
  for s in STRS:
    calls.append(Call('ToString', Op('ToString', V(s))))
  for s in ['0', '4', '-2', '12'] + (['007', '-0', '100', '-31']
                                     if thorough else []):
    calls.append(Call('ToInt64', Op('ToInt64', V(s))))
  # ToString and ToInt64 are inverse on the integers
  for n in INTS:
    calls.append(Call('ToInt64', Op('ToInt64', Op('ToString', V(n)))))
  # Least / Greatest (same-type arguments, arity >= 2)
  for f in ('Least', 'Greatest'):
    for a in INTS:
      for b in INTS:
        calls.append(Call(f, Op(f, V(a), V(b))))
    for a in STRS:
      for b in STRS:
        calls.append(Call(f, Op(f, V(a), V(b))))
    tri = INTS if thorough else [-1, 0, 2]
    for a in tri:
      for b in tri:
        for c in tri:
          calls.append(Call(f, Op(f, V(a), V(b), V(c))))
  # arithmetic
  for a in INTS:
    calls.append(Call('-(unary)', Op('-', V(a))))
    for b in INTS:
      calls.append(Call('+', Op('+', V(a), V(b))))
      calls.append(Call('-', Op('-', V(a), V(b))))
      calls.append(Call('*', Op('*', V(a), V(b))))
      if b != 0 and a % abs(b) == 0:
        calls.append(Call('/', Op('/', V(a), V(b))))
      if a >= 0 and b > 0:
        calls.append(Call('%', Op('%', V(a), V(b))))
  # comparison operators
  for op in ('==', '!=', '<', '<=', '>', '>='):
    for a in INTS:
      for b in INTS:
        calls.append(Call(op, Op(op, V(a), V(b))))
    for a in STRS:
      for b in STRS:
        calls.append(Call(op, Op(op, V(a), V(b))))
  return calls


BUILTINS_REQUIRED = ['Range', 'Size', 'Element', 'l[i]', 'in', 'in(generator)',
                     'Sort', 'ArrayConcat', '++', 'Join', 'Split', 'ToString',
                     'ToInt64', 'Least', 'Greatest', '+', '-', '*', '/', '%',
                     '-(unary)', '==', '!=', '<', '<=', '>', '>=']


def BuiltinCases(tier, rng, batch=20, singles_per_op=2):
  """-> list of semrun cases; meta.calls = {builtin: number of calls}."""
  calls = BuiltinCalls(tier)
  by_op = {}
  for c in calls:
    by_op.setdefault(c['name'], []).append(c)
  cases = []
  for name in BUILTINS_REQUIRED:
    cs = by_op.get(name, [])
    # genuine one-rule programs: the first, the last and seeded picks
    pick = set([0, len(cs) - 1] + [rng.randrange(len(cs))
                                   for _ in range(singles_per_op)]) if cs else ()
    for j in sorted(pick):
      c = cs[j]
      prog = Prog([Pred('T', [Rule([('col0', c['e'], '')], c['body'])])])
      cases.append({'id': 'b1_%s_%d' % (Slug(name), j), 'prog': prog,
                    'query': ['T'],
                    'meta': {'features': ['builtin:' + name, 'one_rule'],
                             'calls': {name: 1}, 'kind': 'builtin'}})
    for s in range(0, len(cs), batch):
      part = cs[s:s + batch]
      rules = [Rule([('col0', Lit(N(i)), ''), ('col1', c['e'], '')], c['body'])
               for i, c in enumerate(part)]
      prog = Prog([Pred('T', rules)])
      cases.append({'id': 'bN_%s_%d' % (Slug(name), s), 'prog': prog,
                    'query': ['T'],
                    'meta': {'features': ['builtin:' + name, 'batched'],
                             'calls': {name: len(part)}, 'kind': 'builtin'}})
  for c in cases:
    c['text'] = ir.RenderProgram(c['prog'])
  return cases


def Slug(name):
  return ''.join(ch if ch.isalnum() else '%02x' % ord(ch) for ch in name)


# ---- aggregates ---------------------------------------------------------------
# Set is kept apart from Count / List.  (1) semrun's explanation stage first
# tests the full set of engine deviations, and "Set of nothing is []" (listed
# for C02) does not hold where "List of nothing is []" does, so a table of the
# empty input holding both could not be explained.  (2) With "List keeps nulls"
# and "Set keeps nulls" in different tables every null-holding input is
# explained by a single deviation (first, cheapest explanation round).  At most
# three deviations meet in one table (no rows: Count 0, List [], one row for
# no key).
NUM_AGGS_A = [('s', 'Sum'), ('mn', 'Min'), ('mx', 'Max'), ('av', 'Avg'),
              ('st', 'Set')]
NUM_AGGS_B = [('c', 'Count'), ('l', 'List')]
STR_AGGS_A = [('mn', 'Min'), ('mx', 'Max'), ('st', 'Set')]
STR_AGGS_B = [('c', 'Count'), ('l', 'List')]
ARG_AGGS = [('mn', 'ArgMin'), ('mn1', 'ArgMinK1'), ('mn2', 'ArgMinK2'),
            ('mn3', 'ArgMinK3'), ('mx', 'ArgMax'), ('mx1', 'ArgMaxK1'),
            ('mx2', 'ArgMaxK2'), ('mx3', 'ArgMaxK3')]
STR_OF = {0: 'a', 1: 'ab', 2: 'b'}
AGGS_REQUIRED = ['Sum', 'Min', 'Max', 'Avg', 'Count', 'List', 'Set', 'ArgMin',
                 'ArgMax', 'ArgMinK', 'ArgMaxK', 'Array']


def Facts(name, rows, width):
  """Facts as separate rules; an empty relation is a rule that never fires."""
  if rows:
    return Pred(name, [Rule([('col%d' % i, Lit(v), '') for i, v in enumerate(r)])
                       for r in rows])
  x = [Var('e%d' % i) for i in range(width)]
  body = [Inc(v, ListE([Lit(N(0))])) for v in x] + [
      Cmp(Op('>', x[0], Lit(N(5))))]
  return Pred(name, [Rule([('col%d' % i, v, '') for i, v in enumerate(x)],
                          body)])


def HeadAgg(name, src, fields):
  """Predicate-level aggregation  name(f? Agg= x, ...) distinct :- src(x)."""
  x = Var('x')
  return Pred(name, [Rule([(f, x, agg) for f, agg in fields],
                          [Atom(src, [('col0', x)])], distinct=True)])


def ExprAgg(name, src, fields):
  """Aggregating expressions  name(f: Agg{x :- src(x)}, ...)."""
  x = Var('x')
  return Pred(name, [Rule([(f, AggE(agg, x, [Atom(src, [('col0', x)])]), '')
                           for f, agg in fields])])


def Sequences(symbols, maxlen):
  """All distinct arrangements of all multisets of size <= maxlen."""
  out = []
  for n in range(maxlen + 1):
    out += [list(t) for t in itertools.product(symbols, repeat=n)]
  return out


def Multisets(symbols, n):
  return [list(t) for t in itertools.combinations_with_replacement(symbols, n)]


def Arrangements(ms):
  return sorted(set(itertools.permutations(ms)), key=repr)


def ValueSequences(tier, rng, symbols=(None, 0, 1, 2), full=3, maxlen=4,
                   picks=1):
  """thorough: every arrangement of every multiset of size <= maxlen.
  quick: every arrangement up to 2 rows and every null-free arrangement of
  `full` rows; `picks` seeded arrangements of every other multiset."""
  key = lambda v: (v is not None, v if v is not None else 0)
  if tier == 'thorough':
    return Sequences(symbols, maxlen)
  out = Sequences(symbols, full - 1)
  out += Sequences([x for x in symbols if x is not None], full)[
      len(Sequences([x for x in symbols if x is not None], full - 1)):]
  for n in range(full, maxlen + 1):
    for ms in Multisets(sorted(symbols, key=key), n):
      if n == full and None not in ms:
        continue
      arr = Arrangements(tuple(ms))
      for a in rng.sample(arr, min(picks, len(arr))):
        out.append(list(a))
  return out


def Tv(v):
  return NULL if v is None else (N(v) if isinstance(v, int) else S(v))


def ScalarAggCase(seq, strings=True):
  nums = [[Tv(v)] for v in seq]
  strs = [[Tv(None if v is None else STR_OF[v])] for v in seq]
  num_groups = [('A', NUM_AGGS_A), ('B', NUM_AGGS_B)]
  str_groups = [('C', STR_AGGS_A), ('D', STR_AGGS_B)]
  preds = [Facts('E', nums, 1)]
  query, groups = [], []
  for suffix, fields in num_groups:
    preds += [HeadAgg('P' + suffix, 'E', fields),
              ExprAgg('X' + suffix, 'E', fields)]
    query += ['P' + suffix, 'X' + suffix]
    groups.append(fields)
  if strings:
    preds.append(Facts('F', strs, 1))
    for suffix, fields in str_groups:
      preds += [HeadAgg('P' + suffix, 'F', fields),
                ExprAgg('X' + suffix, 'F', fields)]
      query += ['P' + suffix, 'X' + suffix]
      groups.append(fields)
  tag = ''.join('z' if v is None else str(v) for v in seq) or 'empty'
  counts = {}
  for fields in groups:
    for _, agg in fields:
      counts[agg] = counts.get(agg, 0) + 2     # head + expression
  feats = ['agg:' + a for a in counts] + ['agg_head', 'agg_expr',
                                          'rows%d' % len(seq)]
  if strings:
    feats.append('string_domain')
  if None in seq:
    feats.append('null_row')
  return {'id': 'ag_' + tag, 'prog': Prog(preds), 'query': query,
          'meta': {'features': feats, 'calls': counts, 'kind': 'agg',
                   'rows': len(seq), 'sig': {'c20': 'scalar_agg'}}}


def PairSequences(tier, rng):
  """Value multisets {null,0,1,2} (size <= 4) whose rows carry distinct
  arguments "a".."d" (in value order and in reverse value order), in every
  arrangement (quick: every arrangement up to 2 rows, seeded picks of 3, 4)."""
  key = lambda v: (v is not None, v if v is not None else 0)
  out = []
  for n in range(5):
    for j, ms in enumerate(Multisets(sorted((None, 0, 1, 2), key=key), n)):
      for li, labels in enumerate(('abcd', 'dcba')):
        rows = tuple((labels[i], v) for i, v in enumerate(ms))
        arr = Arrangements(rows)
        if tier != 'thorough' and n == 4:
          if li != j % 2:
            continue
          arr = rng.sample(arr, 1)
        elif tier != 'thorough' and n == 3:
          arr = rng.sample(arr, 2 if li == j % 2 else 1)
        for a in arr:
          out.append(list(a))
        if n == 0:
          break
  return out


def PairAggCase(rows, idx):
  facts = [[S(a), Tv(v)] for a, v in rows]
  a, v = Var('a'), Var('v')
  src = [Atom('G', [('col0', a), ('col1', v)])]
  fields = list(ARG_AGGS)
  null_free = all(x is not None for _, x in rows)
  head = [(f, Op('->', a, v), agg) for f, agg in fields]
  expr = [(f, AggE(agg, Op('->', a, v), src), '') for f, agg in fields]
  counts = {'ArgMin': 2, 'ArgMax': 2, 'ArgMinK': 6, 'ArgMaxK': 6}
  if null_free:
    # Array= key -> element: the arguments ordered by their value
    head.append(('ar', Op('->', v, a), 'Array'))
    expr.append(('ar', AggE('Array', Op('->', v, a), src), ''))
    counts['Array'] = 2
  preds = [Facts('G', facts, 2),
           Pred('PM', [Rule(head, src, distinct=True)]),
           Pred('XM', [Rule(expr)])]
  tag = '_'.join('%s%s' % (x, 'z' if y is None else y) for x, y in rows)
  feats = ['agg:' + c for c in counts] + ['agg_head', 'agg_expr',
                                          'rows%d' % len(rows)]
  vals = [y for _, y in rows if y is not None]
  if len(set(vals)) < len(vals):
    feats.append('ties')
  if len(vals) < len(rows):
    feats.append('null_row')
  return {'id': 'ap%d_%s' % (idx, tag or 'empty'),
          'prog': Prog(preds, ann=K_WRAPPERS), 'query': ['PM', 'XM'],
          'meta': {'features': feats, 'calls': counts, 'kind': 'agg',
                   'rows': len(rows), 'sig': {'c20': 'arg_agg'}}}


def AggCases(tier, rng):
  seqs = ValueSequences(tier, rng, picks=1)
  cases = []
  for i, s in enumerate(seqs):
    # quick: the string domain on every arrangement up to 2 rows and on every
    # sixth longer one
    strings = tier == 'thorough' or len(s) <= 2 or i % 6 == 0
    cases.append(ScalarAggCase(s, strings))
  cases += [PairAggCase(r, i) for i, r in enumerate(PairSequences(tier, rng))]
  for c in cases:
    c['text'] = ir.RenderProgram(c['prog'])
  return cases


# ---- composite values re-embedded (nested lists / records) ----------------------
# A built-in that returns or passes through a composite value must hand over
# the VALUE, not its JSON text: the result is put inside a list literal, a
# record literal and a List= aggregate and compared as a structured value.
def TV(x):
  """Python value -> tagged value (dict = record, list = list, None = null)."""
  if x is None:
    return NULL
  if isinstance(x, dict):
    return ['r', [[k, TV(v)] for k, v in sorted(x.items())]]
  if isinstance(x, list):
    return ['l', [TV(v) for v in x]]
  return N(x) if isinstance(x, int) else S(x)


NESTED_LISTS = [[[1, 2], [3]], [[], [0]], [['a'], ['ab', 'b']],
                [{'a': 1}, {'a': 2}], [{'a': [1]}, {'a': [2, 3]}]]
NESTED_RECS = [{'f': [1, 2], 'h': 0}, {'f': [], 'h': 1}, {'f': {'k': [1]}, 'h': 2},
               {'f': [[1], [2, 3]], 'h': 3}]


def Embeddings(x):
  return [('in_list', ListE([x])), ('in_record', ir.RecE([('a', x)])),
          ('in_record_in_list', ListE([ir.RecE([('a', x)]), ir.RecE([('a', x)])]))]


def NestedCalls():
  """(name, expression, body) whose value is composite and structured on the
  engine's own JSON functions."""
  out = []
  for nv in NESTED_LISTS:
    for i in range(len(nv)):
      out.append(('Element', Op('Element', Lit(TV(nv)), V(i)), []))
      idx = Op('Element', Var('ll'), V(i))
      idx['form'] = 'index'
      out.append(('l[i]', idx, [Unify(Var('ll'), Lit(TV(nv)))]))
  for rv in NESTED_RECS:
    out.append(('r.f', ir.Sub(Var('r'), 'f'), [Unify(Var('r'), Lit(TV(rv)))]))
  for n in (0, 2):
    out.append(('Range', Op('Range', V(n)), []))
  return out


# UDF results (Python functions returning JSON text) lose their structure when
# re-embedded on the unchanged tree: known findings F-C20-udf-result-reembedded
# and F-C20-list-column-aggregated, one reproducer program each.
def UdfReembedCases():
  a, v, x = Var('a'), Var('v'), Var('x')
  e = [Atom('E', [('col0', x)])]
  g = [Atom('G', [('col0', a), ('col1', v)])]
  E = Facts('E', [[N(1)], [N(2)], [N(1)]], 1)
  G = Facts('G', [[S('a'), N(1)], [S('b'), N(0)]], 2)
  EL = Facts('E', [[TV([1])], [TV([2, 3])]], 1)
  items = [
      ('ArrayConcat', [], ListE([Op('ArrayConcat', V([1]), V([2]))])),
      ('ArrayConcat', [], ir.RecE([('a', Op('ArrayConcat', Lit(TV([[1]])),
                                            Lit(TV([[2]]))))])),
      ('Sort', [], ListE([Op('Sort', V([2, 1]))])),
      ('Sort', [], ir.RecE([('a', Op('Sort', V(['b', 'a'])))])),
      ('Split', [], ListE([Op('Split', V('a,b'), V(','))])),
      ('Set', [E], ir.RecE([('a', AggE('Set', x, e))])),
      ('Array', [G], ListE([AggE('Array', Op('->', v, a), g)])),
      ('ArgMinK', [G], ListE([AggE('ArgMinK2', Op('->', a, v), g)])),
      ('ArgMaxK', [G], ir.RecE([('a', AggE('ArgMaxK2', Op('->', a, v), g))])),
      ('List(column)', [EL], AggE('List', x, e)),
      ('Set(column)', [EL], AggE('Set', x, e)),
  ]
  cases = []
  for k, (via, preds, expr) in enumerate(items):
    prog = Prog(preds + [Pred('T', [Rule([('col0', expr, '')])])],
                ann=K_WRAPPERS if via.startswith('Arg') else ())
    cases.append({'id': 'nu%d_%s' % (k, Slug(via)), 'prog': prog, 'query': ['T'],
                  'meta': {'features': ['nested_reembed_udf'], 'calls': {},
                           'kind': 'nested',
                           'sig': {'c20': 'reembed_udf', 'via': via}}})
  return cases


def NestedCases(batch=20):
  cases = []
  rules = []
  for name, x, body in NestedCalls():
    for ename, emb in Embeddings(x):
      rules.append((name, ename, emb, body))
  # a few genuine one-rule programs
  for j in (0, 1, 2, len(rules) // 2, len(rules) - 1):
    name, ename, emb, body = rules[j]
    cases.append({'id': 'ne1_%d' % j,
                  'prog': Prog([Pred('T', [Rule([('col0', emb, '')], body)])]),
                  'query': ['T'],
                  'meta': {'features': ['nested_reembed', 'nested:' + ename,
                                        'nested_via:' + name], 'calls': {},
                           'kind': 'nested'}})
  for s in range(0, len(rules), batch):
    part = rules[s:s + batch]
    prs = [Rule([('col0', Lit(N(i)), ''), ('col1', emb, '')], body)
           for i, (_, _, emb, body) in enumerate(part)]
    feats = sorted(set(['nested_reembed'] + ['nested:' + r[1] for r in part] +
                       ['nested_via:' + r[0] for r in part]))
    cases.append({'id': 'neN_%d' % s, 'prog': Prog([Pred('T', prs)]),
                  'query': ['T'],
                  'meta': {'features': feats, 'calls': {}, 'kind': 'nested'}})
  # List= / List{} over extracted composite elements
  i, ll, r = Var('i'), Var('ll'), Var('r')
  for k, nv in enumerate(NESTED_LISTS):
    L = Facts('L', [[N(j), TV(nv)] for j in range(len(nv))], 2)
    src = [Atom('L', [('col0', i), ('col1', ll)])]
    for form in ('index', 'call'):
      el = Op('Element', ll, i)
      if form == 'index':
        el['form'] = 'index'
      cases.append({'id': 'nl%d_%s' % (k, form), 'prog': Prog([
          L, Pred('PL', [Rule([('r', el, 'List')], src, distinct=True)])]),
                    'query': ['PL'],
                    'meta': {'features': ['nested_reembed', 'nested:in_List_agg'],
                             'calls': {}, 'kind': 'nested'}})
      if form == 'index' and k in (0, 3):
        # known finding: through the sub-select of an aggregating expression
        # the extracted element arrives as text
        cases.append({'id': 'nx%d' % k, 'prog': Prog([
            L, Pred('XL', [Rule([('r', AggE('List', el, src), '')])])]),
                      'query': ['XL'],
                      'meta': {'features': ['nested_reembed_udf'], 'calls': {},
                               'kind': 'nested',
                               'sig': {'c20': 'reembed_udf',
                                       'via': 'List(expression)'}}})
  R = Facts('L', [[N(j), TV(rv)] for j, rv in enumerate(NESTED_RECS)], 2)
  src = [Atom('L', [('col0', i), ('col1', r)])]
  cases.append({'id': 'nl_rec', 'prog': Prog([
      R, Pred('PL', [Rule([('r', ir.Sub(r, 'f'), 'List')], src, distinct=True)])]),
                'query': ['PL'],
                'meta': {'features': ['nested_reembed', 'nested:in_List_agg',
                                      'nested_via:r.f'], 'calls': {},
                         'kind': 'nested'}})
  cases += UdfReembedCases()
  for c in cases:
    c['text'] = ir.RenderProgram(c['prog'])
  return cases


# ---- boolean-valued built-ins with nulls -------------------------------------------
# `x in l` as an EXPRESSION is two-valued (IN_LIST UDF = Python's `in`): a null
# element is an element, the item may be null; only a null list gives null.
# Comparisons with a null operand are unknown (null); && || ! are three-valued.
NULL_LISTS = [[None, 2], [1, None], [None], [], [None, None, 2], [2, 1]]
NULL_SLISTS = [['a', None], [None, 'b'], [None]]


def InNullCases(batch=20):
  def In(x, l):
    return Op('InList', Lit(TV(x)), Lit(TV(l)))
  rules = []     # (feature, head expr or None, body)
  for l in NULL_LISTS:
    for x in (1, 2, None):
      rules.append(('in_null:value', In(x, l), []))
      rules.append(('in_null:not', Op('!', In(x, l)), []))
      # a positive `x in l` conjunct is the inclusion proposition (x equals
      # some element; null equals nothing), not the IN_LIST expression
      rules.append(('in_null:constraint', None,
                    [Inc(Lit(TV(x)), Lit(TV(l)))]))
      rules.append(('in_null:not_constraint', None, [Cmp(Op('!', In(x, l)))]))
    rules.append(('in_null:and', Op('&&', In(1, l), In(2, l)), []))
    rules.append(('in_null:or', Op('||', In(1, l), In(2, l)), []))
    rules.append(('in_null:or', Op('||', In(1, l), In(3, l)), []))
    rules.append(('in_null:and', Op('&&', Op('!', In(1, l)), Op('!', In(3, l))), []))
  for l in NULL_SLISTS:
    for x in ('a', 'b', None):
      rules.append(('in_null:value', In(x, l), []))
      rules.append(('in_null:not', Op('!', In(x, l)), []))
  cases = []
  for j in (0, 1, 2, 3, 12, 13):      # genuine one-rule programs
    feat, e, body = rules[j]
    head = [('col0', e if e is not None else Lit(N(0)), '')]
    cases.append({'id': 'in1_%d' % j,
                  'prog': Prog([Pred('T', [Rule(head, body)])]), 'query': ['T'],
                  'meta': {'features': ['in_null_expr', feat], 'calls': {'in': 1},
                           'kind': 'in_null'}})
  for s in range(0, len(rules), batch):
    part = rules[s:s + batch]
    prs = [Rule([('col0', Lit(N(k)), ''),
                 ('col1', e if e is not None else Lit(N(1)), '')], body)
           for k, (_, e, body) in enumerate(part)]
    cases.append({'id': 'inN_%d' % s, 'prog': Prog([Pred('T', prs)]),
                  'query': ['T'],
                  'meta': {'features': sorted(set(['in_null_expr'] +
                                                  [r[0] for r in part])),
                           'calls': {'in': len(part)}, 'kind': 'in_null'}})
  # lists coming from facts: Miss(i) :- L(i, l), !(1 in l)
  i, l = Var('i'), Var('l')
  L = Facts('L', [[N(j), TV(v)] for j, v in enumerate(NULL_LISTS)], 2)
  src = [Atom('L', [('col0', i), ('col1', l)])]
  has = Op('InList', Lit(N(1)), l)
  cases.append({'id': 'in_facts', 'prog': Prog([
      L, Pred('Miss', [Rule([('col0', i, '')], src + [Cmp(Op('!', has))])]),
      Pred('Has', [Rule([('col0', i, '')], src + [Inc(Lit(N(1)), l)])]),
      Pred('Val', [Rule([('col0', i, ''), ('v', has, ''),
                         ('n', Op('InList', Lit(NULL), l), '')], src)])]),
                'query': ['Miss', 'Has', 'Val'],
                'meta': {'features': ['in_null_expr', 'in_null:facts'],
                         'calls': {'in': 4 * len(NULL_LISTS)}, 'kind': 'in_null'}})
  # comparisons / connectives with null operands, nulls inside list operands
  rules = []
  for op in ('==', '!=', '<', '<=', '>', '>='):
    for a, b in ((None, 1), (1, None), (None, None), ('a', None)):
      rules.append((op, Op(op, Lit(TV(a)), Lit(TV(b)))))
      rules.append((op, Op('!', Op(op, Lit(TV(a)), Lit(TV(b))))))
  unk = Op('==', Lit(NULL), Lit(N(1)))
  tru = Op('==', Lit(N(1)), Lit(N(1)))
  fal = Op('==', Lit(N(1)), Lit(N(2)))
  for op in ('&&', '||'):
    for a in (unk, tru, fal):
      for b in (unk, tru, fal):
        rules.append((op, Op(op, a, b)))
  for x in (None, 1, 'a'):
    rules.append(('isnull', Op('isnull', Lit(TV(x)))))
    rules.append(('isnull', Op('!', Op('isnull', Lit(TV(x))))))
  for lst in ([None, 1], [None], [1, None, 2]):
    rules.append(('Size', Op('Size', Lit(TV(lst)))))
    for k in range(len(lst)):
      rules.append(('Element', Op('Element', Lit(TV(lst)), V(k))))
  for s in range(0, len(rules), batch):
    part = rules[s:s + batch]
    prs = [Rule([('col0', Lit(N(k)), ''), ('col1', e, '')])
           for k, (_, e) in enumerate(part)]
    calls = {}
    for name, _ in part:
      if name in BUILTINS_REQUIRED:
        calls[name] = calls.get(name, 0) + 1
    cases.append({'id': 'bnN_%d' % s, 'prog': Prog([Pred('T', prs)]),
                  'query': ['T'],
                  'meta': {'features': ['bool_null_operand'], 'calls': calls,
                           'kind': 'bool_null'}})
  for c in cases:
    c['text'] = ir.RenderProgram(c['prog'])
  return cases
