"""C20, conformance (a): the UDF classes of common/sqlite3_logica.py against the
state machine spec/SqliteAgg.tla (Appendix A.8 of DESIGN.md).

  1. TLC model-checks SqliteAgg (every step sequence of the bounded domain,
     every nondeterministic choice of the machine) and prints every behaviour
     - the step sequence and the set of permitted results - as JSON.
  2. Every behaviour is replayed on the REAL classes ArgMin / ArgMax /
     DistinctListAgg / ArrayConcatAgg of $LOGICA_REPO: step(...) per action,
     the retained state recorded after every step where it is observable,
     then finalize().  The spec's abstract arguments / values are mapped to
     concrete SQLite values by several order-preserving *interpretations*.
  3. The recordings go to TLC again (spec/SqliteAggTrace.tla), which decides
     `result \\in Permitted(mode, k, steps)` (the property) and, separately,
     whether the retained bags follow the machine (MODEL-DRIFT, R1).
Python computes no verdict here: it maps values, calls the classes and reports
what TLC printed.
"""
import concurrent.futures as cf
import json
import os
import re

from harness import common
from harness import tlc

JVM_SMALL = '-XX:ParallelGCThreads=2 -XX:CICompilerCount=2'
INVARIANTS = ['TypeOK', 'ResultPermitted', 'FinSubset', 'KBest', 'OrderIndep',
              'UniqueNoTies']

# name -> (module constants)
MODEL_CFG = {
    # quick: Arg modes 4 steps over 2 args x 3 values, K in {null,1,2,3}
    'quick': dict(ArgSteps=4, NArgs=2, NVals=3, DistinctSteps=4, NElems=3,
                  ConcatSteps=4, MaxList=1, NItems=2, PermLen=4),
    'thorough': dict(ArgSteps=5, NArgs=2, NVals=3, DistinctSteps=5, NElems=4,
                     ConcatSteps=4, MaxList=2, NItems=2, PermLen=5),
    'thorough3': dict(ArgSteps=4, NArgs=3, NVals=3, DistinctSteps=0, NElems=1,
                      ConcatSteps=0, MaxList=0, NItems=1, PermLen=4,
                      Configs='ArgConfigs'),
}
TIER_MODELS = {'quick': ['quick'], 'thorough': ['thorough', 'thorough3']}


def WriteCfg(name):
  c = dict(MODEL_CFG[name])
  configs = c.pop('Configs', 'AllConfigs')
  lines = ['SPECIFICATION Spec', 'CONSTANTS', '  Configs <- %s' % configs]
  lines += ['  %s = %d' % kv for kv in sorted(c.items())]
  lines += ['  Export = TRUE']
  lines += ['INVARIANT %s' % i for i in INVARIANTS]
  lines += ['POSTCONDITION BestFirstLemma', 'CHECK_DEADLOCK FALSE']
  path = os.path.join(common.SPEC, 'SqliteAgg_%s.cfg' % name)
  text = '\n'.join(lines) + '\n'
  if not os.path.exists(path) or open(path).read() != text:
    with open(path, 'w') as f:
      f.write(text)
  return os.path.basename(path)


def RunModel(name, workers=4):
  """Model-checks SqliteAgg under one configuration; returns
  (TlcResult, behaviours) with behaviours deduplicated by (mode, k, steps)."""
  r = tlc.Run('SqliteAgg', cfg='SqliteAgg_%s.cfg' % name, workers=workers,
              coverage=True, tag='c20_' + name, heap='3g')
  seen = {}
  for m in re.finditer(r'<<"B",\s*("(?:[^"\\]|\\.)*")\s*>>', r.out, re.S):
    b = json.loads(json.loads(m.group(1)))
    key = json.dumps([b['m'], b['k'], b['steps']])
    if key not in seen:
      b['model'] = name
      seen[key] = b
  return r, list(seen.values())


# ---- interpretations: spec value -> concrete SQLite value --------------------
# Order preserving on values (the property is stated with <), injective on
# arguments.  Arguments are what SQLite hands to the UDF: text or integers.
STR3 = ['a', 'ab', 'b', 'ba', 'c']
INTERP = {
    'text_args_int_values': (lambda a: 'abcde'[a], lambda v: v),
    'int_args_text_values': (lambda a: 10 * (a + 1), lambda v: STR3[v]),
    'text_args_neg_values': (lambda a: 'zyxwv'[a], lambda v: v - 1),
    'int_args_real_values': (lambda a: -a, lambda v: v + 0.5),
}
TIER_INTERP = {'quick': ['text_args_int_values', 'int_args_text_values'],
               'thorough': list(INTERP)}


_mod = []


def _Classes():
  if not _mod:
    common.UseRepo()      # the repo's own top-level package is called `common`
    import importlib
    _mod.append(importlib.import_module('common.sqlite3_logica'))
  m = _mod[0]
  return {'ArgMin': m.ArgMin, 'ArgMax': m.ArgMax,
          'Distinct': m.DistinctListAgg, 'Concat': m.ArrayConcatAgg}


def _ObservePairs(inst, back_a, back_v):
  """The retained bag of an ArgMin/ArgMax object as sorted [[v, a], ...] in
  spec values, or None when it is not observable in that shape."""
  res = getattr(inst, 'result', None)
  if not isinstance(res, list):
    return None
  out = []
  for p in res:
    if not (isinstance(p, tuple) and len(p) == 2):
      return None
    try:
      out.append([back_v[p[0]], back_a[p[1]]])
    except (KeyError, TypeError):
      return None
  return sorted(out)


def ReplayOne(job):
  """job = (id, behaviour, interpretation name) -> trace line (dict)."""
  jid, b, iname = job
  fa, fv = INTERP[iname]
  mode, k, steps = b['m'], b['k'], b['steps']
  line = {'id': jid, 'm': mode, 'k': k, 'steps': steps, 'st': 'ok', 'res': [],
          'obs': 1, 'kept': [], 'interp': iname}
  try:
    inst = _Classes()[mode]()
  except BaseException as e:  # pylint: disable=broad-except
    line.update(st='raised', obs=0, err='%s: %s' % (type(e).__name__, e))
    return line
  limit = None if k == 0 else k
  try:
    if mode in ('ArgMin', 'ArgMax'):
      back_a = {fa(a): a for a in range(5)}
      back_v = {fv(v): v for v in range(5)}
      for a, v in steps:
        inst.step(fa(a), fv(v), limit)
        kept = _ObservePairs(inst, back_a, back_v) if line['obs'] else None
        if kept is None:
          line['obs'] = 0
        else:
          line['kept'].append(kept)
      raw = inst.finalize()
      val = json.loads(raw)
      if not isinstance(val, list):
        line['st'] = 'shape'
      else:
        line['res'] = [back_a.get(x, 99) if not isinstance(x, (list, dict))
                       else 99 for x in val]
    elif mode == 'Distinct':
      back = {fv(v): v for v in range(5)}
      for e in steps:
        inst.step(fv(e))
        res = getattr(inst, 'result', None)
        if line['obs'] and isinstance(res, (set, frozenset, list)) and all(
            not isinstance(x, (list, dict)) and x in back for x in res):
          line['kept'].append(sorted(set(back[x] for x in res)))
        else:
          line['obs'] = 0
      val = json.loads(inst.finalize())
      if not isinstance(val, list):
        line['st'] = 'shape'
      else:
        line['res'] = [back.get(x, 99) if not isinstance(x, (list, dict))
                       else 99 for x in val]
    else:
      back = {fv(v): v for v in range(5)}
      for tag, items in steps:
        inst.step(None if tag == 'z' else json.dumps([fv(x) for x in items]))
        res = getattr(inst, 'result', None)
        if line['obs'] and isinstance(res, list) and all(
            not isinstance(x, (list, dict)) and x in back for x in res):
          line['kept'].append([back[x] for x in res])
        else:
          line['obs'] = 0
      val = json.loads(inst.finalize())
      if not isinstance(val, list):
        line['st'] = 'shape'
      else:
        line['res'] = [back.get(x, 99) if not isinstance(x, (list, dict))
                       else 99 for x in val]
  except BaseException as e:  # pylint: disable=broad-except
    if isinstance(e, KeyboardInterrupt):
      raise
    line.update(st='raised', res=[], err='%s: %s' % (type(e).__name__,
                                                     str(e)[:200]))
  if not line['obs']:
    line['kept'] = []
  return line


def _ReplayChunk(jobs):
  return [ReplayOne(j) for j in jobs]


def Replay(behaviours, interps, workers=None, per_behaviour=None):
  """per_behaviour = n: each behaviour under n interpretations, taken in turn
  from `interps`; None: each behaviour under every interpretation."""
  jobs = []
  n_i = len(interps)
  per = per_behaviour or n_i
  for n, b in enumerate(behaviours):
    for j in range(per):
      iname = interps[(n * per + j) % n_i]
      if b['m'] in ('Distinct', 'Concat') and iname in (
          'text_args_neg_values', 'int_args_real_values'):
        # these only vary the arguments / shift the values
        iname = interps[j % 2]
      jobs.append((len(jobs), b, iname))
  chunks = [jobs[i:i + 2000] for i in range(0, len(jobs), 2000)]
  out = common.ParallelMap(_ReplayChunk, chunks, workers=workers, chunksize=1)
  return [l for ch in out for l in ch]


def _ForTlc(line):
  return {k: line[k] for k in ('id', 'm', 'k', 'steps', 'st', 'res', 'obs',
                               'kept')}


REG = {'failed': 1, 'judged': 2, 'drift': 3, 'kept_observed': 4,
       'with_ties': 5, 'ArgMin': 11, 'ArgMax': 12, 'Distinct': 13,
       'Concat': 14, 'other_mode': 15}


def Judge(lines, tag, shards=None, workers=None):
  """TLC (SqliteAggTrace) decides every recorded line.  Returns
  (verdicts {id: {'ok','drift','permitted'}} for failing / drifting lines,
   counters, states, errors)."""
  shards = shards or max(1, min(common.NCPU, len(lines) // 2000 + 1))
  d = common.BuildDir('trace', tag)
  for f in os.listdir(d):
    os.unlink(os.path.join(d, f))
  paths = []
  for s in range(shards):
    part = lines[s::shards]
    if not part:
      continue
    path = os.path.join(d, 'udf%02d.ndjson' % s)
    with open(path, 'w') as f:
      for l in part:
        f.write(json.dumps(_ForTlc(l), separators=(',', ':')) + '\n')
    paths.append(path)

  def One(path):
    return tlc.Run('SqliteAggTrace', workers=1, tag=tag, heap='2g',
                   env={'TRACE_FILE': path, 'JAVA_TOOL_OPTIONS': JVM_SMALL})
  with cf.ThreadPoolExecutor(max_workers=workers or common.NCPU) as ex:
    results = list(ex.map(One, paths))
  verdicts, errors = {}, []
  counters = {k: 0 for k in REG}
  states = 0
  for path, r in zip(paths, results):
    states += r.distinct
    for m in re.finditer(r'<<"V",\s*("(?:[^"\\]|\\.)*")\s*>>', r.out, re.S):
      v = json.loads(json.loads(m.group(1)))
      verdicts[v['id']] = v
    m = re.search(r'<<"SUMMARY",\s*("(?:[^"\\]|\\.)*")\s*>>', r.out, re.S)
    if not m:
      errors.append((path, r.rc, r.out[-2500:]))
      continue
    summ = json.loads(json.loads(m.group(1)))
    if isinstance(summ, list):       # not expected (sparse domain), be safe
      summ = {str(i + 1): x for i, x in enumerate(summ)}
    for name, reg in REG.items():
      counters[name] += int(summ.get(str(reg), 0))
  return verdicts, counters, states, errors
