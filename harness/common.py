"""Shared plumbing for the logica verification harness.

Everything here is stdlib-only and runs under /venv/bin/python (which has the
repo's dependencies).  The implementation under test is imported from
$LOGICA_REPO (default /repo) -- never from a cached copy.
"""
import hashlib
import json
import os
import random
import subprocess
import sys
import time

VERIF = os.path.dirname(os.path.dirname(os.path.abspath(__file__)))
REPO = os.environ.get('LOGICA_REPO', '/repo')
SPEC = os.path.join(VERIF, 'spec')
# scratch of this run; concurrent runs (another tree under test, another
# seed) must be given their own VERIF_BUILD_DIR: trace shards are rewritten
BUILD = os.environ.get('VERIF_BUILD_DIR') or os.path.join(VERIF, 'build')
EVIDENCE = os.environ.get('VERIF_EVIDENCE_DIR') or os.path.join(VERIF, 'evidence')
PY = '/venv/bin/python'
NCPU = min(16, os.cpu_count() or 1)


def Seed():
  try:
    return int(os.environ.get('VERIF_SEED', '0'))
  except ValueError:
    return 0


def Tier(default='quick'):
  return os.environ.get('VERIF_TIER', default)


def Rng(salt=''):
  return random.Random('%d/%s' % (Seed(), salt))


def BuildDir(*parts):
  d = os.path.join(BUILD, *parts)
  os.makedirs(d, exist_ok=True)
  return d


def UseRepo():
  """Puts $LOGICA_REPO first on sys.path so `import parser_py...` is the tree
  under test."""
  if REPO not in sys.path:
    sys.path.insert(0, REPO)
  os.environ.setdefault('PYTHONHASHSEED', '0')


def RepoState():
  """Commit and dirty-hash of the tree under test (for evidence/replays)."""
  def Run(*a):
    try:
      return subprocess.run(['git', '-C', REPO] + list(a), capture_output=True,
                            text=True, timeout=30).stdout
    except Exception:  # pylint: disable=broad-except
      return ''
  head = Run('rev-parse', 'HEAD').strip()
  diff = Run('diff', 'HEAD')
  return {'repo': REPO, 'head': head,
          'dirty_sha': hashlib.sha256(diff.encode()).hexdigest()[:16]
          if diff else ''}


def Sha(obj):
  return hashlib.sha256(
      json.dumps(obj, sort_keys=True, default=str).encode()).hexdigest()[:16]


class Clock:
  def __init__(self):
    self.t0 = time.time()

  def __call__(self):
    return round(time.time() - self.t0, 2)


def WriteReplay(prop, name, payload):
  d = BuildDir('replay', prop)
  path = os.path.join(d, name + '.json')
  payload = dict(payload)
  payload.setdefault('property', prop)
  payload.setdefault('repo_state', RepoState())
  with open(path, 'w') as f:
    json.dump(payload, f, indent=1, sort_keys=True, default=str)
  return path


def Violation(prop, replay_path):
  print('VIOLATION property=%s replay=%s' % (prop, replay_path), flush=True)


def ParallelMap(fn, items, workers=None, chunksize=8, initializer=None,
                initargs=()):
  """Ordered parallel map in fresh worker processes (fork)."""
  import multiprocessing as mp
  items = list(items)
  if not items:
    return []
  workers = workers or NCPU
  if workers <= 1 or len(items) == 1:
    if initializer:
      initializer(*initargs)
    return [fn(x) for x in items]
  ctx = mp.get_context('fork')
  with ctx.Pool(workers, initializer=initializer, initargs=initargs) as pool:
    return pool.map(fn, items, chunksize=chunksize)
