"""Shared plumbing for the logica verification harness.

Everything here is stdlib-only and runs under /venv/bin/python (which has the
repo's dependencies).  The implementation under test is imported from
$LOGICA_REPO (default /repo) -- never from a cached copy.
"""
import hashlib
import json
import os
import random
import subprocess
import sys
import time

VERIF = os.path.dirname(os.path.dirname(os.path.abspath(__file__)))
REPO = os.environ.get('LOGICA_REPO', '/repo')
SPEC = os.path.join(VERIF, 'spec')
# scratch of this run; concurrent runs (another tree under test, another
# seed) must be given their own VERIF_BUILD_DIR: trace shards are rewritten
BUILD = os.environ.get('VERIF_BUILD_DIR') or os.path.join(VERIF, 'build')
EVIDENCE = os.environ.get('VERIF_EVIDENCE_DIR') or os.path.join(VERIF, 'evidence')
PY = '/venv/bin/python'
NCPU = min(16, os.cpu_count() or 1)


def Seed():
  try:
    return int(os.environ.get('VERIF_SEED', '0'))
  except ValueError:
    return 0


def Tier(default='quick'):
  return os.environ.get('VERIF_TIER', default)


def Rng(salt=''):
  return random.Random('%d/%s' % (Seed(), salt))


def BuildDir(*parts):
  d = os.path.join(BUILD, *parts)
  os.makedirs(d, exist_ok=True)
  return d


def UseRepo():
  """Puts $LOGICA_REPO first on sys.path so `import parser_py...` is the tree
  under test."""
  if REPO not in sys.path:
    sys.path.insert(0, REPO)
  os.environ.setdefault('PYTHONHASHSEED', '0')


def RepoState():
  """Commit and dirty-hash of the tree under test (for evidence/replays)."""
  def Run(*a):
    try:
      return subprocess.run(['git', '-C', REPO] + list(a), capture_output=True,
                            text=True, timeout=30).stdout
    except Exception:  # pylint: disable=broad-except
      return ''
  head = Run('rev-parse', 'HEAD').strip()
  diff = Run('diff', 'HEAD')
  return {'repo': REPO, 'head': head,
          'dirty_sha': hashlib.sha256(diff.encode()).hexdigest()[:16]
          if diff else ''}


def Sha(obj):
  return hashlib.sha256(
      json.dumps(obj, sort_keys=True, default=str).encode()).hexdigest()[:16]


class Clock:
  def __init__(self):
    self.t0 = time.time()

  def __call__(self):
    return round(time.time() - self.t0, 2)


def WriteReplay(prop, name, payload):
  d = BuildDir('replay', prop)
  path = os.path.join(d, name + '.json')
  payload = dict(payload)
  payload.setdefault('property', prop)
  payload.setdefault('repo_state', RepoState())
  with open(path, 'w') as f:
    json.dump(payload, f, indent=1, sort_keys=True, default=str)
  return path


def Violation(prop, replay_path):
  print('VIOLATION property=%s replay=%s' % (prop, replay_path), flush=True)


def _WorkerLoop(fn, conn, initializer, initargs):
  try:
    if initializer:
      initializer(*initargs)
    while True:
      msg = conn.recv()
      if msg is None:
        break
      for idx, item in msg:
        try:
          conn.send(('r', idx, fn(item)))
        except BaseException as e:  # pylint: disable=broad-except
          if isinstance(e, KeyboardInterrupt):
            raise
          import traceback
          conn.send(('x', idx, '%s: %s\n%s' % (type(e).__name__, e,
                                               traceback.format_exc()[-1500:])))
      conn.send(('d', None, None))
  except (EOFError, BrokenPipeError, KeyboardInterrupt):
    pass
  finally:
    os._exit(0)  # pylint: disable=protected-access


def ParallelMap(fn, items, workers=None, chunksize=8, initializer=None,
                initargs=(), on_death=None, item_timeout=None):
  """Ordered parallel map in fresh worker processes (fork).

  A worker that dies (segfault, out of memory, killed) or spends more than
  item_timeout seconds on one item does not hang the map: the item it was
  working on gets on_death(item, reason) as its result (RuntimeError if no
  on_death is given), the rest of its chunk is queued again and the worker is
  replaced.  An exception raised by fn is re-raised here, as Pool.map does."""
  import collections
  import multiprocessing as mp
  from multiprocessing import connection
  items = list(items)
  if not items:
    return []
  workers = workers or NCPU
  if workers <= 1 or len(items) == 1:
    if initializer:
      initializer(*initargs)
    return [fn(x) for x in items]
  ctx = mp.get_context('fork')
  n = len(items)
  queue = collections.deque(
      list(range(k, min(n, k + chunksize))) for k in range(0, n, chunksize))
  results = [None] * n
  have = [False] * n
  state = {}          # conn -> [process, pending indices, time of last message]
  failure = []

  def Spawn():
    parent, child = ctx.Pipe()
    p = ctx.Process(target=_WorkerLoop, args=(fn, child, initializer, initargs))
    p.daemon = True
    p.start()
    child.close()
    state[parent] = [p, [], time.time()]
    Feed(parent)

  def Feed(conn):
    if queue and not failure:
      idxs = queue.popleft()
      state[conn][1] = list(idxs)
      state[conn][2] = time.time()
      conn.send([(i, items[i]) for i in idxs])
    else:
      state[conn][1] = []
      try:
        conn.send(None)
      except (BrokenPipeError, OSError):
        pass

  def Dead(conn, reason):
    p, pending, _ = state.pop(conn)
    try:
      p.kill()
    except Exception:  # pylint: disable=broad-except
      pass
    p.join(5)
    conn.close()
    if pending:
      i = pending[0]
      if on_death is None:
        failure.append('worker %s on item %d' % (reason, i))
      else:
        results[i], have[i] = on_death(items[i], reason), True
      if pending[1:]:
        queue.appendleft(pending[1:])
    if (queue or on_death is not None) and not failure and not all(have):
      if queue:
        Spawn()

  for _ in range(min(workers, len(queue))):
    Spawn()
  try:
    while state and not all(have):
      ready = connection.wait(list(state), timeout=1.0)
      now = time.time()
      for conn in ready:
        try:
          kind, idx, val = conn.recv()
        except (EOFError, ConnectionResetError, OSError):
          Dead(conn, 'died')
          continue
        st = state[conn]
        st[2] = now
        if kind == 'r':
          results[idx], have[idx] = val, True
          st[1].remove(idx)
        elif kind == 'x':
          failure.append('item %d raised %s' % (idx, val))
          have[idx] = True
          st[1].remove(idx)
        elif kind == 'd':
          Feed(conn)
      if item_timeout:
        for conn in list(state):
          if state[conn][1] and now - state[conn][2] > item_timeout:
            Dead(conn, 'timeout after %ds' % item_timeout)
      for conn in list(state):
        if not state[conn][0].is_alive() and not conn.poll():
          Dead(conn, 'died')
      if failure:
        break
      if not state and queue:
        Spawn()
  finally:
    for conn, (p, _, _) in list(state.items()):
      try:
        conn.send(None)
      except Exception:  # pylint: disable=broad-except
        pass
      p.join(0.2)
      if p.is_alive():
        p.kill()
      conn.close()
  if failure:
    raise RuntimeError('ParallelMap: ' + failure[0])
  if not all(have):
    raise RuntimeError('ParallelMap: %d items without a result' % have.count(False))
  return results
