"""Single-point corruption operators for C19 (applied to valid IR programs).
Whether the corrupted program is invalid is decided by spec/LStatic.tla, not
by the operator."""
import copy
import re

from harness import ir
from harness import meta
from harness.ir import *  # pylint: disable=wildcard-import,unused-wildcard-import

FRESH = 'u_fresh'
# names of the unbound variable: an ordinary one, and ones that look like the
# compiler's internal variables (the parser reserves the prefix x_)
FRESH_NAMES = ['u_fresh', 'u_fresh', 'x_w', 'x_hi', 'x_12']


def _Fresh(rng):
  return rng.choice(FRESH_NAMES)


def _Rules(prog):
  for pi, pred in enumerate(prog['preds']):
    if pred['inline']:
      continue
    for ri, rule in enumerate(pred['rules']):
      yield pi, ri, pred, rule


def HeadUnbound(prog, rng):
  c = [(pi, ri) for pi, ri, _, r in _Rules(prog) if r['body'] and
       any(not h['agg'] for h in r['head'])]
  if not c:
    return None
  p = copy.deepcopy(prog)
  pi, ri = rng.choice(c)
  rule = p['preds'][pi]['rules'][ri]
  h = rng.choice([h for h in rule['head'] if not h['agg']])
  h['e'] = Var(_Fresh(rng))
  return p


def CmpUnbound(prog, rng):
  c = [(pi, ri) for pi, ri, _, r in _Rules(prog) if r['body']]
  if not c:
    return None
  p = copy.deepcopy(prog)
  pi, ri = rng.choice(c)
  p['preds'][pi]['rules'][ri]['body'].append(
      Cmp(Op('<', Var(_Fresh(rng)), Lit(N(1)))))
  return p


def CmpUnboundSharedName(prog, rng):
  """An unbound comparison variable in a predicate that other rules call,
  named like a variable of one of the calling rules (injection must not let
  the caller's variable capture it)."""
  by = {q['name']: q for q in prog['preds']}
  cands = []
  for pi, ri, pred, rule in _Rules(prog):
    for callee in meta.PredsRead({'rules': [rule]}):
      q = by.get(callee)
      if q and not q['inline'] and q['rules'][0]['body']:
        names = sorted(meta.gen_all_vars(rule) - meta.gen_all_vars(q['rules']))
        if names:
          cands.append((callee, names))
  if not cands:
    return None
  callee, names = rng.choice(cands)
  p = copy.deepcopy(prog)
  q = [x for x in p['preds'] if x['name'] == callee][0]
  rule = rng.choice(q['rules'])
  rule['body'].append(Cmp(Op('<', Var(rng.choice(names)), Lit(N(1)))))
  return p


def NegUnbound(prog, rng):
  """A variable that occurs in the head and in a negation only."""
  edbs = [q for q in prog['preds'] if not q['rules'][0]['body'] and
          not q['inline']]
  c = [(pi, ri) for pi, ri, _, r in _Rules(prog) if r['body'] and
       any(not h['agg'] for h in r['head'])]
  if not c or not edbs:
    return None
  p = copy.deepcopy(prog)
  pi, ri = rng.choice(c)
  rule = p['preds'][pi]['rules'][ri]
  e = rng.choice(edbs)
  fresh = _Fresh(rng)
  args = [(h['f'], Var(fresh) if i == 0 else Var('w_%d' % i))
          for i, h in enumerate(e['rules'][0]['head'])]
  rule['body'].append(Neg([Atom(e['name'], args)]))
  h = rng.choice([h for h in rule['head'] if not h['agg']])
  h['e'] = Var(fresh)
  return p


def DropDistinct(prog, rng):
  c = [(pi, ri) for pi, ri, _, r in _Rules(prog) if r['distinct'] and
       any(h['agg'] and h['f'] != 'logica_value' for h in r['head'])]
  if not c:
    return None
  p = copy.deepcopy(prog)
  pi, ri = rng.choice(c)
  for r in p['preds'][pi]['rules']:
    r['distinct'] = False
  return p


def InconsistentDistinct(prog, rng):
  c = [pi for pi, pred in enumerate(prog['preds'])
       if len(pred['rules']) >= 2 and pred['rules'][0]['distinct'] and
       not any(h['agg'] for r in pred['rules'] for h in r['head'])]
  if not c:
    return None
  p = copy.deepcopy(prog)
  pi = rng.choice(c)
  p['preds'][pi]['rules'][rng.randrange(len(p['preds'][pi]['rules']))][
      'distinct'] = False
  return p


def NoBase(prog, rng):
  if not prog.get('rec'):
    return None
  p = copy.deepcopy(prog)
  comp = rng.choice(p['rec'])
  ms = set(comp['members'])
  changed = False
  for pred in p['preds']:
    if pred['name'] in ms:
      keep = [r for r in pred['rules'] if meta.PredsRead({'rules': [r]}) & ms]
      if keep and len(keep) < len(pred['rules']):
        pred['rules'] = keep
        changed = True
  return p if changed else None


def NoBaseReader(prog, rng):
  """A recursion without a base case that the queried predicate Qnb reads
  only under a negation, only inside an aggregating expression, or in one of
  its several rules."""
  p = NoBase(prog, rng)
  if p is None:
    return None
  ms = [m for c in p['rec'] for m in c['members']]
  by = {q['name']: q for q in p['preds']}
  edbs = [q for q in p['preds'] if q['name'] not in ms and q['rules'] and
          not q['rules'][0]['body'] and not q['inline']]
  bad = [m for m in ms if not any(
      not (meta.PredsRead({'rules': [r]}) & set(ms)) for r in by[m]['rules'])]
  if not edbs or not bad:
    return None
  m = by[rng.choice(bad)]
  e = rng.choice(edbs)
  v = Var('v')
  e_atom = Atom(e['name'], [(h['f'], v if i == 0 else Var('e_%d' % i))
                            for i, h in enumerate(e['rules'][0]['head'])])
  m_args = [(h['f'], Var('w_%d' % i)) for i, h in enumerate(m['rules'][0]['head'])]
  form = rng.choice(['neg', 'agg', 'multi'])
  if form == 'neg':
    rules = [Rule([('col0', v, '')], [e_atom, Neg([Atom(m['name'], m_args)])])]
  elif form == 'agg':
    rules = [Rule([('col0', v, ''), ('col1', Var('s'), '')],
                  [e_atom, Unify(Var('s'), AggE('Max', Lit(N(1)),
                                                [Atom(m['name'], m_args)]))])]
  else:
    rules = [Rule([('col0', v, '')], [e_atom]),
             Rule([('col0', Var('w_0'), '')], [Atom(m['name'], m_args)])]
  p['preds'].append(Pred('Qnb', rules))
  p['no_base_reader_form'] = form
  return p


def FunctorBadArg(prog, rng):
  if not prog.get('makes'):
    return None
  from harness import genfun
  p = copy.deepcopy(prog)
  mk = rng.choice(p['makes'])
  names = {q['name'] for q in p['preds']}
  if mk['functor'] not in names:
    return None
  reach = genfun.Reach(p, mk['functor'])
  outside = [q['name'] for q in p['preds']
             if q['name'] not in reach and not q['inline'] and
             not q['rules'][0]['body']]
  if not outside:
    return None
  k = rng.choice(outside)
  twins = [q['name'] for q in p['preds'] if q['name'] != k and
           q['rules'][0]['head'] and
           [h['f'] for h in q['rules'][0]['head']] ==
           [h['f'] for h in [x for x in p['preds']
                             if x['name'] == k][0]['rules'][0]['head']]]
  if not twins:
    return None
  p['makes'].append({'name': 'Mbad', 'functor': mk['functor'],
                     'args': [{'k': k, 'v': rng.choice(twins)}]})
  return p


def FunctorBadArgViaValue(prog, rng):
  """A second argument whose key the functor does not depend on, but which a
  predicate passed as the value of another argument does depend on."""
  if not prog.get('makes'):
    return None
  p = copy.deepcopy(prog)
  names = {q['name'] for q in p['preds']}
  by = {q['name']: q for q in p['preds']}
  cands = [mk for mk in p['makes'] if mk['functor'] in names and
           len(mk['args']) == 1 and mk['args'][0]['v'] in by]
  if not cands:
    return None
  mk = rng.choice(cands)
  a = mk['args'][0]
  twin = by[a['v']]                       # an extensional twin of the key
  others = [q['name'] for q in p['preds'] if q['name'] != twin['name'] and
            q['name'] != a['k'] and q['name'].startswith(a['k'] + 'T')]
  if not others:
    return None
  fields = [h['f'] for h in twin['rules'][0]['head']]
  view = Pred('View9', [Rule([(f, Var('v%d' % i), '')
                              for i, f in enumerate(fields)],
                             [Atom(twin['name'],
                                   [(f, Var('v%d' % i))
                                    for i, f in enumerate(fields)])])])
  p['preds'].append(view)
  p['makes'].append({'name': 'Mbad', 'functor': mk['functor'],
                     'args': [{'k': a['k'], 'v': 'View9'},
                              {'k': twin['name'], 'v': others[0]}]})
  return p


def AnnotateMissing(prog, rng):
  p = copy.deepcopy(prog)
  # @Ground of an undefined predicate declares an external table (legal);
  # @Recursive is not validated by the tool and is left out of the catalogue.
  name = rng.choice(['Nope7', 'Top_sales', 'No_such_x', 'Top_Sale', 'Nope'])
  ann = rng.choice(['@OrderBy(%s, "col0");', '@Limit(%s, 1);',
                    '@NoInject(%s);', '@With(%s);', '@NoWith(%s);']) % name
  p['ann'] = list(p.get('ann', [])) + [ann]
  p['annpreds'] = list(p.get('annpreds', [])) + [name]
  return p


OPERATORS = [('head_unbound', HeadUnbound), ('cmp_unbound', CmpUnbound),
             ('cmp_unbound_shared_name', CmpUnboundSharedName),
             ('functor_bad_arg_via_value', FunctorBadArgViaValue),
             ('neg_unbound', NegUnbound), ('drop_distinct', DropDistinct),
             ('inconsistent_distinct', InconsistentDistinct),
             ('no_base', NoBase), ('no_base_reader', NoBaseReader),
             ('functor_bad_arg', FunctorBadArg),
             ('annotate_missing', AnnotateMissing)]


def SyntaxCorruptions(text, rng, n=2):
  """Text-level: delete a closing bracket, add one, cut a string."""
  out = []
  # positions outside string literals
  pos, instr = [], False
  for i, ch in enumerate(text):
    if ch == '"':
      instr = not instr
    elif not instr and ch in ')]}':
      pos.append(i)
  quotes = [i for i, ch in enumerate(text) if ch == '"']
  for _ in range(n):
    kind = rng.choice(['del_close', 'add_close', 'cut_string', 'del_open'])
    if kind == 'del_close' and pos:
      i = rng.choice(pos)
      out.append((kind, text[:i] + text[i + 1:]))
    elif kind == 'add_close' and pos:
      i = rng.choice(pos)
      out.append((kind, text[:i] + rng.choice(')]}') + text[i:]))
    elif kind == 'cut_string' and len(quotes) >= 2:
      i = quotes[2 * rng.randrange(len(quotes) // 2) + 1]
      out.append((kind, text[:i] + text[i + 1:]))
    elif kind == 'del_open':
      opens = [i for i, ch in enumerate(text) if ch in '([{']
      # only those outside strings
      ok, instr = [], False
      for i, ch in enumerate(text):
        if ch == '"':
          instr = not instr
        elif not instr and ch in '([{':
          ok.append(i)
      if ok:
        i = rng.choice(ok)
        out.append((kind, text[:i] + text[i + 1:]))
  return out


def Mentions(msg, limit=80):
  toks = re.findall(r'[A-Za-z_][A-Za-z0-9_]*', re.sub(r'\x1b\[[0-9;]*m', '',
                                                        msg or ''))
  seen, out = set(), []
  for t in toks:
    if t not in seen:
      seen.add(t)
      out.append(t)
  return out[:limit]
