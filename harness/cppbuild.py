"""Builds the C++ parser from the *current* parser_cpp/logica_parse.cpp of
$LOGICA_REPO, through the repo's own loader, into a content-addressed cache:
XDG_CACHE_HOME=/verif/build/cpp/<sha256(source)> (the loader caches by path +
mtime only, so pointing it at a per-content directory guarantees that an edited
source is rebuilt and an unchanged one is reused)."""
import hashlib
import os

from harness import common


def Prepare(build=True):
  """Sets XDG_CACHE_HOME for this process (and children); builds if needed.
  Returns the path of the shared object."""
  src = os.path.join(common.REPO, 'parser_cpp', 'logica_parse.cpp')
  with open(src, 'rb') as f:
    digest = hashlib.sha256(f.read()).hexdigest()[:20]
  cache = common.BuildDir('cpp', digest)
  os.environ['XDG_CACHE_HOME'] = cache
  if not build:
    return None
  common.UseRepo()
  from parser_cpp import logica_parse_cpp
  return logica_parse_cpp.EnsureCppParserSharedObject(common.REPO)


def ParseBoth(text, import_root=None):
  """(py_result, cpp_result); each is ('ok', rules) or ('err', cls, msg)."""
  from harness import impl
  parse = impl.Mods()['parse']
  out = []
  for mode in ('PY', 'CPP'):
    os.environ['LOGICA_PARSER'] = mode
    try:
      rules = parse.ParseFile(text, import_root=import_root)['rule']
      out.append(('ok', rules))
    except BaseException as e:  # pylint: disable=broad-except
      if isinstance(e, KeyboardInterrupt):
        raise
      out.append(('err', type(e).__name__, str(e)[:500]))
  os.environ['LOGICA_PARSER'] = 'PY'
  return tuple(out)
