"""Evidence files: /verif/evidence/<id>.json per /root/.vp/EVIDENCE.schema.json."""
import json
import os
import subprocess

from harness import common


def Write(prop, tier, level, coverage, wall_s, violations=0, assumptions=None,
          extra=None):
  os.makedirs(common.EVIDENCE, exist_ok=True)
  doc = {
      'property_id': prop,
      'tier': tier,
      'seed': common.Seed(),
      'level': level,
      'coverage': coverage,
      'assumptions': assumptions or [],
      'wall_s': float(wall_s),
      'violations': int(violations),
  }
  if extra:
    doc.update(extra)
  doc['repo_state'] = common.RepoState()
  path = os.path.join(common.EVIDENCE, prop + '.json')
  with open(path, 'w') as f:
    json.dump(doc, f, indent=1, sort_keys=True, default=str)
  return path


def Validate(path):
  """Schema validation in the tooling venv (jsonschema lives there)."""
  code = ('import json,jsonschema,sys;'
          'jsonschema.validate(json.load(open(sys.argv[1])),'
          'json.load(open("/root/.vp/EVIDENCE.schema.json")))')
  r = subprocess.run(['python3-vt', '-c', code, path], capture_output=True,
                     text=True)
  return r.returncode == 0, r.stderr[-2000:]
