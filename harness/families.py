"""Directed program families (IR of ir.py) that complement the random
generator: small hand-designed shapes instantiated with random fact tables and
variable names, aimed at the interplay the properties single out - injection x
aggregating expressions x shared variable names, key-less aggregates as
intermediates, chains of WITH / grounded tables."""
from harness.ir import *  # pylint: disable=wildcard-import,unused-wildcard-import
from harness.ir import N as N_


def Facts(name, rows, named=()):
  rules = []
  for row in rows:
    head = []
    for i, v in enumerate(row):
      f = named[i] if i < len(named) and named[i] else 'col%d' % i
      head.append((f, Lit(N(v) if isinstance(v, int) else S(v)), ''))
    rules.append(Rule(head))
  return Pred(name, rules)


def RandRows(rng, arity, n=None, lo=0, hi=3):
  n = n if n is not None else rng.randint(2, 4)
  rows = [tuple(rng.randint(lo, hi) for _ in range(arity)) for _ in range(n)]
  if rng.random() < 0.4:
    rows.append(rng.choice(rows))      # a duplicate fact
  return rows


def Names(rng, shared):
  """Variable names for (caller, callee-local).  shared: the callee's local
  variable is named like a caller variable."""
  pool = ['y', 'z', 'w', 'v', 'a', 'b']
  rng.shuffle(pool)
  caller_y = pool[0]
  local = caller_y if shared else pool[1]
  return caller_y, local


def InjectCombine(rng, shared=True, agg='Sum'):
  """An injectible predicate with one aggregating expression, called from a
  rule that uses the same variable name (top level and inside a combine)."""
  cy, loc = Names(rng, shared)
  x, s, t = Var('x'), Var('s'), Var('t')
  # dense data: every key of T has rows in U and V, so that a wrong
  # correlation or a captured variable changes the sums
  keys = [0, 1, 2]
  T = Facts('T', [(i,) for i in keys])
  U = Facts('U', [(i, rng.randint(1, 5)) for i in keys for _ in range(rng.randint(1, 2))])
  Vp = Facts('V', [(i, rng.randint(1, 5)) for i in keys for _ in range(rng.randint(1, 2))])
  callee = Pred('Callee', [Rule(
      [('col0', x, ''), ('col1', s, '')],
      [Atom('T', [('col0', x)]),
       Unify(s, AggE(agg, Var(loc), [Atom('U', [('col0', x),
                                                ('col1', Var(loc))])]))])])
  caller = Pred('Caller', [Rule(
      [('col0', x, ''), ('col1', Var(cy), ''), ('col2', s, '')],
      [Atom('Callee', [('col0', x), ('col1', s)]),
       Atom('V', [('col0', x), ('col1', Var(cy))])])])
  caller2 = Pred('CallerAgg', [Rule(
      [('col0', x, ''), ('col1', t, '')],
      [Atom('T', [('col0', x)]),
       Unify(t, AggE('Sum', Op('+', Var(cy), s),
                     [Atom('Callee', [('col0', x), ('col1', s)]),
                      Atom('V', [('col0', x), ('col1', Var(cy))])]))])])
  # the callee's value used INSIDE the caller's own aggregating expression,
  # the call itself outside of it
  caller3 = Pred('CallerMix', [Rule(
      [('col0', x, ''), ('col1', t, '')],
      [Atom('Callee', [('col0', x), ('col1', s)]),
       Unify(t, AggE('Sum', Op('+', Var(loc), s),
                     [Atom('V', [('col0', x), ('col1', Var(loc))])]))])])
  # a parameterless injectible aggregate whose value is used inside the
  # caller's aggregating expression over the same local name
  total = Pred('Total', [Rule(
      [('col0', s, '')],
      [Unify(s, AggE(agg, Var(loc), [Atom('T', [('col0', Var(loc))])]))])])
  shifted = Pred('Shifted', [Rule(
      [('col0', Var('r'), '')],
      [Atom('Total', [('col0', Var('a9'))]),
       Unify(Var('r'), AggE('Sum', Op('+', Var(loc), Var('a9')),
                            [Atom('V', [('col0', Var(loc)), ('col1', Var('q9'))])]))])])
  prog = Prog([T, U, Vp, callee, caller, caller2, caller3, total, shifted])
  return prog, ['Callee', 'Caller', 'CallerAgg', 'CallerMix', 'Total',
                'Shifted'], [
      'fam_inject_combine', 'fam_shared_local' if shared else 'fam_distinct_local']


def InjectNegation(rng, shared=True):
  cy, loc = Names(rng, shared)
  x = Var('x')
  T = Facts('T', [(i,) for i in range(4)])
  U = Facts('U', RandRows(rng, 2))
  Vp = Facts('V', RandRows(rng, 2))
  callee = Pred('Lonely', [Rule(
      [('col0', x, '')],
      [Atom('T', [('col0', x)]),
       Neg([Atom('U', [('col0', x), ('col1', Var(loc))]),
            Cmp(Op('>', Var(loc), Lit(N(0))))])])])
  caller = Pred('Caller', [Rule(
      [('col0', x, ''), ('col1', Var(cy), '')],
      [Atom('Lonely', [('col0', x)]),
       Atom('V', [('col0', x), ('col1', Var(cy))])])])
  caller2 = Pred('CallerNeg', [Rule(
      [('col0', x, ''), ('col1', Var(cy), '')],
      [Atom('V', [('col0', x), ('col1', Var(cy))]),
       Neg([Atom('Lonely', [('col0', Var(cy))])])])])
  prog = Prog([T, U, Vp, callee, caller, caller2])
  return prog, ['Lonely', 'Caller', 'CallerNeg'], [
      'fam_inject_negation', 'fam_shared_local' if shared else 'fam_distinct_local']


def KeylessAggregate(rng):
  """An intermediate predicate all of whose arguments are aggregated, defined
  by one rule over a NON-empty body, read by other rules."""
  x, y, s = Var('x'), Var('y'), Var('s')
  U = Facts('U', RandRows(rng, 2, n=rng.randint(2, 4), lo=1, hi=4))
  total = Pred('Total', [Rule([('logica_value', y, 'Sum')],
                              [Atom('U', [('col0', x), ('col1', y)])], True)])
  stats = Pred('Stats', [Rule([('lo', y, 'Min'), ('hi', y, 'Max')],
                              [Atom('U', [('col0', x), ('col1', y)])], True)])
  share = Pred('Share', [Rule(
      [('col0', x, ''), ('col1', Op('*', y, s), '')],
      [Atom('U', [('col0', x), ('col1', y)]),
       Unify(s, PCall('Total', []))])])
  span = Pred('Span', [Rule(
      [('col0', x, ''), ('col1', Op('-', Var('h'), Var('l')), '')],
      [Atom('U', [('col0', x), ('col1', y)]),
       Atom('Stats', [('lo', Var('l')), ('hi', Var('h'))])])])
  prog = Prog([U, total, stats, share, span])
  return prog, ['Total', 'Stats', 'Share', 'Span'], ['fam_keyless_aggregate']


def WithGroundChain(rng, e_first=None, g_first=None):
  """E -> W -> G, Main reads W and G; G reads E before W (and the mirrored
  order): exercises WITH tables shared between a grounded predicate and the
  main query."""
  x, y, z = Var('x'), Var('y'), Var('z')
  T = Facts('T', RandRows(rng, 2))
  E = Pred('E', [Rule([('col0', x, ''), ('col1', y, '')],
                      [Atom('T', [('col0', x), ('col1', y)]),
                       Cmp(Op('>=', y, Lit(N(0))))], True)])
  W = Pred('W', [Rule([('col0', x, ''), ('col1', Op('+', y, Lit(N(1))), '')],
                      [Atom('E', [('col0', x), ('col1', y)])], True)])
  if e_first is None:
    e_first = rng.random() < 0.5
  first, second = ('E', 'W') if e_first else ('W', 'E')
  G = Pred('G', [Rule([('col0', x, ''), ('col1', z, '')],
                      [Atom(first, [('col0', x), ('col1', y)]),
                       Atom(second, [('col0', x), ('col1', z)])], True)])
  if g_first is None:
    g_first = rng.random() < 0.5
  main_body = [Atom('W', [('col0', x), ('col1', y)]),
               Atom('G', [('col0', x), ('col1', z)])]
  if g_first:
    main_body.reverse()
  Main = Pred('Main', [Rule([('col0', x, ''), ('col1', y, ''), ('col2', z, '')],
                            main_body)])
  prog = Prog([T, E, W, G, Main])
  return prog, ['E', 'W', 'G', 'Main'], [
      'fam_with_ground_chain', 'fam_chain_%s_first' % first,
      'fam_main_%s_first' % ('G' if g_first else 'W')]


def InlineSubqueryInCombine(rng):
  """A join predicate with internal variables read inside an aggregating
  expression and a negation of a rule that has variables of its own: compiled
  as an inline subquery (@NoInject + @NoWith) its variables must stay apart
  from the reader's."""
  x, y, z = Var('x'), Var('y'), Var('z')
  E = Facts('E', [(1, 2), (2, 3), (3, 4), (2, 5), (5, 1)] + RandRows(rng, 2, n=1, lo=1, hi=5))
  T = Facts('T', [(i,) for i in (1, 2, 3, 5)])
  Hop = Pred('Hop', [Rule([('col0', x, ''), ('col1', y, '')],
                          [Atom('E', [('col0', x), ('col1', z)]),
                           Atom('E', [('col0', z), ('col1', y)])])])
  SumR = Pred('SumR', [Rule([('col0', x, ''), ('col1', Var('s'), '')],
      [Atom('T', [('col0', x)]),
       Unify(Var('s'), AggE('Sum', y, [Atom('Hop', [('col0', x), ('col1', y)])]))])])
  No4 = Pred('No4', [Rule([('col0', x, '')],
      [Atom('T', [('col0', x)]),
       Neg([Atom('Hop', [('col0', x), ('col1', Lit(N_(4)))])])])])
  Both = Pred('Both', [Rule([('col0', x, ''), ('col1', z, ''), ('logica_value', y, 'Max')],
      [Atom('E', [('col0', x), ('col1', z)]),
       Unify(y, AggE('Count', Var('w'), [Atom('Hop', [('col0', z), ('col1', Var('w'))]),
                                        Neg([Atom('Hop', [('col0', Var('w')), ('col1', x)])])]))],
      True)])
  return (Prog([E, T, Hop, SumR, No4, Both]), ['Hop', 'SumR', 'No4', 'Both'],
          ['fam_inline_subquery_in_combine'])


def ArglessInjectTwice(rng):
  """An argument-less injectible predicate with several rows (a function of
  no arguments with several values) called twice in one rule: every call is
  its own conjunct, so the pairs are the square."""
  a, b, x = Var('a'), Var('b'), Var('x')
  V = Facts('V', RandRows(rng, 1, n=3, lo=1, hi=7))
  W = Facts('W', [(1, 10), (2, 20), (7, 70), (3, 30)])
  Pick = Pred('Pick', [Rule([('logica_value', x, '')], [Atom('V', [('col0', x)])])])
  Any = Pred('Any', [Rule([], [Atom('V', [('col0', x)]), Cmp(Op('>', x, Lit(N_(1))))])])
  Pairs = Pred('Pairs', [Rule([('col0', a, ''), ('col1', b, '')],
      [Unify(a, PCall('Pick', [])), Unify(b, PCall('Pick', []))])])
  Offers = Pred('Offers', [Rule([('col0', a, ''), ('col1', Var('p'), ''), ('col2', b, '')],
      [Unify(a, PCall('Pick', [])), Atom('W', [('col0', a), ('col1', Var('p'))]),
       Unify(b, PCall('Pick', [])), Cmp(Op('<=', a, b))])])
  Cnt = Pred('Cnt', [Rule([('logica_value', Op('+', PCall('Pick', []), PCall('Pick', [])), 'Sum')],
                          [Atom('Any', []), Atom('Any', [])], True)])
  return (Prog([V, W, Pick, Any, Pairs, Offers, Cnt]), ['Pairs', 'Offers', 'Cnt'],
          ['fam_argless_inject_twice'])


def NestedAggHelper(rng):
  """An injectible-only aggregate helper (a function given by an aggregating
  expression over its parameter) nested in itself and called through another
  injectible predicate: the local variables of every instance stay apart."""
  x, y, t = Var('x'), Var('y'), Var('t')
  U = Facts('U', [(1, 2), (1, 4), (2, 1), (2, 3), (6, 5), (4, 1)] +
            RandRows(rng, 2, n=1, lo=1, hi=6))
  V = Facts('V', [(1,), (2,), (5,)])
  Tot = Pred('Tot', [Rule([('col0', x, ''),
                           ('logica_value', AggE('Sum', y, [Atom('U', [('col0', x), ('col1', y)])]), '')],
                          [])], inline=True)
  Inner = Pred('Inner', [Rule([('col0', x, ''), ('logica_value', PCall('Tot', [('col0', x)]), '')],
                              [Atom('V', [('col0', x)])])])
  R = Pred('R', [Rule([('col0', x, ''), ('col1', t, '')],
      [Atom('V', [('col0', x)]),
       Unify(t, PCall('Tot', [('col0', PCall('Inner', [('col0', x)]))]))])])
  Twice = Pred('Twice', [Rule([('col0', x, ''), ('col1', t, '')],
      [Atom('V', [('col0', x)]),
       Unify(t, PCall('Tot', [('col0', PCall('Tot', [('col0', x)]))]))])])
  Once = Pred('Once', [Rule([('col0', x, ''), ('col1', t, ''), ('col2', Var('s'), '')],
      [Atom('V', [('col0', x)]), Unify(t, PCall('Tot', [('col0', x)])),
       Unify(Var('s'), PCall('Tot', [('col0', Op('+', x, Lit(N_(1))))]))])])
  return (Prog([U, V, Tot, Inner, R, Twice, Once]), ['Inner', 'R', 'Twice', 'Once'],
          ['fam_nested_agg_helper'])


C08_FAMILIES = [
    ('inject_combine_shared', lambda r: InjectCombine(r, True)),
    ('inject_combine_shared_max', lambda r: InjectCombine(r, True, 'Max')),
    ('inject_combine_distinct', lambda r: InjectCombine(r, False)),
    ('inject_negation_shared', lambda r: InjectNegation(r, True)),
    ('inject_negation_distinct', lambda r: InjectNegation(r, False)),
    ('keyless_aggregate', KeylessAggregate),
    ('with_ground_chain_e_g', lambda r: WithGroundChain(r, True, True)),
    ('with_ground_chain_e_w', lambda r: WithGroundChain(r, True, False)),
    ('with_ground_chain_w_g', lambda r: WithGroundChain(r, False, True)),
    ('with_ground_chain_w_w', lambda r: WithGroundChain(r, False, False)),
    ('inline_subquery_in_combine', InlineSubqueryInCombine),
    ('argless_inject_twice', ArglessInjectTwice),
    ('nested_agg_helper', NestedAggHelper),
]


# ---- C04: functor shapes beyond the random generator -----------------------------

def _Unary(name, rng, lo=0, hi=2):
  return Facts(name, [(v,) for v in sorted({rng.randint(lo, hi)
                                            for _ in range(rng.randint(2, 4))})])


def MadeWithOwnRules(rng):
  """A made predicate that also has a hand-written rule, then used through
  another functor whose argument lies in the made part."""
  x = Var('x')
  A, B, C, Ex = (_Unary(n, rng) for n in ('A', 'B', 'C', 'Extra'))
  F = Pred('F', [Rule([('col0', x, '')], [Atom('A', [('col0', x)])])])
  N = Pred('N', [Rule([('col0', x, '')], [Atom('Extra', [('col0', x)])])])
  G = Pred('G', [Rule([('col0', x, '')],
                      [Atom('N', [('col0', x)]), Cmp(Op('>', x, Lit(N_(0))))])])
  prog = Prog([A, B, C, Ex, F, N, G])
  prog['makes'] = [{'name': 'N', 'functor': 'F', 'args': [{'k': 'A', 'v': 'B'}]},
                   {'name': 'P', 'functor': 'G', 'args': [{'k': 'B', 'v': 'C'}]}]
  return prog, ['F', 'N', 'G', 'P', 'A', 'B', 'C'], ['fam_made_with_own_rules']


def MadeWithLimit(rng):
  """A made predicate with its own @OrderBy/@Limit; a second functor built
  from the same applicant with EQUAL bindings must not be wired to it."""
  x = Var('x')
  A, B = _Unary('A', rng), _Unary('B', rng)
  F = Pred('F', [Rule([('col0', x, '')], [Atom('A', [('col0', x)])])])
  Nl = Pred('N', [], order=[('col0', rng.random() < 0.5)], limit=1)
  G = Pred('G', [Rule([('col0', x, '')],
                      [Atom('F', [('col0', x)]), Cmp(Op('>=', x, Lit(N_(0))))])])
  prog = Prog([A, B, F, Nl, G])
  prog['makes'] = [{'name': 'N', 'functor': 'F', 'args': [{'k': 'A', 'v': 'B'}]},
                   {'name': 'P', 'functor': 'G', 'args': [{'k': 'A', 'v': 'B'}]}]
  return prog, ['F', 'N', 'G', 'P'], ['fam_made_with_limit']


def MakeOrderChain(rng):
  """N := H(D: V) with V an ordinary predicate built from the made predicate
  W; P := F(X: Y) where F reaches W only through N and X is used inside W.
  The names are ordered N < P < W, the program text lists the functor
  applications in a random order."""
  x = Var('x')
  X, Y, Z, Z2, D = (_Unary(n, rng) for n in ('X', 'Y', 'Z', 'Z2', 'D'))
  K = Pred('K', [Rule([('col0', x, '')],
                      [Atom('Z', [('col0', x)]), Atom('X', [('col0', x)])])])
  V = Pred('V', [Rule([('col0', x, '')],
                      [Atom('W', [('col0', x)]), Cmp(Op('>=', x, Lit(N_(0))))])])
  H = Pred('H', [Rule([('col0', x, '')], [Atom('D', [('col0', x)])])])
  F = Pred('F', [Rule([('col0', x, '')], [Atom('N', [('col0', x)])])])
  prog = Prog([X, Y, Z, Z2, D, K, V, H, F])
  prog['makes'] = [{'name': 'W', 'functor': 'K', 'args': [{'k': 'Z', 'v': 'Z2'}]},
                   {'name': 'N', 'functor': 'H', 'args': [{'k': 'D', 'v': 'V'}]},
                   {'name': 'P', 'functor': 'F', 'args': [{'k': 'X', 'v': 'Y'}]}]
  order = [0, 1, 2]
  rng.shuffle(order)
  prog['makes_text_order'] = order
  return prog, ['W', 'V', 'N', 'F', 'P'], ['fam_make_order_chain']


def _Distinct(names, rng, lo=0, hi=9):
  """Unary fact tables with pairwise different contents."""
  pool = list(range(lo, hi + 1))
  rng.shuffle(pool)
  out, at = [], 0
  for n in names:
    k = rng.randint(1, 2)
    out.append(Facts(n, [(v,) for v in sorted(pool[at:at + k])]))
    at += k
  return out


def SwapBindings(rng):
  """One application whose bindings overlap: F(A: B, B: A) and F(A: B, B: C).
  The substitution is simultaneous."""
  x, y = Var('x'), Var('y')
  A, B, C = _Distinct(['A', 'B', 'C'], rng)
  F = Pred('F', [Rule([('col0', x, ''), ('col1', y, '')],
                      [Atom('A', [('col0', x)]), Atom('B', [('col0', y)])])])
  G = Pred('G', [Rule([('col0', x, ''), ('logica_value', y, 'Sum')],
                      [Atom('F', [('col0', x), ('col1', y)])], True)])
  prog = Prog([A, B, C, F, G])
  prog['makes'] = [{'name': 'Swapped', 'functor': 'F',
                    'args': [{'k': 'A', 'v': 'B'}, {'k': 'B', 'v': 'A'}]},
                   {'name': 'Shifted', 'functor': 'F',
                    'args': [{'k': 'A', 'v': 'B'}, {'k': 'B', 'v': 'C'}]},
                   {'name': 'GShift', 'functor': 'G',
                    'args': [{'k': 'B', 'v': 'C'}, {'k': 'A', 'v': 'B'}]}]
  return prog, ['F', 'G', 'Swapped', 'Shifted', 'GShift'], ['fam_swap_bindings']


def CloneLimitedTwice(rng):
  """An ordered + limited intermediate predicate cloned by one application
  and cloned again by an application to the result: every clone keeps the
  order and the limit."""
  x, y = Var('x'), Var('y')
  A, B, C, D = _Distinct(['A', 'B', 'C', 'D'], rng)
  Top = Pred('Top', [Rule([('col0', x, '')],
                          [Or([[Atom('A', [('col0', x)])], [Atom('C', [('col0', x)])]])])],
             order=[('col0', rng.random() < 0.5)], limit=1)
  F = Pred('F', [Rule([('col0', x, '')], [Atom('Top', [('col0', x)])])])
  G = Pred('G', [Rule([('col0', x, ''), ('col1', y, '')],
                      [Atom('N', [('col0', x)]), Atom('Top', [('col0', y)])])])
  prog = Prog([A, B, C, D, Top, F, G])
  prog['makes'] = [{'name': 'N', 'functor': 'F', 'args': [{'k': 'A', 'v': 'B'}]},
                   {'name': 'P', 'functor': 'N', 'args': [{'k': 'C', 'v': 'D'}]},
                   {'name': 'Q', 'functor': 'G', 'args': [{'k': 'C', 'v': 'D'}]}]
  return prog, ['Top', 'F', 'N', 'P', 'G', 'Q'], ['fam_clone_limited_twice']


def ArgInsideList(rng):
  """The functor argument is reached through a predicate that mentions it only
  inside a list literal (and also along an ordinary path)."""
  x, l = Var('x'), Var('l')
  A, B = _Distinct(['A', 'B'], rng, 1, 9)
  MaxA = Pred('MaxA', [Rule([('logica_value', x, 'Max')], [Atom('A', [('col0', x)])], True)])
  Lst = Pred('Lst', [Rule([('col0', l, '')],
                          [Unify(l, ListE([PCall('MaxA', []), Lit(N_(0))]))])])
  F = Pred('F', [Rule([('col0', x, ''), ('col1', Lit(S('inner')), '')],
                      [Atom('Lst', [('col0', l)]), Inc(x, l)]),
                 Rule([('col0', x, ''), ('col1', Lit(S('end')), '')],
                      [Atom('A', [('col0', x)])])])
  H = Pred('H', [Rule([('col0', x, '')],
                      [Atom('Lst', [('col0', l)]), Inc(x, l), Cmp(Op('>', x, Lit(N_(0))))])])
  prog = Prog([A, B, MaxA, Lst, F, H])
  prog['makes'] = [{'name': 'N', 'functor': 'F', 'args': [{'k': 'A', 'v': 'B'}]},
                   {'name': 'M', 'functor': 'H', 'args': [{'k': 'A', 'v': 'B'}]}]
  return prog, ['F', 'H', 'N', 'M'], ['fam_arg_inside_list']


def TwoInstancesChain(rng):
  """The same functor applied twice with different values of one argument that
  it reaches only through a chain of intermediate predicates: every
  application gets its own copies of the whole chain."""
  x = Var('x')
  A, B, C = _Distinct(['A', 'B', 'C'], rng)
  Inner = Pred('Inner', [Rule([('col0', x, '')], [Atom('A', [('col0', x)])]),
                         Rule([('col0', Op('+', x, Lit(N_(10))), '')],
                              [Atom('A', [('col0', x)])])])
  Mid = Pred('Mid', [Rule([('col0', x, ''), ('logica_value', Lit(N_(1)), 'Sum')],
                          [Atom('Inner', [('col0', x)])], True)])
  F = Pred('F', [Rule([('col0', x, ''), ('col1', Var('n'), '')],
                      [Atom('Mid', [('col0', x), ('logica_value', Var('n'))])])])
  prog = Prog([A, B, C, Inner, Mid, F])
  names = ['Shop', 'Market']
  rng.shuffle(names)
  prog['makes'] = [{'name': names[0], 'functor': 'F', 'args': [{'k': 'A', 'v': 'B'}]},
                   {'name': names[1], 'functor': 'F', 'args': [{'k': 'A', 'v': 'C'}]}]
  return prog, ['F', 'Shop', 'Market'], ['fam_two_instances_chain']


def ArgInHead(rng):
  """The functor argument is reached only through a call written in the HEAD
  of a rule (a functional value computed in the head)."""
  x = Var('x')
  A, B, T = _Distinct(['A', 'B', 'T'], rng, 1, 9)
  MaxA = Pred('MaxA', [Rule([('logica_value', x, 'Max')], [Atom('A', [('col0', x)])], True)])
  F = Pred('F', [Rule([('col0', x, ''), ('col1', Op('+', x, PCall('MaxA', [])), '')],
                      [Atom('T', [('col0', x)])])])
  G = Pred('G', [Rule([('col0', x, ''), ('logica_value', PCall('MaxA', []), 'Sum')],
                      [Atom('T', [('col0', x)])], True)])
  prog = Prog([A, B, T, MaxA, F, G])
  prog['makes'] = [{'name': 'N', 'functor': 'F', 'args': [{'k': 'A', 'v': 'B'}]},
                   {'name': 'M', 'functor': 'G', 'args': [{'k': 'A', 'v': 'B'}]}]
  return prog, ['F', 'G', 'N', 'M'], ['fam_arg_in_head']


C04_FAMILIES = [('made_with_own_rules', MadeWithOwnRules),
                ('made_with_limit', MadeWithLimit),
                ('make_order_chain', MakeOrderChain),
                ('swap_bindings', SwapBindings),
                ('clone_limited_twice', CloneLimitedTwice),
                ('arg_inside_list', ArgInsideList),
                ('two_instances_chain', TwoInstancesChain),
                ('arg_in_head', ArgInHead)]


# ---- C01 / C11: else-if chains, repeated functional calls --------------------------

def IfChain(rng, k=None):
  """P(x, <else-if chain over thresholds of x>) :- E(x) with every x in 0..4.
  Non-adjacent branches share a value and later conditions overlap earlier
  ones, so the first matching branch must win."""
  import itertools
  combos = list(itertools.combinations([0, 1, 2, 3], 3))
  patterns = [(0, 1, 0), (0, 1, 1), (0, 0, 1), (1, 0, 1)]
  k = rng.randrange(10 ** 6) if k is None else k
  ths = sorted(combos[k % len(combos)], reverse=True)
  pat = patterns[(k // len(combos)) % len(patterns)]
  op = ['>', '>='][(k // (len(combos) * len(patterns))) % 2]
  strings = (k // 32) % 2 == 0
  vals = [Lit(S('far')), Lit(S('near'))] if strings else [Lit(N(10)), Lit(N(20))]
  other = Lit(S('none')) if strings else Lit(N(0))
  x = Var('x')
  e = other
  for j, th in enumerate(reversed(ths)):
    nxt = If(Op(op, x, Lit(N(th))), vals[pat[2 - j]], e)
    if e.get('k') == 'if':
      e['chain'] = True
    e = nxt
  E = Facts('E', [(i,) for i in range(5)])
  P = Pred('P', [Rule([('col0', x, ''), ('col1', e, '')],
                      [Atom('E', [('col0', x)])])])
  Q = Pred('Q', [Rule([('col0', x, '')],
                      [Atom('E', [('col0', x)]),
                       Cmp(Op('==', e, vals[0]))])])
  return Prog([E, P, Q]), ['P', 'Q'], ['fam_if_chain']


def RepeatedCall(rng):
  """A multi-valued functional predicate called twice with the same arguments
  in one rule: each occurrence is its own conjunct."""
  x = Var('x')
  rows = RandRows(rng, 2, n=4, lo=0, hi=2)
  Fp = Pred('F', [Rule([('col0', Lit(N(a)), ''), ('logica_value', Lit(N(b)), '')])
                  for a, b in rows])
  T = Facts('T', [(i,) for i in range(3)])
  Qp = Pred('Q', [Rule([('col0', x, ''),
                        ('col1', Op('+', PCall('F', [('col0', x)]),
                                    PCall('F', [('col0', x)])), '')],
                       [Atom('T', [('col0', x)])])])
  Rp = Pred('R', [Rule([('col0', x, ''),
                        ('logica_value', Op('*', PCall('F', [('col0', x)]),
                                            PCall('F', [('col0', x)])), 'Sum')],
                       [Atom('T', [('col0', x)])], True)])
  Sp = Pred('S', [Rule([('col0', x, ''), ('col1', Var('a'), ''),
                        ('col2', Var('b'), '')],
                       [Atom('T', [('col0', x)]),
                        Unify(Var('a'), PCall('F', [('col0', x)])),
                        Unify(Var('b'), PCall('F', [('col0', x)]))])])
  return Prog([Fp, T, Qp, Rp, Sp]), ['Q', 'R', 'S'], ['fam_repeated_call']


def DoubleNegation(rng):
  x, y = Var('x'), Var('y')
  R = Facts('R', RandRows(rng, 2, n=4, lo=0, hi=2))
  T = Facts('T', [(i,) for i in range(3)])
  Qp = Pred('Q', [Rule([('col0', x, '')],
                       [Atom('T', [('col0', x)]),
                        Neg([Neg([Atom('R', [('col0', x), ('col1', y)])])])])])
  Cp = Pred('C', [Rule([('col0', x, ''), ('logica_value', Lit(N(1)), 'Sum')],
                       [Atom('T', [('col0', x)]),
                        Neg([Neg([Atom('R', [('col0', x), ('col1', y)])])])],
                       True)])
  return Prog([R, T, Qp, Cp]), ['Q', 'C'], ['fam_double_negation']


def BoundInRepeated(rng):
  """x in [a, a] / x in [a, v] with x already bound: one alternative per
  element (so a repeated element doubles the row)."""
  x, a = Var('x'), Var('a')
  T = Facts('T', RandRows(rng, 1, n=3, lo=1, hi=2))
  Sx = Facts('S', [(2,), (1,)])
  Qp = Pred('Q', [Rule([('col0', x, '')],
                       [Atom('T', [('col0', x)]),
                        Inc(x, ListE([Lit(N(2)), Lit(N(2))]))])])
  Cp = Pred('C', [Rule([('logica_value', Lit(N(1)), 'Sum')],
                       [Atom('T', [('col0', x)]), Atom('S', [('col0', a)]),
                        Inc(x, ListE([a, Lit(N(2))]))], True)])
  Rp = Pred('R', [Rule([('col0', x, '')],
                       [Inc(x, ListE([Lit(N(2)), Lit(N(2))])),
                        Atom('T', [('col0', x)])])])
  return Prog([T, Sx, Qp, Cp, Rp]), ['Q', 'C', 'R'], ['fam_bound_in_repeated']


def SiblingCombines(rng):
  """Sibling aggregating expressions (and a negation) of one rule whose local
  variables have the same name; the locals must stay apart."""
  x, y = Var('x'), Var('y')
  T = Facts('T', [(i,) for i in range(3)])
  U = Facts('U', RandRows(rng, 2, lo=0, hi=2))
  V = Facts('V', RandRows(rng, 2, lo=0, hi=2))
  P = Pred('P', [Rule(
      [('col0', x, ''), ('a', Var('a'), ''), ('b', Var('b'), '')],
      [Atom('T', [('col0', x)]),
       Unify(Var('a'), AggE('Sum', y, [Atom('U', [('col0', x), ('col1', y)])])),
       Unify(Var('b'), AggE('Max', y, [Atom('V', [('col0', x), ('col1', y)])]))])])
  Q = Pred('Q', [Rule(
      [('col0', x, ''), ('c', Var('c'), '')],
      [Atom('T', [('col0', x)]),
       Unify(Var('c'), AggE('Count', y, [Atom('U', [('col0', x), ('col1', y)])])),
       Neg([Atom('V', [('col0', x), ('col1', y)]),
            Cmp(Op('>', y, Lit(N(1))))])])])
  R = Pred('R', [Rule(
      [('col0', x, ''), ('logica_value', Var('s'), 'Sum')],
      [Atom('T', [('col0', x)]),
       Unify(Var('s'), AggE('Sum', Op('+', y, Var('m')),
                            [Atom('U', [('col0', x), ('col1', y)]),
                             Unify(Var('m'), AggE('Max', Var('z'),
                                                  [Atom('V', [('col0', y),
                                                              ('col1', Var('z'))])]))])),
       Unify(Var('t'), AggE('Min', Var('z'), [Atom('V', [('col0', x), ('col1', Var('z'))])]))],
      True)])
  # two nested combines of different parents introduce a local of one name,
  # which is also the name of a local of a sibling at the top
  def Inner(outer):
    return Unify(Var('m'), AggE('Max', Var('z'),
                                [Atom('V', [('col0', outer), ('col1', Var('z'))])]))
  N2 = Pred('N2', [Rule(
      [('col0', x, ''), ('s', Var('s'), ''), ('t', Var('t'), ''), ('u', Var('u'), '')],
      [Atom('T', [('col0', x)]),
       Unify(Var('s'), AggE('Sum', Op('+', y, Var('m')),
                            [Atom('U', [('col0', x), ('col1', y)]), Inner(y)])),
       Unify(Var('t'), AggE('Sum', Op('*', Var('w'), Var('m')),
                            [Atom('U', [('col0', Var('w')), ('col1', x)]), Inner(Var('w'))])),
       Unify(Var('u'), AggE('Min', Var('z'), [Atom('U', [('col0', x), ('col1', Var('z'))])]))])])
  return Prog([T, U, V, P, Q, R, N2]), ['P', 'Q', 'R', 'N2'], ['fam_sibling_combines',
                                                              'fam_shared_local']

def DupDisjuncts(rng):
  """Alternatives of one disjunction that are equal, or equal up to the order
  of their conjuncts: each alternative contributes its own derivations."""
  x, y = Var('x'), Var('y')
  P = Facts('P', RandRows(rng, 2, n=4, lo=0, hi=2))
  K = Facts('K', [(0,), (1,), (1,)])
  def A():
    return Atom('P', [('col0', x), ('col1', y)])
  def B():
    return Atom('K', [('col0', x)])
  Q = Pred('Q', [Rule([('col0', x, ''), ('col1', y, '')],
                      [Or([[A(), B()], [B(), A()]])])])
  R = Pred('R', [Rule([('col0', x, ''), ('col1', y, '')],
                      [Or([[A(), B()], [A(), B()], [Atom('P', [('col0', y), ('col1', x)])]])])])
  Sx = Pred('S', [Rule([('col0', x, ''), ('logica_value', Lit(N_(1)), 'Sum')],
                       [Or([[B()], [B()]]), A()], True)])
  return Prog([P, K, Q, R, Sx]), ['Q', 'R', 'S'], ['fam_dup_disjuncts']


def ImplicationConj(rng):
  """A => (B, C) written with the arrow: ~(A, ~(B, C)), with witnesses of A
  that satisfy some but not all of the consequence."""
  x, y = Var('x'), Var('y')
  T = Facts('T', [(i,) for i in range(4)])
  A = Facts('A', [(0, 0), (0, 1), (1, 1), (2, 2), (3, rng.randint(0, 2))])
  B = Facts('B', [(0,), (1,)] + [(rng.randint(0, 2),)])
  C = Facts('C', [(1,), (rng.randint(0, 2),)])
  def Imp():
    n = Neg([Atom('A', [('col0', x), ('col1', y)]),
             Neg([Atom('B', [('col0', y)]), Atom('C', [('col0', y)])])])
    n['form'] = 'implication'
    return n
  Q = Pred('Q', [Rule([('col0', x, '')], [Atom('T', [('col0', x)]), Imp()])])
  Cn = Pred('Cn', [Rule([('logica_value', Lit(N_(1)), 'Sum')],
                        [Atom('T', [('col0', x)]), Imp()], True)])
  W = Pred('W', [Rule([('col0', x, ''), ('col1', Var('c'), '')],
                      [Atom('T', [('col0', x)]),
                       Unify(Var('c'), AggE('Sum', Var('z'),
                                            [Atom('T', [('col0', Var('z'))]),
                                             Cmp(Op('<=', Var('z'), x)),
                                             Neg([Atom('A', [('col0', Var('z')), ('col1', y)]),
                                                  Neg([Atom('B', [('col0', y)]),
                                                       Cmp(Op('>', y, Lit(N_(0))))])])]))])])
  W['rules'][0]['body'][1]['r']['body'][2]['form'] = 'implication'
  return Prog([T, A, B, C, Q, Cn, W]), ['Q', 'Cn', 'W'], ['fam_implication_conj']


def PartialCallInCombine(rng):
  """A partial / multi-valued functional predicate called inside a negation
  or an aggregating expression with arguments from the enclosing rule (or
  constants): the call is a conjunct of the inner body, not of the outer."""
  x = Var('x')
  K = Facts('K', [(i,) for i in range(4)])
  rows = [(0, 10), (1, 30), (1, 5), (3, rng.choice([10, 30]))]   # nothing for 2
  F = Pred('F', [Rule([('col0', Lit(N_(a)), ''), ('logica_value', Lit(N_(b)), '')])
                 for a, b in rows])
  Rate = Pred('Rate', [Rule([('col0', Lit(S('usd')), ''), ('logica_value', Lit(N_(2)), '')]),
                       Rule([('col0', Lit(S('chf')), ''), ('logica_value', Lit(N_(1)), '')]),
                       Rule([('col0', Lit(S('chf')), ''), ('logica_value', Lit(N_(3)), '')])])
  NotExp = Pred('NotExp', [Rule([('col0', x, '')],
      [Atom('K', [('col0', x)]),
       Neg([Cmp(Op('>', PCall('F', [('col0', x)]), Lit(N_(20))))])])])
  Rev = Pred('Rev', [Rule([('col0', x, ''), ('col1', Var('r'), '')],
      [Atom('K', [('col0', x)]),
       Unify(Var('r'), AggE('Sum', Var('v'),
                            [Unify(Var('v'), PCall('F', [('col0', x)]))]))])])
  cur = rng.choice(['eur', 'usd', 'chf'])
  Cheap = Pred('Cheap', [Rule([('col0', x, '')],
      [Atom('K', [('col0', x)]),
       Neg([Cmp(Op('>', x, PCall('Rate', [('col0', Lit(S(cur)))])))])])])
  Tot = Pred('Tot', [Rule([('col0', x, ''), ('logica_value', Var('m'), 'Max')],
      [Atom('K', [('col0', x)]),
       Unify(Var('m'), AggE('Sum', Op('*', x, Var('q')),
                            [Unify(Var('q'), PCall('Rate', [('col0', Lit(S(cur)))]))]))],
      True)])
  return (Prog([K, F, Rate, NotExp, Rev, Cheap, Tot]),
          ['NotExp', 'Rev', 'Cheap', 'Tot'], ['fam_partial_call_in_combine'])


def RepeatedInject(rng):
  """One injectible predicate holding an aggregating expression / a negation,
  used twice in a rule with different arguments."""
  a, b, x, y = Var('a'), Var('b'), Var('x'), Var('y')
  T = Facts('T', [(i,) for i in range(3)])
  U = Facts('U', [(0, 1), (0, 2), (1, rng.randint(1, 4))] +
            ([(2, 5)] if rng.random() < 0.3 else []))
  Pair = Facts('Pair', [(0, 1), (1, 0), (0, 2), (2, 2)])
  Num = Pred('Num', [Rule([('col0', x, ''), ('col1', Var('s'), '')],
      [Atom('T', [('col0', x)]),
       Unify(Var('s'), AggE('Sum', y, [Atom('U', [('col0', x), ('col1', y)])]))])])
  Lone = Pred('Lone', [Rule([('col0', x, '')],
      [Atom('T', [('col0', x)]), Neg([Atom('U', [('col0', x), ('col1', y)])])])])
  Compare = Pred('Compare', [Rule(
      [('col0', a, ''), ('col1', b, ''), ('na', Var('na'), ''), ('nb', Var('nb'), '')],
      [Atom('Pair', [('col0', a), ('col1', b)]),
       Atom('Num', [('col0', a), ('col1', Var('na'))]),
       Atom('Num', [('col0', b), ('col1', Var('nb'))])])])
  Both = Pred('Both', [Rule([('col0', a, ''), ('col1', b, '')],
      [Atom('Pair', [('col0', a), ('col1', b)]),
       Atom('Lone', [('col0', a)]), Atom('Lone', [('col0', b)])])])
  Mixed = Pred('Mixed', [Rule([('col0', a, ''), ('col1', b, '')],
      [Atom('Pair', [('col0', a), ('col1', b)]),
       Atom('Lone', [('col0', b)]),
       Neg([Atom('U', [('col0', a), ('col1', y)])])])])
  return (Prog([T, U, Pair, Num, Lone, Compare, Both, Mixed]),
          ['Compare', 'Both', 'Mixed'], ['fam_repeated_inject'])


def MultiDisjConj(rng):
  """Several disjunctive conjuncts in one body: the body is the product."""
  x, y, z = Var('x'), Var('y'), Var('z')
  A = Facts('A', RandRows(rng, 1, lo=0, hi=2))
  B = Facts('B', RandRows(rng, 1, lo=0, hi=2))
  C = Facts('C', RandRows(rng, 1, lo=0, hi=2))
  D = Facts('D', RandRows(rng, 1, lo=0, hi=2))
  def At(p, v):
    return Atom(p, [('col0', v)])
  P = Pred('P', [Rule([('col0', x, ''), ('col1', y, '')],
                      [Or([[At('A', x)], [At('B', x)]]),
                       Or([[At('C', y)], [At('D', y)]])])])
  Q = Pred('Q', [Rule([('col0', x, ''), ('col1', y, ''), ('col2', z, '')],
                      [Or([[At('A', x)], [At('B', x)]]),
                       At('C', y),
                       Or([[At('C', z), Cmp(Op('<', z, Lit(N_(2))))], [At('D', z)]]),
                       Or([[Cmp(Op('==', x, y))], [Cmp(Op('<', x, z))]])])])
  R = Pred('R', [Rule([('logica_value', Op('+', x, y), 'Sum')],
                      [Or([[At('A', x)], [At('B', x)]]),
                       Or([[At('C', y)], [At('D', y)]])], True)])
  return Prog([A, B, C, D, P, Q, R]), ['P', 'Q', 'R'], ['fam_multi_disj_conj']


def InExprRepeated(rng):
  """`e in l` with a computed / constant / already bound left side and a list
  (literal or a column) that repeats the matching value: one alternative per
  element, wherever the inclusion stands in the body."""
  x, it, i = Var('x'), Var('item'), Var('id')
  T = Facts('T', RandRows(rng, 1, n=3, lo=0, hi=2))
  L = Pred('L', [Rule([('col0', Lit(N_(1)), ''),
                       ('col1', ListE([Lit(N_(2)), Lit(N_(2)), Lit(N_(1))]), '')]),
                 Rule([('col0', Lit(N_(2)), ''),
                       ('col1', ListE([Lit(N_(0)), Lit(N_(rng.randint(0, 2)))]), '')])])
  Stock = Facts('Stock', [(2,), (0,)])
  ByExpr = Pred('ByExpr', [Rule([('col0', x, '')],
      [Atom('T', [('col0', x)]),
       Inc(Op('+', x, Lit(N_(1))), ListE([Lit(N_(2)), Lit(N_(2)), Lit(N_(3))]))])])
  Const = Pred('Const', [Rule([('col0', x, '')],
      [Atom('T', [('col0', x)]),
       Inc(Lit(N_(7)), ListE([Lit(N_(7)), Lit(N_(7)), Lit(N_(1))]))])])
  FromData = Pred('FromData', [Rule([('col0', i, ''), ('col1', x, '')],
      [Atom('T', [('col0', x)]), Atom('L', [('col0', i), ('col1', Var('l'))]),
       Inc(Op('*', x, Lit(N_(2))), Var('l'))])])
  Before = Pred('Before', [Rule([('col0', i, ''), ('col1', it, '')],
      [Atom('L', [('col0', i), ('col1', Var('l'))]), Inc(it, Var('l')),
       Atom('Stock', [('col0', it)])])])
  After = Pred('After', [Rule([('col0', i, ''), ('col1', it, '')],
      [Atom('L', [('col0', i), ('col1', Var('l'))]),
       Atom('Stock', [('col0', it)]), Inc(it, Var('l'))])])
  return (Prog([T, L, Stock, ByExpr, Const, FromData, Before, After]),
          ['ByExpr', 'Const', 'FromData', 'Before', 'After'],
          ['fam_in_expr_repeated'])


def UnionNamedPositional(rng):
  """Rules of one predicate with two positional and two or three named
  arguments, the named ones listed in another order in later rules."""
  x, y = Var('x'), Var('y')
  E = Facts('E', RandRows(rng, 2, lo=0, hi=3))
  def R(vals, order, body=()):
    r = Rule([('col0', vals[0], ''), ('col1', vals[1], ''),
              ('kind', vals[2], ''), ('toll', vals[3], '')] +
             ([('zone', vals[4], '')] if len(vals) > 4 else []), body)
    r['named_order'] = order
    return r
  Edge = Pred('Edge', [
      R([Lit(N_(1)), Lit(N_(2)), Lit(S('road')), Lit(N_(0))], ['kind', 'toll']),
      R([Lit(N_(3)), Lit(N_(4)), Lit(S('rail')), Lit(N_(7))], ['toll', 'kind']),
      R([x, y, Lit(S('path')), Op('+', x, y)], ['toll', 'kind'],
        [Atom('E', [('col0', x), ('col1', y)])])])
  Z = Pred('Z', [
      R([Lit(N_(1)), Lit(N_(2)), Lit(S('a')), Lit(N_(0)), Lit(S('n'))], ['kind', 'toll', 'zone']),
      R([Lit(N_(3)), Lit(N_(4)), Lit(S('b')), Lit(N_(7)), Lit(S('s'))], ['zone', 'kind', 'toll']),
      R([Lit(N_(5)), Lit(N_(6)), Lit(S('c')), Lit(N_(8)), Lit(S('w'))], ['toll', 'zone', 'kind'])])
  Use = Pred('Use', [Rule([('col0', x, ''), ('col1', Var('k'), '')],
      [Atom('Edge', [('col0', x), ('col1', y), ('kind', Var('k')), ('toll', Var('t'))]),
       Cmp(Op('>', Var('t'), Lit(N_(0))))])])
  return Prog([E, Edge, Z, Use]), ['Edge', 'Z', 'Use'], ['fam_union_named_positional']


def ParamAlias(rng):
  """P(y, y) on an injectible predicate where one position is an output of
  the body and the other a parameter (a head variable the body leaves to the
  caller): the parameter becomes an alias of the output."""
  pv, q, x, y, v = Var('p'), Var('q'), Var('x'), Var('y'), Var('v')
  E = Facts('E', RandRows(rng, 2, n=4, lo=0, hi=2))
  T = Facts('T', [(i,) for i in range(3)])
  G = Pred('G', [Rule([('col0', pv, ''), ('col1', q, ''),
                       ('logica_value', Op('+', pv, q), '')],
                      [Atom('E', [('col0', pv), ('col1', x)]),
                       Cmp(Op('>=', q, Lit(N_(1))))])], inline=True)
  H = Pred('H', [Rule([('col0', pv, ''), ('col1', q, ''), ('logica_value', x, '')],
                      [Atom('E', [('col0', pv), ('col1', x)])])], inline=True)
  A = Pred('A', [Rule([('col0', y, ''), ('col1', v, '')],
                      [Atom('G', [('col0', y), ('col1', y), ('logica_value', v)])])])
  B = Pred('B', [Rule([('col0', y, ''), ('col1', v, '')],
                      [Atom('H', [('col0', y), ('col1', y), ('logica_value', v)]),
                       Atom('E', [('col0', y), ('col1', Var('z'))])])])
  C = Pred('C', [Rule([('col0', y, ''), ('logica_value', v, 'Sum')],
                      [Atom('T', [('col0', y)]),
                       Atom('H', [('col0', y), ('col1', y), ('logica_value', v)])],
                      True)])
  return Prog([E, T, G, H, A, B, C]), ['A', 'B', 'C'], ['fam_param_alias']


def NestedIn(rng):
  """`l in ll, x in l` over a list of lists: the second unnesting depends on
  the first, in whatever order the conjuncts are written."""
  i, x, y, l, ll = Var('i'), Var('x'), Var('y'), Var('l'), Var('ll')
  def LL(rows):
    return ListE([ListE([Lit(N_(v)) for v in r]) for r in rows])
  L = Pred('L', [Rule([('col0', Lit(N_(1)), ''), ('col1', LL([[1, 2], [3]]), '')]),
                 Rule([('col0', Lit(N_(2)), ''),
                       ('col1', LL([[4], [4, rng.randint(4, 6)], []]), '')])])
  P = Pred('P', [Rule([('col0', i, ''), ('col1', x, '')],
                      [Atom('L', [('col0', i), ('col1', ll)]), Inc(l, ll), Inc(x, l)])])
  Q = Pred('Q', [Rule([('col0', i, ''), ('col1', x, ''), ('col2', y, '')],
                      [Inc(y, l), Inc(x, l), Cmp(Op('<', x, y)), Inc(l, ll),
                       Atom('L', [('col0', i), ('col1', ll)])])])
  R = Pred('R', [Rule([('col0', i, ''), ('logica_value', x, 'Sum')],
                      [Inc(x, l), Inc(l, ll), Atom('L', [('col0', i), ('col1', ll)])],
                      True)])
  return Prog([L, P, Q, R]), ['P', 'Q', 'R'], ['fam_nested_in']


def RecordPattern(rng):
  """`{a: x, b: y} == r`: assignment to variables in record fields, also with
  a ground field that has to match and with the pattern on the right."""
  a, b, r = Var('a'), Var('b'), Var('r')
  rows = [(1, 'x'), (2, 'y'), (2, 'x'), (rng.randint(1, 3), 'y')]
  T = Pred('T', [Rule([('col0', RecE([('a', Lit(N_(n))), ('b', Lit(S(s)))]), '')])
                 for n, s in rows])
  U = Facts('U', [(1,), (2,), (2,)])
  E = Pred('E', [Rule([('col0', a, ''), ('col1', b, '')],
                      [Atom('T', [('col0', r)]),
                       Unify(RecE([('a', a), ('b', b)]), r)])])
  F = Pred('F', [Rule([('col0', b, '')],
                      [Atom('T', [('col0', r)]), Atom('U', [('col0', a)]),
                       Unify(r, RecE([('a', a), ('b', b)]))])])
  G = Pred('G', [Rule([('col0', a, ''), ('logica_value', Lit(N_(1)), 'Sum')],
                      [Atom('T', [('col0', r)]),
                       Unify(RecE([('a', a), ('b', Lit(S('x')))]), r)], True)])
  H = Pred('H', [Rule([('col0', a, ''), ('col1', b, '')],
                      [Atom('U', [('col0', a)]),
                       Unify(RecE([('a', Var('p')), ('b', b)]),
                             RecE([('a', Op('+', a, Lit(N_(1)))), ('b', Lit(S('k')))])),
                       Cmp(Op('>', Var('p'), Lit(N_(2))))])])
  return Prog([T, U, E, F, G, H]), ['E', 'F', 'G', 'H'], ['fam_record_pattern']


SEM_FAMILIES = [('if_chain', IfChain), ('repeated_call', RepeatedCall),
                ('sibling_combines', SiblingCombines),
                ('double_negation', DoubleNegation),
                ('bound_in_repeated', BoundInRepeated),
                ('dup_disjuncts', DupDisjuncts),
                ('implication_conj', ImplicationConj),
                ('partial_call_in_combine', PartialCallInCombine),
                ('repeated_inject', RepeatedInject),
                ('multi_disj_conj', MultiDisjConj),
                ('in_expr_repeated', InExprRepeated),
                ('union_named_positional', UnionNamedPositional),
                ('param_alias', ParamAlias),
                ('nested_in', NestedIn),
                ('record_pattern', RecordPattern)]


# ---- C18: ordered / limited predicates in less common places ---------------------

def OrderedAggregate(rng, form=None, k=None):
  """Top-K over an aggregation with several bodies, the order and the limit
  written as denotations (on the first rule / on a rule with `|`) or as
  annotations; read by another rule."""
  form = form or rng.choice(['two_rules_denotation', 'disjunction_denotation',
                             'two_rules_annotation'])
  k = rng.randint(0, 4) if k is None else k
  names = ['x', 'y', 'z', 'w']
  def Rows():
    return [(rng.choice(names), rng.randint(1, 9)) for _ in range(rng.randint(2, 4))]
  A, B = Facts('A', Rows()), Facts('B', Rows())
  n, v, t = Var('n'), Var('v'), Var('t')
  head = [('name', n, ''), ('total', v, 'Sum')]
  if form == 'disjunction_denotation':
    rules = [Rule(head, [Or([[Atom('A', [('col0', n), ('col1', v)])],
                             [Atom('B', [('col0', n), ('col1', v)])]])], True)]
  else:
    rules = [Rule(head, [Atom('A', [('col0', n), ('col1', v)])], True),
             Rule(head, [Atom('B', [('col0', n), ('col1', v)])], True)]
  Top = Pred('Top', rules, order=[('total', True), ('name', False)], limit=k)
  if form.endswith('denotation'):
    Top['order_as_denotation'] = True
    Top['limit_as_denotation'] = True
  Read = Pred('ReadTop', [Rule([('col0', n, ''), ('col1', t, '')],
                               [Atom('Top', [('name', n), ('total', t)])])])
  return Prog([A, B, Top, Read]), ['Top', 'ReadTop'], ['Top'], [
      'fam_ordered_aggregate', 'fam_' + form]


def FunctorOrdered(rng):
  """An ordered + limited predicate cloned by a functor: the clone keeps the
  order and the limit, and a rule reading the clone sees only those rows."""
  x = Var('x')
  Src, Other = _Unary('Src', rng, 0, 6), _Unary('Other', rng, 0, 6)
  Top = Pred('Top', [Rule([('col0', x, '')], [Atom('Src', [('col0', x)])])],
             order=[('col0', True)], limit=rng.randint(0, 2))
  Read = Pred('ReadTopOther', [Rule([('col0', x, '')],
                                    [Atom('TopOther', [('col0', x)])])])
  prog = Prog([Src, Other, Top, Read])
  prog['makes'] = [{'name': 'TopOther', 'functor': 'Top',
                    'args': [{'k': 'Src', 'v': 'Other'}]}]
  return prog, ['Top', 'TopOther', 'ReadTopOther'], ['Top', 'TopOther'], [
      'fam_functor_ordered']


def WideOrder(rng, form=None):
  """Many order keys: six columns with the descending mark as an item of its
  own (>= 10 items in @OrderBy), or ten columns in the "col desc" form; the
  leading keys tie, so every key's place and direction matters."""
  form = form or rng.choice(['marker', 'string10'])
  ncol = 6 if form == 'marker' else 10
  rows = []
  for i in range(rng.randint(6, 9)):
    rows.append(tuple([rng.randint(0, 1) for _ in range(ncol - 1)] + [i]))
  rng.shuffle(rows)
  E = Facts('E', rows)
  vs = [Var('v%d' % i) for i in range(ncol)]
  keys = list(range(ncol))
  rng.shuffle(keys)
  descs = [rng.random() < 0.5 for _ in keys]
  if form == 'marker':
    while sum(descs) < 4:
      descs[rng.randrange(ncol)] = True
  P = Pred('P', [Rule([('col%d' % i, vs[i], '') for i in range(ncol)],
                      [Atom('E', [('col%d' % i, vs[i]) for i in range(ncol)])])],
           order=[('col%d' % k, d) for k, d in zip(keys, descs)],
           limit=rng.choice([-1, 3, 4]))
  if form == 'marker':
    P['order_desc_marker'] = True
  Read = Pred('ReadP', [Rule([('col0', vs[ncol - 1], '')],
                             [Atom('P', [('col%d' % (ncol - 1), vs[ncol - 1])])])])
  return Prog([E, P, Read]), ['P', 'ReadP'], ['P'], ['fam_wide_order',
                                                    'fam_wide_order_' + form]


def MarkerDesc(rng):
  """@OrderBy(P, "col0", "DESC", "col1", "DESC", "col2"): several descending
  marks, ties on the first key."""
  x, y, z = Var('x'), Var('y'), Var('z')
  rows = [(rng.randint(1, 3), rng.choice([10, 20, 30]), i) for i in range(7)]
  rng.shuffle(rows)
  E = Facts('E', rows)
  P = Pred('P', [Rule([('col0', x, ''), ('col1', y, ''), ('col2', z, '')],
                      [Atom('E', [('col0', x), ('col1', y), ('col2', z)])])],
           order=[('col0', True), ('col1', True), ('col2', rng.random() < 0.5)],
           limit=rng.choice([3, 4, -1]))
  P['order_desc_marker'] = True
  Read = Pred('ReadP', [Rule([('col0', z, '')], [Atom('P', [('col2', z)])])])
  return Prog([E, P, Read]), ['P', 'ReadP'], ['P'], ['fam_marker_desc']


def UnionTopK(rng, form=None):
  """Top-K of a predicate with several rules (or a `|` body), not
  aggregating: the K rows are chosen after the union is ordered, so a rule
  whose first K rows in scan order are not its best K still contributes its
  best ones."""
  form = form or rng.choice(['two_rules', 'disjunction'])
  v, n = Var('v'), Var('n')
  k = rng.randint(2, 3)
  names = ['a', 'b', 'c', 'd', 'e', 'f', 'g', 'h', 'i', 'j']
  vals = list(range(1, 11))
  rng.shuffle(vals)
  a_rows = sorted(zip(vals[:5], names[:5]))        # ascending: scan order is worst first
  b_rows = sorted(zip(vals[5:], names[5:]))
  A, B = Facts('A', a_rows), Facts('B', b_rows)
  head = [('col0', v, ''), ('col1', n, '')]
  if form == 'disjunction':
    rules = [Rule(head, [Or([[Atom('A', [('col0', v), ('col1', n)])],
                             [Atom('B', [('col0', v), ('col1', n)])]])])]
  else:
    rules = [Rule(head, [Atom('A', [('col0', v), ('col1', n)])]),
             Rule(head, [Atom('B', [('col0', v), ('col1', n)])])]
  Top = Pred('Top', rules, order=[('col0', True), ('col1', False)], limit=k)
  if rng.random() < 0.5:
    Top['order_as_denotation'] = True
    Top['limit_as_denotation'] = True
  Read = Pred('ReadTop', [Rule([('col0', n, '')], [Atom('Top', [('col0', v), ('col1', n)])])])
  return Prog([A, B, Top, Read]), ['Top', 'ReadTop'], ['Top'], [
      'fam_union_top_k', 'fam_union_top_k_' + form]


C18_FAMILIES = [
    ('ordered_aggregate_two_rules', lambda r: OrderedAggregate(r, 'two_rules_denotation')),
    ('ordered_aggregate_disjunction', lambda r: OrderedAggregate(r, 'disjunction_denotation')),
    ('ordered_aggregate_annotation', lambda r: OrderedAggregate(r, 'two_rules_annotation')),
    ('functor_ordered', FunctorOrdered),
    ('wide_order_marker', lambda r: WideOrder(r, 'marker')),
    ('wide_order_string10', lambda r: WideOrder(r, 'string10')),
    ('marker_desc', MarkerDesc),
    ('union_top_k_two_rules', lambda r: UnionTopK(r, 'two_rules')),
    ('union_top_k_disjunction', lambda r: UnionTopK(r, 'disjunction'))]
