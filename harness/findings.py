"""Known findings (/verif/known_findings.json), handled as the brief prescribes.

File format:
  {"findings": [ {"id": "F-C18-limit0", "property": "C18",
                  "what": "...human text...",
                  "match": {<key>: <value>, ...}   # exact-match signature
                 }, ...],
   "fixed":   [ "fixed: property=C09 <commit> <what failed>", ... ] }

A check classifies every disagreement it sees into a *signature* (a small dict
computed from the failing case by check-specific code: construct, operator,
situation).  A disagreement whose signature equals the `match` of a listed
finding is reported as `KNOWN-FINDING: property=<id> <what>` (once per finding)
and does not fail the check; any other disagreement is a VIOLATION.  `fixed`
entries suppress nothing.  The file is never written at run time.
"""
import json
import os

from harness import common

PATH = os.path.join(common.VERIF, 'known_findings.json')


def Load():
  if not os.path.exists(PATH):
    return {'findings': [], 'fixed': []}
  with open(PATH) as f:
    return json.load(f)


def _FieldMatches(signature, key, want):
  """Exact match; a key ending in `~` holds a regular expression that the
  signature's value (as text) must match from its start."""
  if key.endswith('~'):
    import re
    got = signature.get(key[:-1])
    return got is not None and re.match(want, str(got)) is not None
  return signature.get(key) == want


class Classifier:
  def __init__(self, prop):
    self.prop = prop
    self.known = [f for f in Load()['findings']
                  if f['property'] == prop or prop in f.get('also', ())]
    self.hit = {}

  def Match(self, signature):
    """Returns the finding whose `match` dict is a sub-dict of signature."""
    for f in self.known:
      if all(_FieldMatches(signature, k, v) for k, v in f['match'].items()):
        self.hit.setdefault(f['id'], []).append(signature)
        return f
    return None

  def Report(self):
    """Prints one KNOWN-FINDING line per listed finding that was reproduced."""
    lines = []
    for f in self.known:
      if f['id'] in self.hit:
        line = 'KNOWN-FINDING: property=%s %s [%s, reproduced %d time(s)]' % (
            f['property'], f['what'], f['id'], len(self.hit[f['id']]))
        print(line, flush=True)
        lines.append(line)
    return lines

  def NotReproduced(self):
    return [f['id'] for f in self.known if f['id'] not in self.hit]
