"""C10 binding, flags part.

spec -> code:  TLC explores spec/Flags.tla (all flag graphs of a configuration)
               and prints every initial state as a CASE line;
code -> spec:  each case is run against the REAL Annotations (BuildFlagValues),
               LogicaProgram.UseFlagsAsParameters and QL.ConvertToSql(FlagValue)
               of $LOGICA_REPO inside resource-limited worker processes
               (RLIMIT_AS 1 GiB, per-case alarm), and on a sample through the
               whole pipeline on SQLite; the recorded outcomes are judged by
               TLC (spec/FlagsTrace.tla, FlagsSem!Allowed).
Python decides nothing about the property here.
"""
import concurrent.futures as cf
import contextlib
import io
import json
import os
import resource
import signal
import types

from harness import common
from harness import impl
from harness import strlit
from harness import tlc

MEM_LIMIT = 1 << 30
CASE_TIMEOUT = 1.0      # CPU seconds (ITIMER_PROF): immune to machine load


def Mat(tokens):
  return ''.join(chr(t[1]) if t[0] == 'l' else '${%s}' % t[1] for t in tokens)


def RunModel(cfg, simulate=None, seed=None, timeout=3400):
  """TLC on Flags.tla with the given cfg.  Returns (TlcResult, [case])."""
  r = tlc.Run('Flags', cfg=cfg + '.cfg', timeout=timeout, tag='c10flags',
              simulate=simulate, seed=seed,
              depth=(3 if simulate else None), heap='4g')
  cases = []
  seen = set()
  for line in r.out.splitlines():
    v = strlit.ParseJsonLine(line, 'CASE')
    if v is None:
      continue
    key = json.dumps(v, sort_keys=True)
    if key in seen:
      continue
    seen.add(key)
    v['id'] = '%s#%d' % (cfg, len(cases))
    cases.append(v)
  return r, cases


# ---------------------------------------------------------------------------
# Real code, one case.

class _Timeout(BaseException):
  pass


_guard = {'active': False}


def _Alarm(signum, frame):
  # Only inside the guarded region: an alarm that fires while the guard is
  # being torn down must not escape (it would kill the pool worker and hang
  # Pool.map).
  if _guard['active']:
    _guard['active'] = False
    raise _Timeout()


_WARMUP = {'id': 'warmup', 'text': [['r', 'a']], 'cyclic': False,
           'grows': False,
           'def': {'a': {'has': True, 'v': [['l', 120], ['r', 'b']]},
                   'b': {'has': True, 'v': [['l', 39]]}},
           'usr': {'a': {'has': False, 'v': []}, 'b': {'has': False, 'v': []}}}


def _VmSize():
  try:
    with open('/proc/self/statm') as f:
      return int(f.read().split()[0]) * resource.getpagesize()
  except Exception:  # pylint: disable=broad-except
    return 0


def _LimitWorker():
  """1 GiB of address space on top of what the forked worker starts with."""
  impl.Mods()
  strlit._QL('sqlite', {})
  limit = _VmSize() + MEM_LIMIT
  resource.setrlimit(resource.RLIMIT_AS, (limit, limit))
  signal.signal(signal.SIGPROF, _Alarm)
  for d in strlit.DIALECTS:      # imports, caches: not on a case's clock
    _UnitCase((_WARMUP, d, 30))


_line_cache = {}
_unexpected = [0]     # per worker process


def _Rules(case):
  """Parses '@DefineFlag(..)' statements with the real parser (per-statement
  cache: the same statement text always parses to the same rule)."""
  m = impl.Mods()
  rules = []
  for f in sorted(case['def']):
    d = case['def'][f]
    line = ('@DefineFlag("%s", "%s");' % (f, Mat(d['v'])) if d['has']
            else '@DefineFlag("%s");' % f)
    if line not in _line_cache:
      _line_cache[line] = m['parse'].ParseFile(line)['rule']
    rules.extend(_line_cache[line])
  return rules


def _Guarded(fn, timeout):
  """-> (status, value)."""
  m = impl.Mods()
  _guard['active'] = True
  signal.setitimer(signal.ITIMER_PROF, timeout)
  try:
    try:
      return 'ok', fn()
    finally:
      _guard['active'] = False       # from here on a late alarm is ignored
      signal.setitimer(signal.ITIMER_PROF, 0)
  except _Timeout:
    return 'timeout', ''
  except MemoryError:
    return 'memory', ''
  except m['rule_translate'].RuleCompileException:
    return 'diagnosed', ''
  except BaseException as e:  # pylint: disable=broad-except
    if isinstance(e, KeyboardInterrupt):
      raise
    return 'internal', '%s: %s' % (type(e).__name__, str(e)[:200])


def _UnitCase(arg):
  case, dialect, timeout = arg
  m = impl.Mods()
  U = m['universe']
  user = {f: Mat(u['v']) for f, u in case['usr'].items() if u['has']}
  recs = []
  err = io.StringIO()
  with contextlib.redirect_stderr(err), contextlib.redirect_stdout(err):
    def Param():
      ann = U.Annotations(_Rules(case), dict(user))
      holder = types.SimpleNamespace(flag_values=ann.flag_values)
      return U.LogicaProgram.UseFlagsAsParameters(holder, Mat(case['text']))

    def Flag():
      ann = U.Annotations(_Rules(case), dict(user))
      holder = types.SimpleNamespace(flag_values=ann.flag_values)
      lit = strlit._QL(dialect, ann.flag_values).ConvertToSql(
          strlit._FlagValueExpr(case['text'][0][1]))
      return U.LogicaProgram.UseFlagsAsParameters(holder, lit)
    for via, fn in (('param', Param), ('flagvalue', Flag)):
      # Circuit breaker: a worker that has seen many unexpected timeouts (a
      # massively broken implementation) stops spending seconds per case.
      n = _unexpected[0]
      if n == 20:
        # ... and lowers its own memory ceiling so that blow-ups end sooner.
        limit = _VmSize() + MEM_LIMIT // 8
        resource.setrlimit(resource.RLIMIT_AS,
                           (limit, resource.getrlimit(resource.RLIMIT_AS)[1]))
        _unexpected[0] = n = 21
      st, out = _Guarded(fn, timeout if n < 20 else min(timeout, 0.2))
      if st == 'timeout' and not case.get('grows'):
        _unexpected[0] += 1
        if n < 5:
          # Not predicted to grow: make sure it is not the machine (CPU
          # clock, but page faults after fork count too) before recording it.
          st, out = _Guarded(fn, 8 * timeout)
      rec = {'id': '%s/%s/unit' % (case['id'], via), 'def': case['def'],
             'usr': case['usr'], 'text': case['text'], 'via': via,
             'level': 'unit', 'd': dialect, 'status': st,
             'out': strlit.Cps(out) if st == 'ok' else []}
      if st == 'internal':
        rec['detail'] = out
      recs.append(rec)
  return recs


def QuoteFree(case):
  return not any(t[0] == 'l' and t[1] == 39
                 for side in ('def', 'usr') for v in case[side].values()
                 for t in v['v'])


def _PipeCase(arg):
  case, timeout = arg
  m = impl.Mods()
  lines = ['@Engine("sqlite");']
  for f in sorted(case['def']):
    d = case['def'][f]
    lines.append('@DefineFlag("%s", "%s");' % (f, Mat(d['v'])) if d['has']
                 else '@DefineFlag("%s");' % f)
  lines.append('PParam("x%sx");' % Mat(case['text']))
  lines.append('PFlag(FlagValue("%s"));' % case['text'][0][1])
  text = '\n'.join(lines) + '\n'
  recs = []
  vias = [('flagvalue', 'PFlag')]
  if QuoteFree(case):
    vias.append(('param', 'PParam'))
  err = io.StringIO()
  with contextlib.redirect_stderr(err), contextlib.redirect_stdout(err):
    for via, pred in vias:
      def Go():
        rules = m['parse'].ParseFile(text)['rule']
        user = strlit.ReadUserFlags(
            rules, [(f, Mat(u['v'])) for f, u in sorted(case['usr'].items())
                    if u['has']])
        program = m['universe'].LogicaProgram(rules, user_flags=user)
        program.FormattedPredicateSql(pred)
        return program.execution
      st, ex = _Guarded(Go, timeout + (
          3 if case.get('grows') or _unexpected[0] >= 3 else 30))
      if st == 'timeout' and not case.get('grows'):
        _unexpected[0] += 1
      out = ''
      detail = ex if st == 'internal' else ''
      if st == 'ok':
        try:
          con = m['sqlite3_logica'].SqliteConnect()
          cur = con.cursor()
          for s in [ex.preamble] + ex.defines_and_exports:
            cur.executescript(s)
          rows = cur.execute(ex.main_predicate_sql).fetchall()
          con.close()
          if len(rows) == 1 and isinstance(rows[0][0], str):
            out = rows[0][0]
            if via == 'param':
              if out[:1] == 'x' and out[-1:] == 'x' and len(out) >= 2:
                out = out[1:-1]
              else:
                st, detail = 'internal', 'wrapper lost: %r' % out
          else:
            st, detail = 'internal', 'rows: %r' % (rows[:3],)
        except Exception as e:  # pylint: disable=broad-except
          st = 'sqlerror'
          detail = '%s: %s | %s' % (type(e).__name__, str(e)[:200],
                                    ex.main_predicate_sql[:200])
      rec = {'id': '%s/%s/pipe' % (case['id'], via), 'def': case['def'],
             'usr': case['usr'], 'text': case['text'], 'via': via,
             'level': 'pipe', 'd': 'sqlite', 'status': st,
             'out': strlit.Cps(out) if st == 'ok' else [], 'program': text}
      if detail:
        rec['detail'] = detail
      recs.append(rec)
  return recs


def _Pool(fn, items, chunksize, workers=None):
  """Always in child processes (the memory limit must never be applied to the
  main process: TLC's JVM is started from it)."""
  import multiprocessing as mp
  items = list(items)
  if not items:
    return []
  ctx = mp.get_context('fork')
  with ctx.Pool(min(workers or common.NCPU, len(items)),
                initializer=_LimitWorker) as pool:
    return pool.map(fn, items, chunksize=chunksize)


def RunUnit(cases, timeout=CASE_TIMEOUT):
  args = [(c, strlit.DIALECTS[i % len(strlit.DIALECTS)], timeout)
          for i, c in enumerate(cases)]
  out = []
  for part in _Pool(_UnitCase, args, 8):
    out.extend(part)
  return out


def RunPipe(cases, timeout=CASE_TIMEOUT):
  out = []
  for part in _Pool(_PipeCase, [(c, timeout) for c in cases], 2):
    out.extend(part)
  return out


def Reproduce(case, via='param', timeout=60):
  """Runs one case in a fresh resource-limited process without the short
  per-case alarm (to show what the real code does when left alone)."""
  res = _Pool(_UnitCase, [(case, 'sqlite', timeout)], 1, workers=1)
  return [r for r in res[0] if r['via'] == via][0]


# ---------------------------------------------------------------------------
def Validate(records, tag, nshards=None, timeout=3000):
  nshards = nshards or max(1, min(common.NCPU, len(records) // 1500))
  d = common.BuildDir('trace', tag)
  for f in os.listdir(d):
    os.unlink(os.path.join(d, f))
  paths = []
  for k in range(nshards):
    part = records[k::nshards]
    if not part:
      continue
    path = os.path.join(d, 'shard%02d.ndjson' % k)
    with open(path, 'w') as f:
      for r in part:
        f.write(json.dumps({a: b for a, b in r.items()
                            if a not in ('detail', 'program', 'cyclic',
                                         'grows')},
                           separators=(',', ':')) + '\n')
    paths.append(path)

  def One(path):
    return tlc.Run('FlagsTrace', workers=1, env={'TRACE_FILE': path,
                        'JAVA_TOOL_OPTIONS': '-XX:ParallelGCThreads=2'},
                   timeout=timeout, tag=tag, heap='2g')
  with cf.ThreadPoolExecutor(max_workers=common.NCPU) as ex:
    results = list(ex.map(One, paths))
  bad, summaries, errors = {}, [], []
  states = 0
  for path, r in zip(paths, results):
    states += r.distinct
    summ = None
    for line in r.out.splitlines():
      v = strlit.ParseJsonLine(line, 'V')
      if v:
        bad[v['id']] = v
        continue
      s = strlit.ParseJsonLine(line, 'S')
      if s:
        summ = s
    if summ is None or not r.ok:
      errors.append((path, r.rc, r.out[-3000:]))
    else:
      summaries.append(summ)
  return bad, summaries, errors, {'tlc_states': states, 'shards': len(paths)}
