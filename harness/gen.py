"""Random generator of well-typed, range-restricted programs of the core
fragment (IR of ir.py).  Used for the code -> spec direction of the semantic
properties (the spec -> code direction uses spec/ProgGen.tla).

Everything is typed by construction: 'n' (small ints), 's' (strings from a
pool), ('l', t) lists of scalars, ('r', ((f, t), ...)) flat records.

Fragment exclusions (R2 of DESIGN.md; each is an engine-defined corner the
documentation does not fix): no floats / division, no comparison or equality
across types or on lists/records, no joins on list/record values, no `..rest`.
"""
from harness.ir import *  # pylint: disable=wildcard-import,unused-wildcard-import

STR_POOL = ['a', 'b', 'ab', 'c']
INT_POOL = [0, 1, 2, 3]

DEFAULT = dict(
    n_edb=(1, 3), n_idb=(1, 4), max_rules=2, max_atoms=3, max_extra=2,
    p_named=0.3, p_dup=0.35, p_null_fact=0.0,
    kinds=dict(plain=5, distinct=0, func=2, inline=1, aggfunc=0),
    extras=dict(cmp=3, assign=3, inc=2, alt=2, neg=0, aggexpr=0, filt_inc=1,
                impl=0),
    p_list=0.25, p_rec=0.2, p_if=0.2, p_pcall=0.35, p_arith=0.5,
    p_expr_arg=0.15, p_const_arg=0.2, p_join=0.5,
    agg_ops_n=['Sum', 'Min', 'Max', 'Count', 'List', 'Set'],
    agg_ops_s=['Min', 'Max', 'Count', 'List', 'Set'],
    p_argminmax=0.0, p_nested_agg=0.0, p_multi_body=0.5,
    p_clash_names=0.0, p_named_shuffle=0.0, p_zero_rows=0.0,
)


def Profile(**kw):
  p = dict(DEFAULT)
  for k, v in kw.items():
    if isinstance(v, dict) and isinstance(p.get(k), dict):
      d = dict(p[k])
      d.update(v)
      p[k] = d
    else:
      p[k] = v
  return p


CORE = Profile(p_named_shuffle=0.5)
AGG = Profile(
    kinds=dict(plain=3, distinct=4, func=1, inline=1, aggfunc=2),
    extras=dict(cmp=2, assign=2, inc=1, alt=1, neg=3, aggexpr=4, filt_inc=1),
    p_null_fact=0.15, p_argminmax=0.25, p_nested_agg=0.3, p_clash_names=0.5)


# C11: every shorthand-bearing construct
SUGAR = Profile(
    kinds=dict(plain=4, distinct=3, func=3, inline=1, aggfunc=3),
    extras=dict(cmp=2, assign=3, inc=3, alt=2, neg=3, aggexpr=3, filt_inc=1,
                impl=2),
    p_named=0.6, p_argminmax=0.15, p_nested_agg=0.2, p_clash_names=0.2,
    p_pcall=0.6)

# C07 uses the aggregation profile without null facts (the excluded shapes of
# C02's known findings would only repeat here).
AGG7 = Profile(
    kinds=dict(plain=3, distinct=4, func=1, inline=1, aggfunc=2),
    extras=dict(cmp=2, assign=2, inc=1, alt=2, neg=3, aggexpr=3, filt_inc=1),
    p_argminmax=0.25, p_nested_agg=0.2, p_clash_names=0.3)


def AllVarNames(x):
  out = set()
  if isinstance(x, dict):
    if x.get('k') == 'var':
      out.add(x['name'])
    for v in x.values():
      out |= AllVarNames(v)
  elif isinstance(x, list):
    for v in x:
      out |= AllVarNames(v)
  return out


def Weighted(rng, d):
  items = [(k, w) for k, w in d.items() if w > 0]
  t = rng.uniform(0, sum(w for _, w in items))
  for k, w in items:
    t -= w
    if t <= 0:
      return k
  return items[-1][0]


class Sig:
  """Signature of a predicate: ordered fields -> type."""

  def __init__(self, name, fields, inline=False, params=(), distinct=False,
               aggs=None):
    self.name = name
    self.fields = list(fields)       # [(f, type)]
    self.values = {}                 # for EDBs: field -> values in the facts
    self.inline = inline
    self.params = list(params)       # for inline: fields that are inputs
    self.distinct = distinct
    self.aggs = aggs or {}

  def Type(self, f):
    return dict(self.fields)[f]

  @property
  def functional(self):
    return 'logica_value' in dict(self.fields)


class Gen:

  def __init__(self, rng, profile=None):
    self.rng = rng
    self.p = profile or CORE
    self.sigs = []
    self.preds = []
    self.counter = 0
    self.features = set()
    self.NewRule()

  # -- values / literals ------------------------------------------------------
  def Const(self, t):
    r = self.rng
    if t == 'n':
      return N(r.choice(INT_POOL))
    if t == 's':
      return S(r.choice(STR_POOL))
    if t[0] == 'l':
      return ['l', [self.Const(t[1]) for _ in range(r.randint(0, 3))]]
    if t[0] == 'r':
      return ['r', [[f, self.Const(ft)] for f, ft in t[1]]]
    raise ValueError(t)

  def Fresh(self, env, hint='x'):
    """A variable name new to the current scope.  Names local to an inner
    aggregating expression / negation must not be reused by an enclosing
    scope (they would become the same variable) but may be reused by a
    sibling inner scope - that is the clash C02 asks for."""
    d = self.depth
    blocked = self.nested_names.get(d, set())
    if (d > 0 and self.p['p_clash_names'] and
        self.rng.random() < self.p['p_clash_names']):
      pool = ['x', 'y', 'z', 'a', 'b']
      self.rng.shuffle(pool)
      for v in pool:
        if v not in env and v not in blocked:
          self.scope_locals[d].add(v)
          if v in self.all_inner:
            self.features.add('clash_local_names')
          self.all_inner.add(v)
          return v
    while True:
      self.counter += 1
      v = '%s%d' % (hint, self.counter)
      if v not in env and v not in blocked:
        if d > 0:
          self.scope_locals[d].add(v)
        return v

  def Enter(self):
    self.depth += 1
    self.scope_locals[self.depth] = set()
    self.nested_names[self.depth] = set()

  def Exit(self):
    d = self.depth
    self.nested_names.setdefault(d - 1, set()).update(
        self.scope_locals[d] | self.nested_names[d])
    self.depth -= 1

  def NewRule(self):
    self.rule_pcalls = []
    self.depth = 0
    self.scope_locals = {0: set()}
    self.nested_names = {0: set()}
    self.all_inner = set()

  # -- expressions -------------------------------------------------------------
  def VarsOf(self, env, t):
    return [v for v, vt in env.items() if vt == t]

  def Expr(self, t, env, depth=0, allow_pcall=True, allow_tie=False):
    """An expression of type t over the bound variables env."""
    r, p = self.rng, self.p
    vs = self.VarsOf(env, t)
    if allow_tie and t in ('n', 's') and self.VarsOf(env, ('tie', t)) and (
        r.random() < 0.5):
      self.features.add('tie_value_output')
      return Var(r.choice(self.VarsOf(env, ('tie', t))))
    if t in ('n', 's'):
      choices = []
      if vs:
        choices += ['var'] * 4
      choices += ['const']
      if depth < 2:
        if r.random() < p['p_arith']:
          choices += ['arith'] * 2
        if r.random() < p['p_if'] and env:
          choices.append('if')
        if allow_pcall and r.random() < p['p_pcall']:
          choices += ['pcall'] * 2
        if r.random() < p['p_list']:
          choices.append('elem')
        if r.random() < p['p_rec']:
          choices.append('sub')
        if t == 'n' and r.random() < p['p_list']:
          choices.append('size')
      c = r.choice(choices)
      if c == 'var':
        return Var(r.choice(vs))
      if c == 'const':
        return Lit(self.Const(t))
      if c == 'arith':
        self.features.add('arith')
        if t == 'n':
          op = r.choice(['+', '-', '*'])
          return Op(op, self.Expr('n', env, depth + 1, allow_pcall),
                    self.Expr('n', env, depth + 1, allow_pcall))
        return Op('++', self.Expr('s', env, depth + 1, allow_pcall),
                  self.Expr('s', env, depth + 1, allow_pcall))
      if c == 'if' and self.VarsOf(env, 'n') and r.random() < 0.45:
        # an else-if chain over thresholds of one variable; branch values come
        # from two constants so that non-adjacent branches share a value and
        # later conditions overlap earlier ones (first match must win)
        self.features.add('if_chain')
        v = Var(r.choice(self.VarsOf(env, 'n')))
        vals = [Lit(self.Const(t)), Lit(self.Const(t))]
        if vals[0] == vals[1]:
          vals[1] = Lit(N(7)) if t == 'n' else Lit(S('zz'))
        ths = sorted(r.sample([0, 1, 2, 3], r.randint(2, 3)), reverse=True)
        op = r.choice(['>', '>='])
        e = vals[r.randrange(2)]
        order = [0, 1, 0, 1] if r.random() < 0.5 else [1, 0, 1, 0]
        flat = r.random() < 0.7
        for k, th in enumerate(reversed(ths)):
          if flat and e.get('k') == 'if':
            e['chain'] = True
          e = If(Op(op, dict(v), Lit(N(th))), dict(vals[order[k]]), e)
        return e
      if c == 'if':
        self.features.add('if')
        return If(self.Cond(env, depth + 1),
                  self.Expr(t, env, depth + 1, False),
                  self.Expr(t, env, depth + 1, False))
      if c == 'pcall':
        # the same call written twice: each occurrence is its own conjunct
        again = [pc for pt, pc, vs in self.rule_pcalls
                 if pt == t and vs <= set(env)]
        if again and r.random() < 0.7:
          self.features.add('pcall_repeated')
          import copy as _copy
          return _copy.deepcopy(r.choice(again))
        cands = [s for s in self.sigs if s.functional and
                 s.Type('logica_value') == t]
        if cands:
          s = r.choice(cands)
          self.features.add('pcall_inline' if s.inline else 'pcall')
          args = [(f, self.Expr(ft, env, depth + 1, False))
                  for f, ft in s.fields if f != 'logica_value' and
                  (f in s.params or not s.inline) and
                  (IsPositional(f) or s.inline or r.random() < 0.7)]
          if all(self.Scalar(dict(s.fields)[f]) for f, _ in args):
            call = PCall(s.name, args)
            self.rule_pcalls.append((t, call, set(AllVarNames(call))))
            return call
        return self.Expr(t, env, depth + 1, False)
      if c == 'elem':
        self.features.add('element')
        items = [self.Expr(t, env, depth + 1, False)
                 for _ in range(r.randint(1, 3))]
        i = r.randint(0, len(items) - 1)
        return Op('Element', ListE(items), Lit(N(i)))
      if c == 'sub':
        self.features.add('record')
        other = r.choice(['n', 's'])
        return Sub(RecE([('a', self.Expr(t, env, depth + 1, False)),
                         ('b', self.Expr(other, env, depth + 1, False))]), 'a')
      if c == 'size':
        self.features.add('size')
        it = r.choice(['n', 's'])
        return Op('Size', ListE([self.Expr(it, env, depth + 1, False)
                                 for _ in range(r.randint(0, 3))]))
    if t[0] == 'l':
      if vs and r.random() < 0.5:
        return Var(r.choice(vs))
      self.features.add('list')
      return ListE([self.Expr(t[1], env, depth + 1, False)
                    for _ in range(r.randint(0, 3))])
    if t[0] == 'r':
      if vs and r.random() < 0.5:
        return Var(r.choice(vs))
      self.features.add('record')
      return RecE([(f, self.Expr(ft, env, depth + 1, False))
                   for f, ft in t[1]])
    raise ValueError(t)

  def Scalar(self, t):
    return t in ('n', 's')

  def Cond(self, env, depth=0):
    """A boolean expression over bound scalar variables."""
    r = self.rng
    t = r.choice(['n', 's']) if r.random() < 0.8 else 'n'
    if not self.VarsOf(env, t):
      t = 'n' if self.VarsOf(env, 'n') else ('s' if self.VarsOf(env, 's')
                                             else t)
    op = r.choice(['==', '!=', '<', '<=', '>', '>='])
    lhs = self.Expr(t, env, depth + 1, False)
    rhs = self.Expr(t, env, depth + 1, False)
    if lhs == rhs:
      rhs = Lit(self.Const(t))
    c = Op(op, lhs, rhs)
    if depth < 1 and r.random() < 0.2:
      self.features.add('boolop')
      return Op(r.choice(['&&', '||']), c, self.Cond(env, depth + 1))
    return c

  # -- bodies -------------------------------------------------------------------
  def AtomOver(self, sig, env, local_env=None, bind_prob=None):
    """A positive literal over predicate sig; extends env with fresh vars."""
    r, p = self.rng, self.p
    args = []
    env_before = dict(env)   # parameters of an injectible predicate must be
    #                          ground before the call (not bound by its outputs)
    for f, ft in sig.fields:
      if not IsPositional(f) and not (sig.inline and f in sig.params):
        if r.random() < 0.35:
          continue
      need_ground = sig.inline and f in sig.params
      same = self.VarsOf(env, ft)
      x = r.random()
      if need_ground:
        e = self.Expr(ft, env_before, 1, False)
      elif self.Scalar(ft) and same and x < p['p_join']:
        e = Var(r.choice(same))
        self.features.add('join')
      elif self.Scalar(ft) and x < p['p_join'] + p['p_const_arg'] * (
          1.0 if sig.values else 0.3):
        vals = [v for v in sig.values.get(f, []) if v != NULL]
        # mostly a value that occurs in the facts, so that rules are not
        # vacuously empty
        e = Lit(r.choice(vals) if vals and r.random() < 0.8
                else self.Const(ft))
        self.features.add('const_arg')
      elif (self.Scalar(ft) and env and
            x < p['p_join'] + p['p_const_arg'] + p['p_expr_arg']):
        e = self.Expr(ft, env, 1, False)
        self.features.add('expr_arg')
      else:
        v = self.Fresh(env)
        env[v] = ft
        e = Var(v)
      args.append((f, e))
    if sig.inline:
      self.features.add('atom_inline')
    return Atom(sig.name, args)

  def Materialised(self):
    return [s for s in self.sigs if not s.inline]

  def Extra(self, env, depth=0):
    """One extra conjunct over env (may bind new variables)."""
    r, p = self.rng, self.p
    kind = Weighted(r, p['extras'])
    scal = [v for v, t in env.items() if self.Scalar(t)]
    if kind == 'cmp' and scal:
      self.features.add('cmp')
      return [Cmp(self.Cond(env, 1))]
    if kind == 'assign':
      t = r.choice(['n', 's', 'n', ('l', 'n'), ('l', 's'),
                    ('r', (('a', 'n'), ('b', 's')))])
      if not self.Scalar(t) and r.random() > (p['p_list'] + p['p_rec']):
        t = 'n'
      v = self.Fresh(env)
      e = self.Expr(t, env, 0)
      env[v] = t
      self.features.add('assign')
      c = Unify(Var(v), e) if r.random() < 0.8 else Unify(e, Var(v))
      return [c]
    if kind == 'inc':
      t = r.choice(['n', 's'])
      lst = self.Expr(('l', t), env, 1, False)
      v = self.Fresh(env)
      env[v] = t
      self.features.add('inc_bind')
      return [Inc(Var(v), lst)]
    if kind == 'filt_inc' and scal:
      v = r.choice(scal)
      t = env[v]
      items = [Lit(self.Const(t)) for _ in range(r.randint(1, 3))]
      vals = []
      # values that occur, so that the filter is live; repeats are wanted:
      # `x in [a, a]` means two alternatives
      if r.random() < 0.5:
        items.append(items[0])
        self.features.add('inc_filter_repeated_element')
      same = [w for w in self.VarsOf(env, t) if w != v]
      if same and r.random() < 0.3:
        items.append(Var(r.choice(same)))
      self.features.add('inc_filter')
      return [Inc(Var(v), ListE(items))]
    if kind == 'alt' and depth == 0 and r.random() < 0.3 and scal:
      cands = [s for s in self.Materialised()
               if sum(1 for _, ft in s.fields if self.Scalar(ft)) >= 1 and
               all(self.Scalar(ft) for _, ft in s.fields)]
      if cands:
        s = r.choice(cands)
        # one argument differs by a constant between the alternatives, the
        # others are bound variables / fresh variables shared by both
        fields = list(s.fields)
        k = r.randrange(len(fields))
        shared = []
        for i, (f, ft) in enumerate(fields):
          if i == k:
            shared.append(None)
          else:
            same = self.VarsOf(env, ft)
            if same and r.random() < 0.6:
              shared.append(Var(r.choice(same)))
            else:
              v = self.Fresh(env)
              env[v] = ft
              shared.append(Var(v))
        vals = [v for v in s.values.get(fields[k][0], []) if v != NULL] or [
            self.Const(fields[k][1])]
        c1 = Lit(r.choice(vals))
        c2 = Lit(self.Const(fields[k][1]))

        def Alt(c):
          import copy as _copy
          return [Atom(s.name, [(f, _copy.deepcopy(shared[i]) if i != k else c)
                                for i, (f, _) in enumerate(fields)])]
        self.features.add('disjunction')
        self.features.add('disjunction_of_atoms')
        out = [Or([Alt(c1), Alt(c2)])]
        if r.random() < 0.5:
          self.features.add('disjunction_repeated_swapped')
          out.append(Or([Alt(c2), Alt(c1)]))
        return out
    if kind == 'alt' and depth == 0:
      self.features.add('disjunction')
      alts = []
      if scal and r.random() < 0.6:
        for _ in range(r.randint(2, 3)):
          alts.append([Cmp(self.Cond(env, 1))])
        return [Or(alts)]
      # both alternatives bind the same fresh variable
      t = r.choice(['n', 's'])
      v = self.Fresh(env)
      for _ in range(2):
        alts.append([Unify(Var(v), self.Expr(t, env, 1, False))])
      env[v] = t
      return [Or(alts)]
    if kind == 'neg' and self.Materialised():
      self.features.add('negation')
      sub_env = dict(env)
      self.Enter()
      body = [self.AtomOver(r.choice(self.Materialised()), sub_env)]
      if r.random() < 0.4:
        body.append(self.AtomOver(r.choice(self.Materialised()), sub_env))
        self.features.add('neg_conj')
      if r.random() < 0.3 and [v for v in sub_env if self.Scalar(sub_env[v])]:
        body.append(Cmp(self.Cond(sub_env, 1)))
      self.Exit()
      if len(body) == 1 and r.random() < 0.25:
        # ~(~P): a pure filter, it must not multiply by the witnesses of P
        self.features.add('double_negation')
        return [Neg([Neg(body)])]
      return [Neg(body)]
    if kind == 'impl' and self.Materialised():
      # A => B, i.e. ~(A, ~B)
      self.features.add('implication')
      sub_env = dict(env)
      self.Enter()
      a = [self.AtomOver(r.choice(self.Materialised()), sub_env)]
      inner_env = dict(sub_env)
      self.Enter()
      b = [self.AtomOver(r.choice(self.Materialised()), inner_env)]
      if r.random() < 0.3:
        b.append(Cmp(self.Cond(inner_env, 1)))
      self.Exit()
      self.Exit()
      return [Neg(a + [Neg(b)])]
    if kind == 'aggexpr' and self.Materialised():
      e, t = self.AggExpr(env, depth)
      v = self.Fresh(env)
      env[v] = t
      c = Unify(Var(v), e)
      return [c]
    return []

  def AggExpr(self, env, depth=0):
    """An aggregating expression correlated with env; returns (expr, type)."""
    r, p = self.rng, self.p
    sub_env = dict(env)
    self.Enter()
    try:
      return self.AggExprInner(env, sub_env, depth)
    finally:
      self.Exit()

  def AggExprInner(self, env, sub_env, depth):
    r, p = self.rng, self.p
    body = [self.AtomOver(r.choice(self.Materialised()), sub_env)]
    if r.random() < 0.3:
      body.append(self.AtomOver(r.choice(self.Materialised()), sub_env))
    if r.random() < 0.3 and [v for v in sub_env if self.Scalar(sub_env[v])]:
      body.append(Cmp(self.Cond(sub_env, 1)))
    if depth == 0 and r.random() < p['p_nested_agg']:
      self.features.add('nested_agg')
      e2, t2 = self.AggExpr(sub_env, depth + 1)
      v = self.Fresh(sub_env)
      sub_env[v] = t2
      body.append(Unify(Var(v), e2))
    used = AllVarNames(body)
    corr = len([v for v in env if v in used])
    self.features.add('aggexpr_corr%d' % min(corr, 2))
    t = r.choice(['n', 'n', 's'])
    if not self.VarsOf(sub_env, t):
      t = 'n'
    if r.random() < p['p_argminmax'] and self.VarsOf(sub_env, 'n'):
      op = r.choice(['ArgMin', 'ArgMax'])
      self.features.add('argminmax')
      a = self.Expr(t, sub_env, 1, False)
      val = Var(r.choice(self.VarsOf(sub_env, 'n')))
      # the chosen argument is not unique when values tie: the result may be
      # output but never joined / compared (type ('tie', t))
      return AggE(op, Op('->', a, val), body), ('tie', t)
    op = r.choice(p['agg_ops_n'] if t == 'n' else p['agg_ops_s'])
    e = self.Expr(t, sub_env, 1, False)
    agg = AggE(op, e, body)
    if r.random() < 0.3:
      agg['form'] = 'combine'
    self.features.add('agg_' + op)
    return agg, self.AggType(op, t)

  def AggType(self, op, t):
    if op in ('Sum', 'Count'):
      return 'n'
    if op in ('List', 'Set'):
      return ('l', t)
    if op == 'Avg':
      return 'q'
    return t

  def Body(self, env):
    r, p = self.rng, self.p
    body = []
    mats = self.Materialised()
    n_atoms = r.randint(1, p['max_atoms'])
    for _ in range(n_atoms):
      cands = mats + [s for s in self.sigs if s.inline and env]
      body.append(self.AtomOver(r.choice(cands if r.random() < 0.25 else mats),
                                env))
    for _ in range(r.randint(0, p['max_extra'])):
      body += self.Extra(env)
    # the same functional call written twice (two separate conjuncts by the
    # documented meaning, so a multi-valued function multiplies)
    funcs = [s for s in self.sigs if s.functional and not s.inline and
             self.Scalar(s.Type('logica_value')) and
             all(self.Scalar(ft) for _, ft in s.fields)]
    if funcs and r.random() < 0.12:
      import copy as _copy
      s = r.choice(funcs)
      args = [(f, self.Expr(ft, env, 1, False)) for f, ft in s.fields
              if f != 'logica_value' and IsPositional(f)]
      call = PCall(s.name, args)
      for _ in range(2):
        v = self.Fresh(env)
        env[v] = s.Type('logica_value')
        body.append(Unify(Var(v), _copy.deepcopy(call)))
      self.features.add('pcall_repeated')
    r.shuffle(body)
    return body

  # -- predicates -----------------------------------------------------------------
  def NewName(self, prefix):
    self.counter += 1
    return '%s%d' % (prefix, self.counter)

  def Edb(self):
    r, p = self.rng, self.p
    name = self.NewName('E')
    npos = r.randint(1, 3)
    fields = [('col%d' % i, r.choice(['n', 'n', 's'])) for i in range(npos)]
    if r.random() < p['p_named']:
      fields.append((r.choice(['a', 'b', 'w']), r.choice(['n', 's'])))
    rows = []
    for _ in range(r.randint(1, 3)):
      if rows and r.random() < p['p_dup']:
        rows.append(r.choice(rows))
        self.features.add('dup_fact')
      else:
        row = []
        for f, t in fields:
          if r.random() < p['p_null_fact']:
            row.append(NULL)
            self.features.add('null_fact')
          else:
            row.append(self.Const(t))
        rows.append(row)
    if len(rows) == 1 and any(v == NULL for v in rows[0]):
      # Excluded shape (known finding F-C02-null-fact-injection): a
      # single-fact predicate holding a null is injected as `x == null`.
      rows.append(rows[0])
    rules = [Rule([(f, Lit(v), '') for (f, _), v in zip(fields, row)])
             for row in rows]
    sig = Sig(name, fields)
    for i, (f, _) in enumerate(fields):
      sig.values[f] = [row[i] for row in rows]
    self.sigs.append(sig)
    self.preds.append(Pred(name, rules))

  def HeadFields(self, functional, max_pos=2):
    r, p = self.rng, self.p
    npos = r.randint(0 if functional else 1, max_pos)
    types = ['n', 'n', 's', 's']
    if r.random() < p['p_list']:
      types.append(('l', r.choice(['n', 's'])))
    if r.random() < p['p_rec']:
      types.append(('r', (('a', 'n'), ('b', 's'))))
    fields = [('col%d' % i, r.choice(types)) for i in range(npos)]
    if r.random() < p['p_named']:
      for f in r.sample(['a', 'b', 'w'], r.randint(1, 2)):
        fields.append((f, r.choice(types)))
    if functional:
      fields.append(('logica_value', r.choice(['n', 'n', 's'])))
    if not fields:
      fields = [('col0', 'n')]
    return fields

  def Idb(self):
    r, p = self.rng, self.p
    kind = Weighted(r, p['kinds'])
    if kind == 'inline':
      return self.Inline()
    functional = kind in ('func', 'aggfunc')
    distinct = kind in ('distinct', 'aggfunc')
    name = self.NewName('P' if not functional else 'F')
    fields = self.HeadFields(functional)
    aggs = {}
    if distinct:
      cands = [f for f, _ in fields if not IsPositional(f)]
      if kind == 'aggfunc':
        chosen = ['logica_value']
      else:
        if not cands:
          fields.append(('s', 'n'))
          cands = ['s']
        chosen = r.sample(cands, r.randint(0 if len(fields) > 1 else 1,
                                           min(2, len(cands))))
        if len(chosen) == len(fields):
          fields.insert(0, ('col0', 'n'))
          fields = [(('col%d' % (int(f[3:]) + 1)) if IsPositional(f) and
                     i > 0 else f, t) for i, (f, t) in enumerate(fields)]
      new_fields = []
      for f, t in fields:
        if f in chosen:
          bt = r.choice(['n', 'n', 's'])
          if r.random() < p['p_argminmax']:
            op = r.choice(['ArgMin', 'ArgMax'])
            aggs[f] = (op, bt)
            new_fields.append((f, bt))
          else:
            op = r.choice(p['agg_ops_n'] if bt == 'n' else p['agg_ops_s'])
            aggs[f] = (op, bt)
            new_fields.append((f, self.AggType(op, bt)))
          self.features.add('head_agg_' + op)
        else:
          new_fields.append((f, t))
      fields = new_fields
      # group keys must be scalars (GROUP BY on JSON text is engine-defined)
      fields = [(f, t if (f in aggs or self.Scalar(t)) else 'n')
                for f, t in fields]
    n_rules = r.randint(1, p['max_rules'])
    if distinct and r.random() > p['p_multi_body']:
      n_rules = 1
    rules = []
    for _ in range(n_rules):
      env = {}
      self.NewRule()
      body = self.Body(env)
      head = []
      for f, t in fields:
        if f in aggs:
          op, bt = aggs[f]
          if op in ('ArgMin', 'ArgMax'):
            vals = self.VarsOf(env, 'n')
            v = Var(r.choice(vals)) if vals else Lit(N(1))
            e = Op('->', self.Expr(bt, env, 1, False), v)
          else:
            e = self.Expr(bt, env, 1, False)
          head.append((f, e, op))
        else:
          head.append((f, self.Expr(t, env, 0, allow_tie=True), ''))
      rule = Rule(head, body, distinct)
      if r.random() < p['p_named_shuffle']:
        named = [f for f, _ in fields if not IsPositional(f) and
                 f != 'logica_value']
        r.shuffle(named)
        rule['named_order'] = named
        if len(named) > 1 and rules and named != [
            h['f'] for h in rules[0]['head']
            if not IsPositional(h['f']) and h['f'] != 'logica_value']:
          self.features.add('named_args_reordered_between_rules')
      rules.append(rule)
    if distinct:
      self.features.add('distinct')
      if len(rules) > 1:
        self.features.add('multi_body_agg' if aggs else 'multi_body_distinct')
    if len(rules) > 1:
      self.features.add('multi_rule')
    self.sigs.append(Sig(name, fields, distinct=distinct, aggs=aggs))
    self.preds.append(Pred(name, rules))

  def Inline(self):
    """An injectible predicate with unbound input parameters."""
    r = self.rng
    name = self.NewName('G')
    nparams = r.randint(1, 2)
    params = [('col%d' % i, r.choice(['n', 'n', 's'])) for i in range(nparams)]
    env = {}
    self.NewRule()
    head = []
    for f, t in params:
      v = self.Fresh(env, 'p')
      env[v] = t
      head.append((f, Var(v), ''))
    body = []
    if r.random() < 0.5 and self.Materialised():
      body.append(self.AtomOver(r.choice(self.Materialised()), env))
      self.features.add('inline_with_table')
      if r.random() < 0.4:
        # an injectible predicate is one conjunctive rule: no disjunction
        saved = self.p
        self.p = Profile(**{k: v for k, v in saved.items()})
        self.p['extras'] = dict(saved['extras'], alt=0)
        body += self.Extra(env)
        self.p = saved
    vt = r.choice(['n', 'n', 's'])
    fields = list(params)
    if r.random() < 0.8:
      head.append(('logica_value', self.Expr(vt, env, 0, False), ''))
      fields.append(('logica_value', vt))
    else:
      head.append(('col%d' % nparams, self.Expr(vt, env, 0, False), ''))
      fields.append(('col%d' % nparams, vt))
    self.features.add('inline')
    self.sigs.append(Sig(name, fields, inline=True,
                         params=[f for f, _ in params]))
    self.preds.append(Pred(name, [Rule(head, body)], inline=True))

  def Program(self):
    r, p = self.rng, self.p
    for _ in range(r.randint(*p['n_edb'])):
      self.Edb()
    for _ in range(r.randint(*p['n_idb'])):
      self.Idb()
    prog = Prog(self.preds)
    query = [s.name for s in self.sigs if not s.inline]
    return prog, query, sorted(self.features)


def Generate(rng, profile=None):
  g = Gen(rng, profile)
  return g.Program()
