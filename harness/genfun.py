"""Programs with functor applications for C04: a random core/aggregation
program whose extensional predicates have signature-compatible twins, and
`N := F(A: B, ...)` statements over it."""
import copy

from harness import gen
from harness import meta
from harness.ir import *  # pylint: disable=wildcard-import,unused-wildcard-import

PROFILE = gen.Profile(
    n_edb=(2, 3), n_idb=(2, 4),
    kinds=dict(plain=5, distinct=2, func=2, inline=1, aggfunc=1),
    extras=dict(cmp=2, assign=2, inc=1, alt=1, neg=1, aggexpr=1, filt_inc=1,
                impl=0),
    p_join=0.6)


def Reach(prog, start):
  by = {p['name']: p for p in prog['preds']}
  seen, todo = {start}, [start]
  while todo:
    q = todo.pop()
    for r in meta.PredsRead(by[q]):
      if r in by and r not in seen:
        seen.add(r)
        todo.append(r)
  return seen


def Generate(rng, cid):
  for _ in range(60):
    g = gen.Gen(rng, PROFILE)
    for _ in range(rng.randint(2, 3)):
      g.Edb()
    edbs = [s.name for s in g.sigs]
    # twins: same signature, other rows
    twins = {}
    for s, p in list(zip(g.sigs, g.preds)):
      for k in (1, 2):
        t = copy.deepcopy(p)
        t['name'] = '%sT%d' % (p['name'], k)
        rows = []
        for _ in range(rng.randint(1, 3)):
          rows.append(Rule([(f, Lit(g.Const(ft)), '') for f, ft in s.fields]))
        t['rules'] = rows
        twins.setdefault(p['name'], []).append(t)
    for _ in range(rng.randint(2, 4)):
      g.Idb()
    prog = Prog(g.preds + [t for ts in twins.values() for t in ts])
    idbs = [s.name for s in g.sigs if s.name not in edbs and not s.inline]
    cands = [(f, sorted(Reach(prog, f) & set(edbs))) for f in idbs]
    cands = [(f, ks) for f, ks in cands if ks]
    if not cands:
      continue
    feats = set(g.features)
    makes = []
    made_from = {}
    n_makes = rng.randint(1, 4)
    for k in range(n_makes):
      shape = rng.choice(['fresh', 'fresh', 'same_functor_other_binding',
                          'same_functor_same_binding', 'functor_of_result'])
      name = 'M%d' % (k + 1)
      if shape == 'functor_of_result' and makes:
        prev = rng.choice(makes)
        remaining = [e for e in made_from[prev['name']]
                     if e not in [a['k'] for a in prev['args']]]
        if not remaining:
          shape = 'fresh'
        else:
          keys = rng.sample(remaining, 1)
          functor = prev['name']
          made_from[name] = remaining
      if shape in ('same_functor_other_binding',
                   'same_functor_same_binding') and makes:
        prev = rng.choice(makes)
        functor = prev['functor']
        keys = [a['k'] for a in prev['args']]
        made_from[name] = made_from[prev['name']]
        if shape == 'same_functor_same_binding':
          makes.append({'name': name, 'functor': functor,
                        'args': copy.deepcopy(prev['args'])})
          feats.add('make_' + shape)
          continue
      elif shape != 'functor_of_result' or not makes:
        shape = 'fresh' if shape != 'functor_of_result' else shape
        if shape == 'fresh' or not makes:
          functor, reach = rng.choice(cands)
          keys = rng.sample(reach, rng.randint(1, min(2, len(reach))))
          made_from[name] = reach
          shape = 'fresh'
      args = []
      for key in keys:
        args.append({'k': key, 'v': rng.choice(twins[key])['name']})
      if shape == 'same_functor_other_binding':
        # make sure at least one value differs from the previous application
        for a, pa in zip(args, prev['args']):
          if a['v'] == pa['v']:
            other = [t['name'] for t in twins[a['k']] if t['name'] != pa['v']]
            a['v'] = other[0]
            break
      makes.append({'name': name, 'functor': functor, 'args': args})
      feats.add('make_' + shape)
      if len(args) == 2:
        feats.add('make_two_args')
      by = {p['name']: p for p in prog['preds']}
      if functor in by:
        direct = meta.PredsRead(by[functor])
        if any(a['k'] not in direct for a in args):
          feats.add('make_arg_through_chain')
        if any(a['k'] in direct for a in args):
          feats.add('make_arg_direct')
    prog['makes'] = makes
    query = [s.name for s in g.sigs if not s.inline] + [
        m['name'] for m in makes] + [t['name'] for ts in twins.values()
                                     for t in ts]
    return {'id': cid, 'prog': prog, 'query': query, 'stages': True,
            'meta': {'features': sorted(feats)}}
  raise RuntimeError('no functor program')
