"""Families of recursive programs for C03 (IR of ir.py), instantiated over small
extensional graphs and depths."""
from harness.ir import *  # pylint: disable=wildcard-import,unused-wildcard-import

DEPTHS_QUICK = [1, 2, 3, None, 20, 21, 22, 25]
DEPTHS_THOROUGH = [1, 2, 3, 5, None, 12, 19, 20, 21, 22, 23, 25, 30]

x, y, z, d = Var('x'), Var('y'), Var('z'), Var('d')


def Graph(rng, nodes=4, max_edges=6):
  n = rng.randint(2, nodes)
  m = rng.randint(1, max_edges)
  edges = set()
  for _ in range(m):
    edges.add((rng.randrange(n), rng.randrange(n)))
  return sorted(edges)


def EdgePred(edges, name='E'):
  return Pred(name, [Rule([('col0', Lit(N(a)), ''), ('col1', Lit(N(b)), '')])
                     for a, b in edges])


def StartPred(nodes, name='S'):
  return Pred(name, [Rule([('col0', Lit(N(a)), '')]) for a in nodes])


def Step(head, src, distinct=True):
  """head(y) :- src(x), E(x, y)."""
  return Rule([('col0', y, '')], [Atom(src, [('col0', x)]),
                                  Atom('E', [('col0', x), ('col1', y)])],
              distinct)


def Base(distinct=True, src='S'):
  return Rule([('col0', x, '')], [Atom(src, [('col0', x)])], distinct)


def Family(name, rng):
  """Returns (preds, components) where components = [members]."""
  edges = Graph(rng)
  E = EdgePred(edges)
  nodes = sorted({a for a, _ in edges} | {b for _, b in edges})
  S = StartPred([rng.choice(nodes)])
  if name == 'tc_set':
    TC = Pred('TC', [
        Rule([('col0', x, ''), ('col1', y, '')],
             [Atom('E', [('col0', x), ('col1', y)])], True),
        Rule([('col0', x, ''), ('col1', z, '')],
             [Atom('TC', [('col0', x), ('col1', y)]),
              Atom('E', [('col0', y), ('col1', z)])], True)])
    Out = Pred('Out', [Rule([('col0', y, '')],
                            [Atom('S', [('col0', x)]),
                             Atom('TC', [('col0', x), ('col1', y)])])])
    return [E, S, TC, Out], [['TC']], {}
  if name == 'tc_bag':
    TC = Pred('TC', [
        Rule([('col0', x, ''), ('col1', y, '')],
             [Atom('E', [('col0', x), ('col1', y)])]),
        Rule([('col0', x, ''), ('col1', z, '')],
             [Atom('TC', [('col0', x), ('col1', y)]),
              Atom('E', [('col0', y), ('col1', z)])])])
    return [E, TC], [['TC']], {'max_depth': 3}
  if name == 'counter':
    k = rng.choice([None, 3, 6])
    body = [Atom('Nat', [('col0', x)])]
    if k is not None:
      body.append(Cmp(Op('<', x, Lit(N(k)))))
    Nat = Pred('Nat', [Rule([('col0', Lit(N(0)), '')]),
                       Rule([('col0', Op('+', x, Lit(N(1))), '')], body)])
    return [Nat], [['Nat']], {}
  if name == 'sp_min':
    D = Pred('D', [
        Rule([('col0', x, ''), ('logica_value', Lit(N(0)), 'Min')],
             [Atom('S', [('col0', x)])], True),
        Rule([('col0', y, ''),
              ('logica_value', Op('+', d, Lit(N(1))), 'Min')],
             [Atom('D', [('col0', x), ('logica_value', d)]),
              Atom('E', [('col0', x), ('col1', y)])], True)])
    return [E, S, D], [['D']], {}
  if name == 'evenodd':
    k = rng.choice([3, 5, 8])
    Even = Pred('Even', [
        Rule([('col0', Lit(N(0)), '')], [], True),
        Rule([('col0', Op('+', x, Lit(N(1))), '')],
             [Atom('Odd', [('col0', x)]), Cmp(Op('<', x, Lit(N(k))))], True)])
    Odd = Pred('Odd', [
        Rule([('col0', Op('+', x, Lit(N(1))), '')],
             [Atom('Even', [('col0', x)])], True)])
    return [Even, Odd], [['Even', 'Odd']], {}
  if name == 'pingpong':
    # mutual counters that never converge: the exact number of applications
    # stays observable at every depth
    Ping = Pred('Ping', [
        Rule([('col0', Lit(N(0)), '')], [], True),
        Rule([('col0', Op('+', x, Lit(N(1))), '')],
             [Atom('Pong', [('col0', x)])], True)])
    Pong = Pred('Pong', [
        Rule([('col0', Op('+', x, Lit(N(1))), '')],
             [Atom('Ping', [('col0', x)])], True)])
    return [Ping, Pong], [['Ping', 'Pong']], {}
  if name == 'counter_distinct':
    # a distinct predicate with several rules goes through the multi-body
    # aggregation rewrite (auxiliary predicate inside the recursive group)
    Nat = Pred('Nat', [
        Rule([('col0', Lit(N(0)), ''), ('logica_value', Lit(N(0)), 'Max')], [],
             True),
        Rule([('col0', Op('+', x, Lit(N(1))), ''),
              ('logica_value', Op('+', d, Lit(N(2))), 'Max')],
             [Atom('Nat', [('col0', x), ('logica_value', d)])], True)])
    return [Nat], [['Nat']], {}
  if name == 'selfloop_hub':
    # Reach reads itself and Hub, Hub reads Reach: only Reach cuts the group;
    # never converges, so the number of applications stays observable
    Reach = Pred('Reach', [
        Rule([('col0', Lit(N(0)), '')], [], True),
        Rule([('col0', Op('+', x, Lit(N(1))), '')],
             [Atom('Reach', [('col0', x)])], True),
        Rule([('col0', Op('+', x, Lit(N(10))), '')],
             [Atom('Hub', [('col0', x)])], True)])
    Hub = Pred('Hub', [
        Rule([('col0', Op('*', x, Lit(N(2))), '')],
             [Atom('Reach', [('col0', x)]), Cmp(Op('<', x, Lit(N(3))))],
             True)])
    return [Reach, Hub], [['Reach', 'Hub']], {}
  if name == 'cycle3':
    A = Pred('A', [Base(), Step('A', 'C')])
    B = Pred('B', [Step('B', 'A')])
    C = Pred('C', [Step('C', 'B')])
    return [E, S, A, B, C], [['A', 'B', 'C']], {}
  if name == 'complete3':
    A = Pred('A', [Base(), Step('A', 'B'), Step('A', 'C')])
    B = Pred('B', [Step('B', 'A'), Step('B', 'C')])
    C = Pred('C', [Step('C', 'A'), Step('C', 'B')])
    return [E, S, A, B, C], [['A', 'B', 'C']], {}
  if name == 'twocycles':
    A = Pred('A', [Base(), Step('A', 'B'), Step('A', 'D')])
    B = Pred('B', [Step('B', 'A')])
    C = Pred('C', [Step('C', 'B'), Step('C', 'D')])
    D = Pred('D', [Step('D', 'C')])
    return [E, S, A, B, C, D], [['A', 'B', 'C', 'D']], {}
  if name == 'two_components':
    # two separate recursive predicates, the second reads the first
    R1 = Pred('R1', [Base(), Step('R1', 'R1')])
    R2 = Pred('R2', [Rule([('col0', x, '')], [Atom('R1', [('col0', x)])],
                          True), Step('R2', 'R2')])
    return [E, S, R1, R2], [['R1'], ['R2']], {}
  raise ValueError(name)


FAMILIES = ['tc_set', 'tc_bag', 'counter', 'sp_min', 'evenodd', 'cycle3',
            'complete3', 'twocycles', 'two_components', 'pingpong',
            'counter_distinct', 'selfloop_hub']


def Case(name, depth, iterative, rng, cid):
  preds, comps, opts = Family(name, rng)
  if opts.get('max_depth') and (depth is None or depth > opts['max_depth']):
    depth = rng.randint(1, opts['max_depth'])
    iterative = False
  rec = []
  for members in comps:
    if depth is None:
      rec.append((members, 8, False, None))
    else:
      # the annotation is put on a random member of the group
      rec.append((members, depth, iterative, rng.choice(members)))
  prog = Prog(preds, rec=rec)
  workflow = iterative or (depth is not None and depth > 20)
  feats = ['fam_' + name,
           'depth_default' if depth is None else (
               'depth_gt20' if depth > 20 else 'depth_le20'),
           'iterative_forced' if iterative else 'iterative_auto',
           'workflow' if workflow else 'single_statement']
  return {'id': cid, 'prog': prog, 'query': [p['name'] for p in preds],
          'workflow': workflow,
          # tree-level validation of the unfolded rules is affordable for
          # shallow depths only (the unfolding is depth x group size predicates)
          'stages': (not workflow) and (depth is None or depth <= 8),
          'meta': {'features': feats,
                   'sig': {'family': name, 'depth': depth,
                           'iterative': iterative}}}
