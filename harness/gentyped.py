"""Typed program generator for C05: harness/gen.py's generator, wrapped so
that it *exports the typing it constructs* and stays inside the fragment whose
types are fully determined.

  - every expression node built through Gen.Expr / Gen.Cond carries
    "typ": <type term> (a harness-only key; the specification never sees it,
    it only tells the corruption operators what they are replacing);
  - Generate() returns gamma: {pred: {field: type term}}, the types of every
    predicate column as the generator assigned them;
  - a Bool ground type is added ('b'): head columns computed by a comparison,
    Bool variables read back from such columns and used in conditions;
  - `.field` access on record-typed *variables* (opens the record type);
  - no bare `[]`, no empty list constants, no null literals: programs in which
    such a literal survives are discarded (their types are not determined by
    the program, so "exactly that signature" does not apply).

Type terms (JSON; the same shapes spec/LTyping.tla uses):
  ["Num"] ["Str"] ["Bool"] ["L", t] ["R", {f: t, ...}]
"""
import copy

from harness import gen
from harness import ir
from harness.ir import *  # pylint: disable=wildcard-import,unused-wildcard-import

ENGINE_LINE = '@Engine("sqlite", type_checking: true);'
REC_T = ('r', (('a', 'n'), ('b', 's')))


def TJ(t):
  """Generator type -> type term."""
  if t == 'n':
    return ['Num']
  if t == 's':
    return ['Str']
  if t == 'b':
    return ['Bool']
  if t[0] == 'l':
    return ['L', TJ(t[1])]
  if t[0] == 'tie':     # gen.py: value of ArgMin/ArgMax (not unique on ties)
    return TJ(t[1])
  if t[0] == 'r':
    return ['R', {f: TJ(ft) for f, ft in t[1]}]
  raise ValueError(t)


class TypedGen(gen.Gen):
  """gen.Gen that annotates what it builds with the types it had in mind."""

  P_BOOL_COL = 0.3
  P_VAR_SUB = 0.25

  def Const(self, t):
    if t[0] == 'l':
      return ['l', [self.Const(t[1])
                    for _ in range(self.rng.randint(1, 3))]]
    return super().Const(t)

  def BoolExpr(self, env, depth):
    r = self.rng
    bs = self.VarsOf(env, 'b')
    if bs and r.random() < 0.5:
      self.features.add('bool_var')
      v = Var(r.choice(bs))
      v['typ'] = TJ('b')
      if r.random() < 0.5:
        return v
      e = Op(r.choice(['&&', '||']), v, self.Cond(env, depth + 1))
      e['typ'] = TJ('b')
      return e
    return self.Cond(env, depth)

  def Cond(self, env, depth=0, *args, **kw):
    e = super().Cond(env, depth, *args, **kw)
    e['typ'] = TJ('b')
    bs = self.VarsOf(env, 'b')
    if bs and self.rng.random() < 0.3:
      self.features.add('bool_var')
      v = Var(self.rng.choice(bs))
      v['typ'] = TJ('b')
      e = Op(self.rng.choice(['&&', '||']), v, e)
      e['typ'] = TJ('b')
    return e

  def Expr(self, t, env, depth=0, *args, **kw):
    r = self.rng
    if t == 'b':
      return self.BoolExpr(env, depth)
    if t in ('n', 's') and depth < 2 and r.random() < self.P_VAR_SUB:
      recs = [(v, vt) for v, vt in env.items()
              if vt[0] == 'r' and t in [ft for _, ft in vt[1]]]
      if recs:
        v, vt = r.choice(recs)
        f = r.choice([f for f, ft in vt[1] if ft == t])
        self.features.add('var_sub')
        rv = Var(v)
        rv['typ'] = TJ(vt)
        e = Sub(rv, f)
        e['typ'] = TJ(t)
        return e
    e = super().Expr(t, env, depth, *args, **kw)
    if t[0] == 'l' and e['k'] == 'list' and not e['items']:
      e['items'].append(self.Expr(t[1], env, depth + 1, False))
    e.setdefault('typ', TJ(t))
    return e

  def HeadFields(self, functional, *args, **kw):
    fields = super().HeadFields(functional, *args, **kw)
    r = self.rng
    if r.random() < self.P_BOOL_COL:
      cands = [i for i, (f, _) in enumerate(fields) if f != 'logica_value']
      if cands and len(fields) > 1:
        i = r.choice(cands)
        fields[i] = (fields[i][0], 'b')
      elif 'w' not in dict(fields):
        fields.append(('w', 'b'))
    return fields

  P_CALL_INLINE = 0.5

  def Body(self, env):
    """Calls of injectible predicates are rare in gen.py's bodies; C05 needs
    injection exercised (the types of the caller flow through the call)."""
    body = super().Body(env)
    inl = [s for s in self.sigs if s.inline]
    if inl and env and self.rng.random() < self.P_CALL_INLINE:
      body.append(self.AtomOver(self.rng.choice(inl), env))
      self.rng.shuffle(body)
    return body

  def Inline(self):
    """An injectible predicate must constrain each of its parameters (else
    the parameter's type is not determined by the program)."""
    for _ in range(12):
      n_s, n_p, cnt = len(self.sigs), len(self.preds), self.counter
      super().Inline()
      rule = self.preds[-1]['rules'][0]
      params = [h['e']['name'] for h in rule['head']
                if h['f'] in self.sigs[-1].params]
      if all(_Constrains(rule, v) for v in params):
        return
      del self.sigs[n_s:]
      del self.preds[n_p:]
    super().Inline()

  def Gamma(self):
    return {s.name: {f: TJ(t) for f, t in s.fields} for s in self.sigs}


def _Constrains(rule, name):
  """Some occurrence of variable `name` (other than as a bare head argument)
  fixes its type: operand of + - * ++, argument of a predicate, or compared
  with a literal."""
  found = []

  def Is(e):
    return isinstance(e, dict) and e.get('k') == 'var' and e['name'] == name

  def Go(x):
    if isinstance(x, dict):
      k = x.get('k')
      if k == 'op' and x['op'] in ('+', '-', '*', '++') and any(
          Is(a) for a in x['args']):
        found.append(1)
      if k == 'op' and x['op'] in ('==', '!=', '<', '<=', '>', '>=') and \
          x['op'] != '!=' and len(x['args']) == 2:
        a, b = x['args']
        if (Is(a) and b.get('k') == 'lit') or (Is(b) and a.get('k') == 'lit'):
          found.append(1)
      if k in ('atom', 'pcall') and any(Is(a['e']) for a in x['args']):
        found.append(1)
      if k == 'unify' and ((Is(x['l']) and x['r'].get('k') == 'lit') or
                           (Is(x['r']) and x['l'].get('k') == 'lit')):
        found.append(1)
      for v in x.values():
        Go(v)
    elif isinstance(x, list):
      for v in x:
        Go(v)
  Go(rule['body'])
  Go([h['e'] for h in rule['head'] if not Is(h['e'])])
  return bool(found)


def _Undetermined(x):
  """An empty list (literal or constant) or a null literal occurs."""
  if isinstance(x, dict):
    if x.get('k') == 'list' and not x['items']:
      return True
    if x.get('k') == 'lit' and _BadValue(x['v']):
      return True
    return any(_Undetermined(v) for v in x.values())
  if isinstance(x, list):
    return any(_Undetermined(v) for v in x)
  return False


def _BadValue(v):
  if v[0] == 'z':
    return True
  if v[0] == 'l':
    return not v[1] or any(_BadValue(x) for x in v[1])
  if v[0] == 'r':
    return any(_BadValue(x) for _, x in v[1])
  return False


def Features(prog, gamma, feats):
  """Type constructors / constructs the program exercises."""
  out = set(feats)

  def T(t):
    if t[0] == 'L':
      out.add('tc_list')
      T(t[1])
    elif t[0] == 'R':
      out.add('tc_record')
      for ft in t[1].values():
        T(ft)
    elif t[0] == 'Bool':
      out.add('tc_bool')
    elif t[0] == 'Num':
      out.add('tc_num')
    elif t[0] == 'Str':
      out.add('tc_str')
  for cols in gamma.values():
    for t in cols.values():
      T(t)

  def Node(n):
    k = n.get('k')
    if k == 'agg':
      out.add('combine')
    if k == 'list':
      out.add('list_literal')
    if k == 'rec':
      out.add('record_literal')
    if k == 'sub':
      out.add('field_access')
    if k == 'if':
      out.add('if')
    if k == 'inc':
      out.add('in')
    if k == 'neg':
      out.add('negation')
    if k == 'or':
      out.add('disjunction')
    if k == 'op':
      out.add('op_' + n['op'])
    if 'agg' in n and 'f' in n and n['agg']:
      out.add('aggregation')
      out.add('headagg_' + n['agg'])
  _Walk(prog['preds'], Node)
  inl = {p['name'] for p in prog['preds'] if p['inline']}

  def Call(n):
    if n.get('k') in ('atom', 'pcall') and n['p'] in inl:
      out.add('injection')
  _Walk(prog['preds'], Call)
  return sorted(out)


def _Walk(x, fn):
  if isinstance(x, dict):
    fn(x)
    for v in x.values():
      _Walk(v, fn)
  elif isinstance(x, list):
    for v in x:
      _Walk(v, fn)


def Generate(rng, profile=None, max_tries=50):
  """(prog, query, gamma, features) of a program whose types are determined
  by the program text."""
  for _ in range(max_tries):
    g = TypedGen(rng, profile)
    prog, query, feats = g.Program()
    if _Undetermined(prog):
      continue
    gamma = g.Gamma()
    return prog, query, gamma, Features(prog, gamma, feats)
  raise RuntimeError('generator: no determined program in %d tries' % max_tries)


def ForRender(prog):
  """Bool literals ["b", 0|1] are written `false` / `true` (ir.RenderValue has
  no case for them): they are rendered through a variable of that name."""
  p = copy.deepcopy(prog)

  def Fix(n):
    if n.get('k') == 'lit' and n['v'][0] == 'b':
      name = 'true' if n['v'][1] else 'false'
      n.clear()
      n.update(Var(name))
  _Walk(p['preds'], Fix)
  _Chains(p['preds'])
  return p


def _Chains(x):
  """An `if` node marked "form": "chain" whose else-branch is an `if` is
  written as ONE else-if chain, `(if c1 then a else if c2 then b else d)`
  (ir.RenderExpr parenthesises every `if`, which makes the inner one a
  separate implication).  Same trick as for Bool literals: the text goes
  through a variable node.  The IR (and the specification) keep nested ifs -
  every condition must be Bool either way."""
  if isinstance(x, list):
    for v in x:
      _Chains(v)
    return
  if not isinstance(x, dict):
    return
  for v in list(x.values()):
    _Chains(v)
  if x.get('k') == 'if' and x.get('form') == 'chain':
    parts = []
    node = x
    while True:
      parts.append('if %s then %s' % (ir.RenderExpr(node['c']),
                                      ir.RenderExpr(node['t'])))
      nxt = node['f']
      if nxt.get('k') == 'if' and nxt.get('form') == 'chain_inner':
        node = nxt
        continue
      parts.append(ir.RenderExpr(nxt))
      break
    text = '(' + ' else '.join(parts) + ')'
    x.clear()
    x.update(Var(text))


def Render(prog):
  return ir.RenderProgram(ForRender(prog), engine_line=ENGINE_LINE)


def ForTlc(t):
  """Type term as spec/LTyping.tla reads it: the field map of a record type
  always carries the sentinel "$" (an empty JSON object is not a function
  with a domain of strings in TLC)."""
  if t[0] == 'L':
    return ['L', ForTlc(t[1])]
  if t[0] in ('R', 'O'):
    d = {f: ForTlc(ft) for f, ft in t[1].items()}
    d['$'] = ['Num']
    return [t[0], d]
  return list(t)


def ColsForTlc(cols):
  d = {f: ForTlc(t) for f, t in cols.items()}
  d['$'] = ['Num']
  return d
