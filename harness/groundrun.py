"""C17 plumbing: runs of the real pipeline against ONE persistent SQLite file.

Two uses (see checks/c17.py):
  * spec -> code: replay a history exported by TLC (spec/MCGround.tla) step by
    step and compare the file and the returned rows with the model state after
    every step;
  * code -> spec: perform a random sequence of runs / stale tables / program
    edits, record {step, predicate, returned rows, tables after the step} and
    let TLC (spec/GroundTrace.tla) decide every step.

A *version* is {"prog": IR (harness/ir.py, no @Ground/@AttachDatabase lines),
"grounded": [{"p": predicate, "t": table name}]}.  A run is exactly what
`logica.py <file> run <p>` does on SQLite: parse, LogicaProgram,
FormattedPredicateSql, then preamble + defines_and_exports + main SQL on a
fresh sqlite3_logica.SqliteConnect().
"""
import contextlib
import io
import json
import os
import sqlite3

from harness import common
from harness import impl
from harness import ir

_cache = {}
STATS = {'compiled': 0, 'cached': 0}


def DbPath():
  return os.path.join(common.BuildDir('c17', 'db'), 'w%d.db' % os.getpid())


def RemoveDb(db):
  for suffix in ('', '-journal', '-wal', '-shm'):
    try:
      os.unlink(db + suffix)
    except OSError:
      pass


def RenderVersion(version, attach, db):
  """Logica text of a version whose grounded tables live in the file `db`
  attached under the dataset name `attach` (logica_test: the SQLite default
  dataset; logica_home: the form of docs/learn/logica.md)."""
  prog = dict(version['prog'])
  ann = ['@AttachDatabase("%s", "%s");' % (attach, db)]
  for g in version['grounded']:
    if g['t'] == g['p']:
      ann.append('@Ground(%s);' % g['p'])
    else:
      ann.append('@Ground(%s, "%s.%s");' % (g['p'], attach, g['t']))
  prog['ann'] = ann + list(prog.get('ann', []))
  prog.setdefault('makes', [])
  return ir.RenderProgram(prog)


def Compile(text, pred):
  m = impl.Mods()
  rules = m['parse'].ParseFile(text)['rule']
  program = m['universe'].LogicaProgram(rules, user_flags={})
  program.FormattedPredicateSql(pred)
  ex = program.execution
  return [ex.preamble] + list(ex.defines_and_exports) + [ex.main_predicate_sql]


def RunPredicate(text, pred, use_cache=False):
  """One `logica.py run`: {'status': 'ok', 'rows': [...], 'main_sql': ...} or
  {'status': 'reject'|'internal'|'sqlerror', 'cls', 'msg'}."""
  m = impl.Mods()
  err = io.StringIO()
  with contextlib.redirect_stderr(err), contextlib.redirect_stdout(err):
    try:
      key = (text, pred)
      if use_cache and key in _cache:
        statements = _cache[key]
        STATS['cached'] += 1
      else:
        statements = Compile(text, pred)
        STATS['compiled'] += 1
        if use_cache:
          _cache[key] = statements
    except BaseException as e:  # pylint: disable=broad-except
      if isinstance(e, KeyboardInterrupt):
        raise
      return {'status': impl.Classify(e), 'stage': 'compile',
              'cls': type(e).__name__, 'msg': impl.ExcText(e)}
    con = None
    try:
      con = m['sqlite3_logica'].SqliteConnect()
      cur = con.cursor()
      for s in statements[:-1]:
        cur.executescript(s)
      cur.execute(statements[-1])
      rows = cur.fetchall()
      cols = [d[0] for d in cur.description]
      con.close()
    except BaseException as e:  # pylint: disable=broad-except
      if isinstance(e, KeyboardInterrupt):
        raise
      try:
        if con is not None:
          con.close()
      except Exception:  # pylint: disable=broad-except
        pass
      return {'status': 'sqlerror', 'stage': 'execute',
              'cls': type(e).__name__, 'msg': impl.ExcText(e),
              'statements': statements}
  return {'status': 'ok', 'cols': cols, 'main_sql': statements[-1],
          'n_statements': len(statements),
          'rows': [{c: impl.Tag(v) for c, v in zip(cols, r)} for r in rows]}


def ReadTables(db):
  """Every table of the attached file: {name: [{col: tagged}...]}."""
  if not os.path.exists(db):
    return {}
  con = sqlite3.connect(db)
  try:
    names = [r[0] for r in con.execute(
        "SELECT name FROM sqlite_master WHERE type='table' ORDER BY name")]
    out = {}
    for n in names:
      cur = con.execute('SELECT * FROM "%s"' % n)
      cols = [d[0] for d in cur.description]
      out[n] = [{c: impl.Tag(v) for c, v in zip(cols, r)}
                for r in cur.fetchall()]
    return out
  finally:
    con.close()


def SqlValue(t):
  v = impl.Untag(t)
  if isinstance(v, (list, dict)):
    return json.dumps(v)
  return v


def PrePopulate(db, table, bag):
  """Somebody leaves a table under this name in the file."""
  cols = sorted(bag[0].keys())
  con = sqlite3.connect(db)
  try:
    con.execute('DROP TABLE IF EXISTS "%s"' % table)
    con.execute('CREATE TABLE "%s" (%s)' % (
        table, ', '.join('"%s"' % c for c in cols)))
    con.executemany(
        'INSERT INTO "%s" VALUES (%s)' % (table, ', '.join('?' for _ in cols)),
        [[SqlValue(r[c]) for c in cols] for r in bag])
    con.commit()
  finally:
    con.close()


def WithSentinel(tables):
  d = {'$': []}
  d.update(tables)
  return d


def Perform(versions, attach, steps, use_cache=False):
  """Performs the steps ({a, p, t, ver, bag}) on a fresh file; returns the
  observed events (the shape spec/GroundTrace.tla reads) and the texts."""
  db = DbPath()
  RemoveDb(db)
  texts = [RenderVersion(v, attach, db) for v in versions]
  ver = 1
  out = []
  events = []
  infos = []
  try:
    for s in steps:
      a = s['a']
      ev = {'a': a, 'p': s.get('p', ''), 't': s.get('t', ''), 'ver': ver,
            'bag': s.get('bag', []), 'status': 'ok', 'out': out}
      info = {}
      if a == 'Run':
        res = RunPredicate(texts[ver - 1], s['p'], use_cache)
        ev['status'] = res['status']
        if res['status'] == 'ok':
          out = res['rows']
          ev['out'] = out
          info['main_sql'] = res['main_sql']
        else:
          info.update({k: res.get(k) for k in ('cls', 'msg', 'stage')})
      elif a == 'Pre':
        PrePopulate(db, s['t'], s['bag'])
      elif a == 'Switch':
        ver = s['ver']
        ev['ver'] = ver
      ev['file'] = WithSentinel(ReadTables(db))
      events.append(ev)
      infos.append(info)
  finally:
    RemoveDb(db)
  return events, infos, texts


# ---- comparison of projected states (spec -> code) ---------------------------

def Canon(rows):
  return sorted(json.dumps(r, sort_keys=True) for r in rows)


def CompareState(exp_file, exp_out, ev):
  """First difference between the model state after a step and the observed
  one, or None."""
  if ev['status'] != 'ok':
    return 'run_failed'
  ef = {t: r for t, r in exp_file.items() if t != '$'}
  of = {t: r for t, r in ev['file'].items() if t != '$'}
  if set(ef) != set(of):
    return 'tables:%s' % ','.join(sorted(set(ef) ^ set(of)))
  for t in sorted(ef):
    if Canon(ef[t]) != Canon(of[t]):
      return 'table:%s' % t
  if Canon(exp_out) != Canon(ev['out']):
    return 'rows'
  return None
