"""C17 plumbing: runs of the real pipeline against ONE persistent SQLite file.

Two uses (see checks/c17.py):
  * spec -> code: replay a history exported by TLC (spec/MCGround.tla) step by
    step and compare the file and the returned rows with the model state after
    every step;
  * code -> spec: perform a random sequence of runs / stale tables / program
    edits, record {step, predicate, returned rows, tables after the step} and
    let TLC (spec/GroundTrace.tla) decide every step.

A *version* is {"prog": IR (harness/ir.py, no @Ground/@AttachDatabase lines),
"attached": [alias...], "dataset": alias or "", "grounded": [{"p": predicate,
"t": "" | "alias.name"}]} (spec/GroundSem.tla).  Every alias is a separate
SQLite file; the observed state is every table of EVERY attached file, keyed
"alias.name".

A run goes through the real entry points of the property's anchor:
  mode "script": parse, LogicaProgram, FormattedPredicateSql in-process, then
      the REAL common/sqlite3_logica.RunSqlScript([preamble] +
      defines_and_exports + [main SQL], "csv") - what logica.py's sqlite
      branch calls;
  mode "main":   subprocess `python $LOGICA_REPO/logica.py prog.l run_to_csv P`.
Both return CSV text only.  The typed rows handed to the specification come
from a read-only re-execution of preamble + main SQL (no exports) against the
files the real runner left; the run is accepted as "ok" only if the real
runner's CSV text equals the CSV rendering of those rows (sqlite3_logica.Csv),
else its status is "output_differs".
"""
import subprocess
import sys
import contextlib
import io
import json
import os
import sqlite3

from harness import common
from harness import impl
from harness import ir

_cache = {}
STATS = {'compiled': 0, 'cached': 0}


def DbPath(alias='logica_test'):
  return os.path.join(common.BuildDir('c17', 'db'),
                      'w%d_%s.db' % (os.getpid(), alias))


def Aliases(versions):
  out = []
  for v in versions:
    for a in v['attached']:
      if a not in out:
        out.append(a)
  return out


def StrLit(s):
  """A string as a Logica literal: "..." when it can carry it, a
  triple-quoted literal for newlines / double quotes, else '...' with
  escapes."""
  if '"' not in s and '\n' not in s and '\\' not in s:
    return '"%s"' % s
  if '"""' not in s and not s.endswith('"') and '\\' not in s:
    return '"""%s"""' % s
  return "'" + ''.join({"'": "\\'", '\\': '\\\\', '\n': '\\n'}.get(c, c)
                       for c in s) + "'"


def RemoveDb(db):
  for suffix in ('', '-journal', '-wal', '-shm'):
    try:
      os.unlink(db + suffix)
    except OSError:
      pass


def Txt(cps):
  return ''.join(chr(c) for c in cps)


def UserFlags(version):
  """Flags given on the command line ({name: value}); spec/GroundModels.tla:
  a version may carry flags: [{name, default, given}] (code points)."""
  return {f['name']: Txt(f['given']) for f in version.get('flags', [])
          if f['given']}


def RenderVersion(version, paths):
  """Logica text of a version; paths: alias -> SQLite file.  A version with
  flags is written from its `source` program (the literals still contain
  ${flag}); `prog` is what the specification evaluates."""
  prog = dict(version.get('source') or version['prog'])
  ann = ['@AttachDatabase("%s", "%s");' % (a, paths[a])
         for a in version['attached']]
  for f in version.get('flags', []):
    ann.append('@DefineFlag("%s", "%s");' % (f['name'], Txt(f['default'])))
  if version.get('dataset'):
    ann.append('@Dataset("%s");' % version['dataset'])
  for g in version['grounded']:
    if g['t']:
      ann.append('@Ground(%s, "%s");' % (g['p'], g['t']))
    else:
      ann.append('@Ground(%s);' % g['p'])
  prog['ann'] = ann + list(prog.get('ann', []))
  prog.setdefault('makes', [])
  saved = ir.StrLit
  ir.StrLit = StrLit          # literals with newlines, quotes, ...
  try:
    return ir.RenderProgram(prog)
  finally:
    ir.StrLit = saved


def Compile(text, pred, user_flags=None):
  m = impl.Mods()
  rules = m['parse'].ParseFile(text)['rule']
  program = m['universe'].LogicaProgram(rules, user_flags=user_flags or {})
  program.FormattedPredicateSql(pred)
  ex = program.execution
  return [ex.preamble] + list(ex.defines_and_exports) + [ex.main_predicate_sql]


def _Requery(statements):
  """preamble + main SQL only (read-only): header and raw rows."""
  m = impl.Mods()
  con = m['sqlite3_logica'].SqliteConnect()
  try:
    cur = con.cursor()
    cur.executescript(statements[0])
    cur.execute(statements[-1])
    rows = cur.fetchall()
    return [d[0] for d in cur.description], rows
  finally:
    con.close()


def RunPredicate(text, pred, use_cache=False, mode='script', user_flags=None,
                 has_flags=False):
  """One `logica.py <file> run_to_csv <pred>` through the real runner (see the
  module doc).  {'status': 'ok', 'rows': [...], 'main_sql': ...} or
  {'status': 'reject'|'internal'|'sqlerror'|'output_differs', 'cls', 'msg'}."""
  m = impl.Mods()
  err = io.StringIO()
  with contextlib.redirect_stderr(err), contextlib.redirect_stdout(err):
    try:
      user_flags = user_flags or {}
      key = (text, pred, tuple(sorted(user_flags.items())))
      if use_cache and key in _cache:
        statements = _cache[key]
        STATS['cached'] += 1
      else:
        statements = Compile(text, pred, user_flags)
        STATS['compiled'] += 1
        if use_cache:
          _cache[key] = statements
    except BaseException as e:  # pylint: disable=broad-except
      if isinstance(e, KeyboardInterrupt):
        raise
      return {'status': impl.Classify(e), 'stage': 'compile',
              'cls': type(e).__name__, 'msg': impl.ExcText(e)}
    try:
      if mode == 'main':
        path = DbPath('prog')[:-3] + '.l'
        with open(path, 'w') as f:
          f.write(text)
        try:
          p = subprocess.run(
              [sys.executable, os.path.join(common.REPO, 'logica.py'), path,
               'run_to_csv', pred] +
              ['--%s=%s' % kv for kv in sorted(user_flags.items())],
              capture_output=True, timeout=600)
        finally:
          os.unlink(path)
        STATS['main'] = STATS.get('main', 0) + 1
        if p.returncode != 0:
          # the last line of the traceback: "sqlite3.OperationalError: <msg>"
          tail = [l for l in (p.stderr.decode(errors='replace') or
                              p.stdout.decode(errors='replace')).splitlines()
                  if l.strip()]
          last = tail[-1] if tail else ''
          head, sep, msg = last.partition(': ')
          known = sep and head.replace('.', '').replace('_', '').isalnum()
          return {'status': 'sqlerror', 'stage': 'logica.py',
                  'cls': (head.split('.')[-1] if known
                          else 'ExitCode%d' % p.returncode),
                  'msg': msg if known else '\n'.join(tail[-8:])[-600:],
                  'statements': statements}
        got = p.stdout.decode()
        if got.endswith('\n'):
          got = got[:-1]          # logica.py prints the text with print()
      else:
        got = m['sqlite3_logica'].RunSqlScript(statements, 'csv')
        STATS['script'] = STATS.get('script', 0) + 1
      cols, raw = _Requery(statements)
      want = m['sqlite3_logica'].Csv(cols, raw)
    except BaseException as e:  # pylint: disable=broad-except
      if isinstance(e, KeyboardInterrupt):
        raise
      return {'status': 'sqlerror', 'stage': 'execute',
              'cls': type(e).__name__, 'msg': impl.ExcText(e),
              'statements': statements}
  if has_flags and any('${' in st for st in statements):
    # no flag reference may survive in a statement the CLI path executes
    bad = [st for st in statements if '${' in st][0]
    i = bad.index('${')
    return {'status': 'unsubstituted_flag', 'stage': 'statements',
            'cls': 'UnsubstitutedFlag', 'msg': bad[max(0, i - 80):i + 80],
            'statements': statements}
  if got != want:
    return {'status': 'output_differs', 'stage': 'output',
            'cls': 'OutputDiffers',
            'msg': 'runner printed %r, the rows are %r' % (got[:300],
                                                            want[:300]),
            'statements': statements}
  return {'status': 'ok', 'cols': cols, 'main_sql': statements[-1],
          'n_statements': len(statements), 'mode': mode,
          'rows': [{c: impl.Tag(v) for c, v in zip(cols, r)} for r in raw]}


def ReadTables(paths):
  """Every table of every attached file: {"alias.name": [{col: tagged}...]}."""
  out = {}
  for alias, db in sorted(paths.items()):
    if not os.path.exists(db):
      continue
    con = sqlite3.connect(db)
    try:
      names = [r[0] for r in con.execute(
          "SELECT name FROM sqlite_master WHERE type='table' ORDER BY name")]
      for n in names:
        cur = con.execute('SELECT * FROM "%s"' % n)
        cols = [d[0] for d in cur.description]
        out['%s.%s' % (alias, n)] = [
            {c: impl.Tag(v) for c, v in zip(cols, r)}
            for r in cur.fetchall()]
    finally:
      con.close()
  return out


def SqlValue(t):
  v = impl.Untag(t)
  if isinstance(v, (list, dict)):
    return json.dumps(v)
  return v


def PrePopulate(paths, key, bag):
  """Somebody leaves a table "alias.name" in the file attached as alias."""
  alias, table = key.split('.', 1)
  cols = sorted(bag[0].keys())
  con = sqlite3.connect(paths[alias])
  try:
    con.execute('DROP TABLE IF EXISTS "%s"' % table)
    con.execute('CREATE TABLE "%s" (%s)' % (
        table, ', '.join('"%s"' % c for c in cols)))
    con.executemany(
        'INSERT INTO "%s" VALUES (%s)' % (table, ', '.join('?' for _ in cols)),
        [[SqlValue(r[c]) for c in cols] for r in bag])
    con.commit()
  finally:
    con.close()


def WithSentinel(tables):
  d = {'$': []}
  d.update(tables)
  return d


def Perform(versions, steps, use_cache=False, main_every=0):
  """Performs the steps ({a, p, t, ver, bag}) on fresh files; returns the
  observed events (the shape spec/GroundTrace.tla reads) and the texts.
  main_every = k > 0: every k-th run of the sequence goes through the
  subprocess `logica.py ... run_to_csv` instead of in-process RunSqlScript."""
  paths = {a: DbPath(a) for a in Aliases(versions)}
  for db in paths.values():
    RemoveDb(db)
  texts = [RenderVersion(v, paths) for v in versions]
  ver = 1
  out = []
  events = []
  infos = []
  nrun = 0
  try:
    for s in steps:
      a = s['a']
      ev = {'a': a, 'p': s.get('p', ''), 't': s.get('t', ''), 'ver': ver,
            'bag': s.get('bag', []), 'status': 'ok', 'out': out}
      info = {}
      if a == 'Run':
        nrun += 1
        mode = 'main' if main_every and nrun % main_every == 0 else 'script'
        res = RunPredicate(texts[ver - 1], s['p'], use_cache, mode,
                           UserFlags(versions[ver - 1]),
                           bool(versions[ver - 1].get('flags')))
        ev['status'] = res['status']
        info['mode'] = mode
        if res['status'] == 'ok':
          out = res['rows']
          ev['out'] = out
          info['main_sql'] = res['main_sql']
        else:
          info.update({k: res.get(k) for k in ('cls', 'msg', 'stage')})
      elif a == 'Pre':
        PrePopulate(paths, s['t'], s['bag'])
      elif a == 'Switch':
        ver = s['ver']
        ev['ver'] = ver
      ev['file'] = WithSentinel(ReadTables(paths))
      events.append(ev)
      infos.append(info)
  finally:
    for db in paths.values():
      RemoveDb(db)
  return events, infos, texts


# ---- comparison of projected states (spec -> code) ---------------------------

def Canon(rows):
  return sorted(json.dumps(r, sort_keys=True) for r in rows)


def CompareState(exp_file, exp_out, ev):
  """First difference between the model state after a step and the observed
  one, or None."""
  if ev['status'] != 'ok':
    return 'run_failed'
  ef = {t: r for t, r in exp_file.items() if t != '$'}
  of = {t: r for t, r in ev['file'].items() if t != '$'}
  if set(ef) != set(of):
    return 'tables:%s' % ','.join(sorted(set(ef) ^ set(of)))
  for t in sorted(ef):
    if Canon(ef[t]) != Canon(of[t]):
      return 'table:%s' % t
  if Canon(exp_out) != Canon(ev['out']):
    return 'rows'
  return None
