"""The implementation under test: the real pipeline of $LOGICA_REPO.

`RunProgram(text, predicates)` does what `logica.py <file> run <p>` does for the
built-in SQLite engine: ParseFile -> LogicaProgram -> FormattedPredicateSql ->
execute preamble + defines_and_exports + main_predicate_sql on
sqlite3_logica.SqliteConnect().  Results are normalised to *tagged values* (the
value encoding of spec/LValues.tla):

  ["n", int]  ["s", [codepoints]]  ["z", 0]  ["l", [values]]  ["r", [[name, value], ...]]
  ["f", "<repr>"] for floats (outside the semantic fragment; compared by text)
"""
import contextlib
import io
import json
import os
import sys

from harness import common

common.UseRepo()

DIAGNOSTICS = ('ParsingException', 'RuleCompileException', 'FunctorError',
               'TypeErrorCaughtException')

_modules = {}


def Mods():
  """Imports the repo modules once per process."""
  if not _modules:
    from parser_py import parse
    from compiler import universe
    from compiler import rule_translate
    from compiler import functors
    from common import sqlite3_logica
    from type_inference.research import infer
    _modules.update(parse=parse, universe=universe,
                    rule_translate=rule_translate, functors=functors,
                    sqlite3_logica=sqlite3_logica, infer=infer)
  return _modules


def Tag(v, parse_json=True):
  """Python/SQLite value -> tagged value."""
  if v is None:
    return ['z', 0]
  if isinstance(v, bool):
    return ['n', int(v)]
  if isinstance(v, int):
    return ['n', v]
  if isinstance(v, float):
    if v == int(v) and abs(v) < 2 ** 31:
      return ['f', repr(v)]
    return ['f', repr(v)]
  if isinstance(v, bytes):
    v = v.decode('utf-8', 'replace')
  if isinstance(v, str):
    if parse_json and v[:1] in '[{':
      try:
        return TagJson(json.loads(v))
      except ValueError:
        pass
    return ['s', [ord(c) for c in v]]
  if isinstance(v, (list, tuple)):
    return ['l', [Tag(x, False) for x in v]]
  if isinstance(v, dict):
    return ['r', [[k, Tag(x, False)] for k, x in sorted(v.items())]]
  return ['s', [ord(c) for c in repr(v)]]


def TagJson(v):
  if isinstance(v, list):
    return ['l', [TagJson(x) for x in v]]
  if isinstance(v, dict):
    return ['r', [[k, TagJson(x)] for k, x in sorted(v.items())]]
  return Tag(v, False)


def Untag(t):
  k = t[0]
  if k == 'n':
    return t[1]
  if k == 's':
    return ''.join(chr(c) for c in t[1])
  if k == 'z':
    return None
  if k == 'l':
    return [Untag(x) for x in t[1]]
  if k == 'r':
    return {f: Untag(x) for f, x in t[1]}
  return t[1]


def Classify(exc):
  name = type(exc).__name__
  return 'reject' if name in DIAGNOSTICS else 'internal'


def ExcText(exc):
  try:
    s = str(exc)
  except Exception:  # pylint: disable=broad-except
    s = repr(exc)
  ctx = ''
  for attr in ('rule_str', 'location', 'functor_name'):
    if hasattr(exc, attr):
      try:
        ctx += ' | %s=%s' % (attr, str(getattr(exc, attr)))
      except Exception:  # pylint: disable=broad-except
        pass
  return (s + ctx)[:2000]


def Compile(text, predicate, user_flags=None, import_root=None, rules=None):
  """Returns (program, formatted_sql) or raises."""
  m = Mods()
  if rules is None:
    rules = m['parse'].ParseFile(text, import_root=import_root)['rule']
  program = m['universe'].LogicaProgram(rules, user_flags=user_flags or {})
  sql = program.FormattedPredicateSql(predicate)
  return program, sql


def RunWorkflow(text, predicates, user_flags=None, import_root=None,
                keep_sql=False, runner_log=None):
  """Runs each predicate the way `logica.py <file> run_in_terminal <p>` does:
  compile, then concertina_lib.ExecuteLogicaProgram with the SQLite runner of
  tools/run_in_terminal.py (needed for iterative plans).  Same result shape as
  RunProgram."""
  m = Mods()
  out = {'status': 'ok', 'preds': {}}
  err = io.StringIO()
  with contextlib.redirect_stderr(err), contextlib.redirect_stdout(err):
    from common import concertina_lib
    from tools import run_in_terminal
    try:
      rules = m['parse'].ParseFile(text, import_root=import_root)['rule']
    except BaseException as e:  # pylint: disable=broad-except
      if isinstance(e, (KeyboardInterrupt,)):
        raise
      out.update(status=Classify(e), stage='parse', cls=type(e).__name__,
                 msg=ExcText(e))
      return out
    for p in predicates:
      res = {}
      out['preds'][p] = res
      try:
        program = m['universe'].LogicaProgram(rules,
                                              user_flags=user_flags or {})
        engine = program.annotations.Engine()
        sql = program.FormattedPredicateSql(p)
      except BaseException as e:  # pylint: disable=broad-except
        if isinstance(e, (KeyboardInterrupt,)):
          raise
        res.update(status=Classify(e), stage='compile', cls=type(e).__name__,
                   msg=ExcText(e))
        continue
      if keep_sql:
        res['sql'] = sql
      try:
        runner = run_in_terminal.SqlRunner(engine, logic_program=program)
        if runner_log is not None:
          inner = runner

          def Logged(sql_text, eng, is_final, inner=inner):
            runner_log.append((p, sql_text, is_final))
            return inner(sql_text, eng, is_final)
          runner = Logged
        header, rows = concertina_lib.ExecuteLogicaProgram(
            [program.execution], runner, engine, display_mode='silent')[p]
      except BaseException as e:  # pylint: disable=broad-except
        if isinstance(e, (KeyboardInterrupt,)):
          raise
        res.update(status='sqlerror', stage='execute', cls=type(e).__name__,
                   msg=ExcText(e), sql=sql)
        continue
      cols = list(header)
      res.update(status='ok', cols=cols,
                 rows=[{c: Tag(v) for c, v in zip(cols, r)} for r in rows])
  return out


def RunProgram(text, predicates, user_flags=None, import_root=None,
               keep_sql=False):
  """Runs each predicate the way `logica.py run` does on SQLite.

  Returns {'status': 'ok'|'reject'|'internal'|'sqlerror', ...,
           'preds': {p: {'cols': [...], 'rows': [{col: tagged}...],
                         'ordered': [[tagged...], ...]}}}
  A parse failure rejects the whole program; compile failures are per predicate.
  """
  m = Mods()
  out = {'status': 'ok', 'preds': {}}
  err = io.StringIO()
  with contextlib.redirect_stderr(err), contextlib.redirect_stdout(err):
    try:
      rules = m['parse'].ParseFile(text, import_root=import_root)['rule']
    except BaseException as e:  # pylint: disable=broad-except
      if isinstance(e, (KeyboardInterrupt,)):
        raise
      out.update(status=Classify(e), stage='parse', cls=type(e).__name__,
                 msg=ExcText(e))
      return out
    for p in predicates:
      res = {}
      out['preds'][p] = res
      try:
        program = m['universe'].LogicaProgram(rules,
                                              user_flags=user_flags or {})
        sql = program.FormattedPredicateSql(p)
        ex = program.execution
        statements = [ex.preamble] + ex.defines_and_exports + [
            ex.main_predicate_sql]
      except BaseException as e:  # pylint: disable=broad-except
        if isinstance(e, (KeyboardInterrupt,)):
          raise
        res.update(status=Classify(e), stage='compile', cls=type(e).__name__,
                   msg=ExcText(e))
        continue
      if keep_sql:
        res['sql'] = sql
      try:
        con = m['sqlite3_logica'].SqliteConnect()
        cur = con.cursor()
        for s in statements[:-1]:
          cur.executescript(s)
        cur.execute(statements[-1])
        rows = cur.fetchall()
        cols = [d[0] for d in cur.description]
        con.close()
      except BaseException as e:  # pylint: disable=broad-except
        if isinstance(e, (KeyboardInterrupt,)):
          raise
        res.update(status='sqlerror', stage='execute', cls=type(e).__name__,
                   msg=ExcText(e), sql=sql)
        continue
      res.update(status='ok', cols=cols,
                 rows=[{c: Tag(v) for c, v in zip(cols, r)} for r in rows])
  return out
