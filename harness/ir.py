"""The program representation shared by the TLA+ specification (spec/LSem.tla)
and the harness, and its rendering to Logica source text.

Shapes (JSON; identical to the comment at the top of spec/LSem.tla):
  prog = {"preds": [pred...], "rec": [{"members": [...], "depth": d}], ...}
  pred = {"name", "rules": [rule...], "inline": bool, "order": [{"f","desc"}],
          "limit": int (-1: none)}
  rule = {"head": [{"f","e","agg"}], "distinct": bool, "body": [conj...]}
  conj = {"k":"atom","p","args":[{"f","e"}]} | {"k":"cmp","e"} |
         {"k":"unify","l","r"} | {"k":"inc","l","r"} | {"k":"neg","body"} |
         {"k":"or","alts":[[conj...]...]}
  expr = {"k":"var","name"} | {"k":"lit","v"} | {"k":"op","op","args"} |
         {"k":"list","items"} | {"k":"rec","fields":[{"f","e"}]} |
         {"k":"sub","e","f"} | {"k":"if","c","t","f"} |
         {"k":"pcall","p","args"} | {"k":"agg","op","e","body"}

Nodes may carry extra keys that the specification ignores and the renderer
honours: "form" (which documented shorthand to print, C11), "paren",
annotations of the program ("ann": list of annotation source lines).
Rendering is deterministic and fully parenthesised; it is the only trusted
translation from the specification's programs to Logica text.
"""

# ---- constructors -----------------------------------------------------------


def N(i):
  return ['n', int(i)]


def S(s):
  return ['s', [ord(c) for c in s]]


NULL = ['z', 0]


def Var(name):
  return {'k': 'var', 'name': name}


def Lit(v):
  return {'k': 'lit', 'v': v}


def Op(op, *args):
  return {'k': 'op', 'op': op, 'args': list(args)}


def ListE(items):
  return {'k': 'list', 'items': list(items)}


def RecE(fields):
  return {'k': 'rec', 'fields': [{'f': f, 'e': e} for f, e in fields]}


def Sub(e, f):
  return {'k': 'sub', 'e': e, 'f': f}


def If(c, t, f):
  return {'k': 'if', 'c': c, 't': t, 'f': f}


def PCall(p, args):
  return {'k': 'pcall', 'p': p, 'args': [{'f': f, 'e': e} for f, e in args]}


def AggE(op, e, body):
  return {'k': 'agg', 'op': op, 'e': e, 'body': list(body)}


def Atom(p, args):
  return {'k': 'atom', 'p': p, 'args': [{'f': f, 'e': e} for f, e in args]}


def Cmp(e):
  return {'k': 'cmp', 'e': e}


def Unify(l, r):
  return {'k': 'unify', 'l': l, 'r': r}


def Inc(l, r):
  return {'k': 'inc', 'l': l, 'r': r}


def Neg(body):
  return {'k': 'neg', 'body': list(body)}


def Or(alts):
  return {'k': 'or', 'alts': [list(a) for a in alts]}


def Rule(head, body=(), distinct=False):
  return {'head': [{'f': f, 'e': e, 'agg': agg} for f, e, agg in head],
          'distinct': bool(distinct), 'body': list(body)}


def Pred(name, rules, inline=False, order=(), limit=-1):
  return {'name': name, 'rules': list(rules), 'inline': bool(inline),
          'order': [{'f': f, 'desc': bool(d)} for f, d in order],
          'limit': int(limit)}


def Prog(preds, rec=(), ann=()):
  """rec: (members, depth) or (members, depth, iterative, annotated_pred)."""
  recs = []
  ann = list(ann)
  for r in rec:
    members, depth = r[0], r[1]
    iterative = bool(r[2]) if len(r) > 2 else False
    recs.append({'members': list(members), 'depth': int(depth),
                 'iterative': iterative})
    if len(r) > 3 and r[3]:
      ann.append('@Recursive(%s, %d%s);' % (
          r[3], depth, ', iterative: true' if iterative else ''))
  return {'preds': list(preds), 'rec': recs, 'ann': ann, 'makes': []}


# ---- rendering ----------------------------------------------------------------

AGG_SYNTAX = {'Sum': '+', 'Min': 'Min', 'Max': 'Max', 'Count': 'Count',
              'List': 'List', 'Set': 'Set', 'ArgMin': 'ArgMin',
              'ArgMax': 'ArgMax', 'Avg': 'Avg', 'AnyValue': 'AnyValue',
              'ArgMinK': 'ArgMinK', 'ArgMaxK': 'ArgMaxK', 'Array': 'Array'}
AGG_FUNC = {'Sum': 'Sum', 'Min': 'Min', 'Max': 'Max', 'Count': 'Count',
            'List': 'List', 'Set': 'Set', 'ArgMin': 'ArgMin',
            'ArgMax': 'ArgMax', 'Avg': 'Avg', 'AnyValue': 'AnyValue'}
INFIX = {'+', '-', '*', '%', '++', '==', '!=', '<', '<=', '>', '>=', '&&',
         '||', '->', '/'}


def StrLit(s):
  assert '"' not in s and '\n' not in s and '\\' not in s, s
  return '"%s"' % s


def RenderValue(v):
  k = v[0]
  if k == 'n':
    return str(v[1]) if v[1] >= 0 else '(%d)' % v[1]
  if k == 's':
    return StrLit(''.join(chr(c) for c in v[1]))
  if k == 'z':
    return 'null'
  if k == 'l':
    return '[' + ', '.join(RenderValue(x) for x in v[1]) + ']'
  if k == 'r':
    return '{' + ', '.join('%s: %s' % (f, RenderValue(x)) for f, x in v[1]) + '}'
  raise ValueError(v)


def IsPositional(f):
  return f.startswith('col') and f[3:].isdigit()


def RenderArgs(args, long_form=False):
  """Call arguments: positional first (col0, col1, ... in order), then named."""
  pos = sorted([a for a in args if IsPositional(a['f'])],
               key=lambda a: int(a['f'][3:]))
  named = [a for a in args if not IsPositional(a['f'])]
  contiguous = [int(a['f'][3:]) for a in pos] == list(range(len(pos)))
  plain, as_named = [], []
  for a in pos:
    if contiguous and not (long_form or a.get('form') == 'named'):
      plain.append(RenderExpr(a['e']))
    else:
      as_named.append('%s: %s' % (a['f'], RenderExpr(a['e'])))
  # positional arguments must precede named ones; a prefix col0..colK may stay
  # positional only if it is contiguous, so when one positional argument is
  # written as colN all following ones are too.
  if as_named and plain:
    plain, as_named = [], ['%s: %s' % (a['f'], RenderExpr(a['e'])) for a in pos]
  out = plain + as_named
  for a in named:
    e = a['e']
    if (a.get('form') == 'short' and e['k'] == 'var' and e['name'] == a['f']):
      out.append('%s:' % a['f'])
    else:
      out.append('%s: %s' % (a['f'], RenderExpr(e)))
  return ', '.join(out)


def RenderBody(body):
  return ', '.join(RenderConj(c) for c in body)


def RenderExpr(e):
  k = e['k']
  if k == 'var':
    return e['name']
  if k == 'lit':
    return RenderValue(e['v'])
  if k == 'op':
    op, a = e['op'], e['args']
    if op == 'isnull':
      return '(%s is null)' % RenderExpr(a[0])
    if op == '!':
      return '(!%s)' % RenderExpr(a[0])
    if op == '-' and len(a) == 1:
      return '(-%s)' % RenderExpr(a[0])
    if op in INFIX:
      return '(%s %s %s)' % (RenderExpr(a[0]), op, RenderExpr(a[1]))
    if op == 'Element' and e.get('form') == 'index':
      return '%s[%s]' % (RenderExpr(a[0]), RenderExpr(a[1]))
    if op == 'InList':
      return '(%s in %s)' % (RenderExpr(a[0]), RenderExpr(a[1]))
    return '%s(%s)' % (op, ', '.join(RenderExpr(x) for x in a))
  if k == 'list':
    return '[' + ', '.join(RenderExpr(x) for x in e['items']) + ']'
  if k == 'rec':
    return '{' + ', '.join('%s: %s' % (f['f'], RenderExpr(f['e']))
                           for f in e['fields']) + '}'
  if k == 'sub':
    return '%s.%s' % (RenderExpr(e['e']), e['f'])
  if k == 'if':
    # `if a then b else if c then d else e` (one chain) when the else branch
    # is marked as a continuation, a parenthesised nested `if` otherwise
    parts = ['if %s then %s' % (RenderExpr(e['c']), RenderExpr(e['t']))]
    rest = e['f']
    while rest.get('k') == 'if' and rest.get('chain'):
      parts.append('else if %s then %s' % (RenderExpr(rest['c']),
                                           RenderExpr(rest['t'])))
      rest = rest['f']
    parts.append('else %s' % RenderExpr(rest))
    return '(' + ' '.join(parts) + ')'
  if k == 'pcall':
    return '%s(%s)' % (e['p'], RenderArgs(e['args']))
  if k == 'agg':
    form = e.get('form', 'concise')
    inner = RenderExpr(e['e'])
    if e['e']['k'] == 'op' and e['e']['op'] == '->':
      a = e['e']['args']
      inner = '%s -> %s' % (RenderExpr(a[0]), RenderExpr(a[1]))
    if form == 'combine':
      return '(combine %s= %s :- %s)' % (AGG_SYNTAX[e['op']], inner,
                                          RenderBody(e['body']))
    return '%s{%s :- %s}' % (AGG_FUNC[e['op']], inner, RenderBody(e['body']))
  raise ValueError(k)


def RenderConj(c):
  k = c['k']
  if k == 'atom':
    return '%s(%s)' % (c['p'], RenderArgs(c['args'], c.get('form') == 'long'))
  if k == 'cmp':
    s = RenderExpr(c['e'])
    return s
  if k == 'unify':
    form = c.get('form')
    r = c['r']
    if form == 'ultra' and r['k'] == 'agg':
      # x Op= (e :- body)
      return '%s %s= (%s :- %s)' % (RenderExpr(c['l']), AGG_SYNTAX[r['op']],
                                    RenderExpr(r['e']), RenderBody(r['body']))
    eq = '=' if form == 'single_eq' else '=='
    return '%s %s %s' % (RenderExpr(c['l']), eq, RenderExpr(c['r']))
  if k == 'inc':
    return '%s in %s' % (RenderExpr(c['l']), RenderExpr(c['r']))
  if k == 'neg':
    form = c.get('form')
    if form == 'max_is_null':
      return '(Max{1 :- %s} is null)' % RenderBody(c['body'])
    if (form == 'implication' and len(c['body']) >= 2 and
        c['body'][-1]['k'] == 'neg'):
      # A => B  is  ~(A, ~B)
      return '((%s) => (%s))' % (RenderBody(c['body'][:-1]),
                                 RenderBody(c['body'][-1]['body']))
    if len(c['body']) == 1 and c['body'][0]['k'] == 'atom':
      return '~%s' % RenderConj(c['body'][0])
    return '~(%s)' % RenderBody(c['body'])
  if k == 'or':
    return '(' + ' | '.join(RenderBody(a) for a in c['alts']) + ')'
  raise ValueError(k)


def RenderHead(name, rule):
  head = rule['head']
  args = [h for h in head if h['f'] != 'logica_value']
  val = [h for h in head if h['f'] == 'logica_value']
  pos = sorted([a for a in args if IsPositional(a['f'])],
               key=lambda a: int(a['f'][3:]))
  named = [a for a in args if not IsPositional(a['f'])]
  if rule.get('named_order'):
    named = sorted(named, key=lambda a: rule['named_order'].index(a['f']))
  long_value = bool(val) and val[0].get('form') == 'long'
  for a in pos:
    assert not a['agg'], 'positional aggregated arguments are not rendered'
  if any(a.get('form') == 'named' for a in pos):
    out = ['%s: %s' % (a['f'], RenderExpr(a['e'])) for a in pos]
  else:
    out = [RenderExpr(a['e']) for a in pos]
  for a in named + (val if long_value else []):
    if a['agg']:
      out.append('%s? %s= %s' % (a['f'], AGG_SYNTAX[a['agg']],
                                 RenderHeadAggExpr(a)))
    elif (a.get('form') == 'short' and a['e']['k'] == 'var' and
          a['e']['name'] == a['f']):
      out.append('%s:' % a['f'])
    else:
      out.append('%s: %s' % (a['f'], RenderExpr(a['e'])))
  s = '%s(%s)' % (name, ', '.join(out))
  if val and not long_value:
    v = val[0]
    if v['agg']:
      s += ' %s= %s' % (AGG_SYNTAX[v['agg']], RenderHeadAggExpr(v))
    else:
      s += ' = %s' % RenderExpr(v['e'])
  explicit_distinct = rule['distinct'] and (
      long_value or not (val and val[0]['agg']) or
      rule.get('form') == 'explicit_distinct')
  if explicit_distinct:
    s += ' distinct'
  return s


def RenderHeadAggExpr(h):
  e = h['e']
  if e['k'] == 'op' and e['op'] == '->':
    return '%s -> %s' % (RenderExpr(e['args'][0]), RenderExpr(e['args'][1]))
  return RenderExpr(e)


def Denotations(pred):
  """order_by(...) / limit(...) written as denotations of the rule head."""
  s = ''
  if pred is None:
    return s
  if pred.get('order') and pred.get('order_as_denotation'):
    s += ' order_by(%s)' % ', '.join(
        '"%s%s"' % (o['f'], ' desc' if o['desc'] else '')
        for o in pred['order'])
  if pred.get('limit', -1) >= 0 and pred.get('limit_as_denotation'):
    s += ' limit(%d)' % pred['limit']
  return s


def RenderRule(name, rule, pred=None):
  s = RenderHead(name, rule) + Denotations(pred)
  if rule['body']:
    s += ' :- ' + RenderBody(rule['body'])
  return s + ';'


def RenderProgram(prog, engine_line='@Engine("sqlite");'):
  lines = [engine_line] if engine_line else []
  lines += prog.get('ann', [])
  for p in prog['preds']:
    if p.get('order') and not p.get('order_as_denotation'):
      if p.get('order_desc_marker'):
        # the descending mark as an item of its own: "col0", "DESC", "col1"
        items = []
        for o in p['order']:
          items.append('"%s"' % o['f'])
          if o['desc']:
            items.append('"DESC"')
        lines.append('@OrderBy(%s, %s);' % (p['name'], ', '.join(items)))
      else:
        lines.append('@OrderBy(%s, %s);' % (p['name'], ', '.join(
            '"%s%s"' % (o['f'], ' desc' if o['desc'] else '')
            for o in p['order'])))
    if p.get('limit', -1) >= 0 and not p.get('limit_as_denotation'):
      lines.append('@Limit(%s, %d);' % (p['name'], p['limit']))
  makes = prog.get('makes', [])
  for j in (prog.get('makes_text_order') or range(len(makes))):
    mk = makes[j]
    lines.append('%s := %s(%s);' % (mk['name'], mk['functor'], ', '.join(
        '%s: %s' % (a['k'], a['v']) for a in mk['args'])))
  order = prog.get('stmt_order') or [
      [i, j] for i, p in enumerate(prog['preds'])
      for j in range(len(p['rules']))]
  for i, j in order:
    p = prog['preds'][i]
    # denotations (order_by / limit) are written on the first rule only
    lines.append(RenderRule(p['name'], p['rules'][j], p if j == 0 else None))
  return '\n'.join(lines) + '\n'
