"""Meaning-preserving transformations of programs (IR of ir.py) for the
metamorphic properties C07 (order / naming), C08 (plan annotations), C11
(shorthand forms).  Every variant is judged twice: TLC checks on the
specification alone that Den(variant) = Den(base) (LSemTrace!Theorem), and the
rows the real pipeline returns for the variant are validated against
Den(variant)."""
import copy
import json

from harness import ir
from harness.ir import *  # pylint: disable=wildcard-import,unused-wildcard-import


def Unshared(prog):
  """A deep copy in which no node object is shared between two places (program
  builders reuse Var objects; in-place rewrites must not see a node twice)."""
  return json.loads(json.dumps(prog))


def ClearForm(prog, form):
  """A copy of prog in which no node is marked to be printed in `form`."""
  out = Unshared(prog)
  def Fn(n):
    if n.get('form') == form:
      del n['form']
  Walk(out, Fn)
  return out


def Walk(x, fn, _seen=None):
  """Applies fn to every dict node (pre-order), in place; a node object that
  is reachable along several paths is visited once."""
  if _seen is None:
    _seen = set()
  if isinstance(x, dict):
    if id(x) in _seen:
      return
    _seen.add(id(x))
    fn(x)
    for v in x.values():
      Walk(v, fn, _seen)
  elif isinstance(x, list):
    for v in x:
      Walk(v, fn, _seen)


# ---- C07: permutations ------------------------------------------------------------

def PermuteBody(body, rng):
  body = list(body)
  rng.shuffle(body)
  out = []
  for c in body:
    c = dict(c)
    if c['k'] == 'or':
      alts = [PermuteBody(a, rng) for a in c['alts']]
      rng.shuffle(alts)
      c['alts'] = alts
    elif c['k'] == 'neg':
      c['body'] = PermuteBody(c['body'], rng)
    elif c['k'] == 'unify' and c['r'].get('k') == 'agg':
      r = dict(c['r'])
      r['body'] = PermuteBody(r['body'], rng)
      c['r'] = r
    out.append(c)
  return out


def Permute(prog, rng):
  """Permutes predicates, rules/facts of each predicate, statement order,
  conjuncts and disjuncts."""
  p = Unshared(prog)
  for pred in p['preds']:
    rng.shuffle(pred['rules'])
    for rule in pred['rules']:
      rule['body'] = PermuteBody(rule['body'], rng)
  order = [(i, j) for i, pred in enumerate(p['preds'])
           for j in range(len(pred['rules']))]
  rng.shuffle(order)
  p['stmt_order'] = [list(x) for x in order]
  return p


# ---- C07: renamings ----------------------------------------------------------------

VAR_POOL = ['x', 'y', 'z', 'x1', 'x2', 'y1', 'a', 'b', 'c', 'n', 'value',
            'a_very_long_variable_name', 'v_0', 'xx', 'col', 'item', 't', 'u']


def RenameVars(prog, rng):
  """Consistent renaming of the variables of each rule (same pool for all
  rules, so names collide across rules; named-argument shorthands excluded)."""
  p = Unshared(prog)
  for pred in p['preds']:
    for rule in pred['rules']:
      names = sorted(gen_all_vars(rule))
      pool = list(VAR_POOL)
      rng.shuffle(pool)
      if len(names) > len(pool):
        continue
      m = dict(zip(names, pool))

      def Fix(node, m=m):
        if node.get('k') == 'var':
          node['name'] = m[node['name']]
        if node.get('form') == 'short':
          node.pop('form')
      Walk(rule, Fix)
  return p


def gen_all_vars(x):
  out = set()
  Walk(x, lambda n: out.add(n['name']) if n.get('k') == 'var' else None)
  return out


PRED_POOL = ['Aa', 'Zz', 'B', 'Mid', 'A0', 'Z9', 'Pred', 'Q', 'Table1', 'T2',
             'Alpha', 'Omega', 'Node', 'Edge', 'Total', 'Data', 'Rows', 'Item',
             'Left', 'Right', 'Up', 'Down']
KEYWORD_PREDS = ['Select', 'From', 'Where', 'Group', 'Order', 'Union', 'Table',
                 'Index', 'Values']


LONG_PREDS = ['LongName' + 'OfAPredicateThatGoesOnAndOn' * 3 + s
              for s in ('A', 'B', 'Other')]      # 90+ characters, common prefix


def RenamePreds(prog, rng, keywords=False):
  """Consistent renaming of all predicates; returns (prog, map old->new)."""
  p = Unshared(prog)
  names = [pred['name'] for pred in p['preds']]
  pool = list(PRED_POOL)
  rng.shuffle(pool)
  if rng.random() < 0.35:
    # very long names that share a long common prefix
    longs = list(LONG_PREDS)
    rng.shuffle(longs)
    pool = longs[:2] + pool
    head = pool[:max(len(names), 2)]
    rng.shuffle(head)
    pool = head + pool[len(head):]
  if keywords:
    kw = list(KEYWORD_PREDS)
    rng.shuffle(kw)
    pool = kw[:1] + pool
    rng.shuffle(pool)
  if len(names) > len(pool):
    return p, {n: n for n in names}
  m = dict(zip(names, pool))
  for pred in p['preds']:
    pred['name'] = m[pred['name']]

  def Fix(node):
    if node.get('k') in ('atom', 'pcall'):
      node['p'] = m[node['p']]
  Walk(p['preds'], Fix)
  for comp in p.get('rec', []):
    comp['members'] = [m[x] for x in comp['members']]
  p['ann'] = [RenameInAnnotation(a, m) for a in p.get('ann', [])]
  return p, m


def RenameInAnnotation(line, m):
  import re
  return re.sub(r'\b([A-Z][A-Za-z0-9_]*)\b',
                lambda mo: m.get(mo.group(1), mo.group(1)), line)


# ---- C08: plan-selecting annotations ----------------------------------------------------

PLANS = ['none', 'noinject', 'with', 'nowith', 'ground', 'noinject_nowith']


def Intermediates(prog, query_all=True):
  """Concrete (materialisable) predicates that other predicates read."""
  used = set()

  def Use(node):
    if node.get('k') in ('atom', 'pcall'):
      used.add(node['p'])
  Walk(prog['preds'], Use)
  return [p['name'] for p in prog['preds']
          if p['name'] in used and not p['inline']]


def Annotate(prog, assignment):
  """assignment: {pred: plan}.  Returns a variant with annotation lines."""
  p = Unshared(prog)
  ann = list(p.get('ann', []))
  for name, plan in sorted(assignment.items()):
    if plan == 'noinject':
      ann.append('@NoInject(%s);' % name)
    elif plan == 'with':
      ann.append('@With(%s);' % name)
    elif plan == 'nowith':
      ann.append('@NoWith(%s);' % name)
    elif plan == 'ground':
      ann.append('@Ground(%s);' % name)
    elif plan == 'noinject_nowith':
      # an otherwise injectible predicate compiled as an inline subquery
      ann.append('@NoInject(%s);' % name)
      ann.append('@NoWith(%s);' % name)
  p['ann'] = ann
  return p


# ---- C11: shorthand forms -------------------------------------------------------------------

def FormSites(prog):
  """All places where a documented shorthand can be toggled.
  Returns a list of (description, function(prog_copy) -> None | False)."""
  sites = []
  for pi, pred in enumerate(prog['preds']):
    for ri, rule in enumerate(pred['rules']):
      # head: positional <-> colN ; F(x) = v <-> logica_value: v ;
      #       P(k) Op= e <-> P(k, logica_value? Op= e) distinct
      pos = [h for h in rule['head'] if ir.IsPositional(h['f'])]
      if pos:
        sites.append(('head_positional_as_named', (pi, ri)))
      val = [h for h in rule['head'] if h['f'] == 'logica_value']
      if val:
        sites.append(('head_value_long_agg' if val[0]['agg'] else
                      'head_value_long', (pi, ri)))
      sites += [(k, (pi, ri, path)) for k, path in BodySites(rule['body'], ())]
  return sites


def BodySites(body, path):
  out = []
  for i, c in enumerate(body):
    here = path + (i,)
    k = c['k']
    if k == 'atom':
      if any(ir.IsPositional(a['f']) for a in c['args']):
        out.append(('atom_positional_as_named', here))
    elif k == 'unify':
      # `e1 = e2` with an infix expression on the left collides with the
      # `x Op= (...)` syntax (known finding F-C11-eq-infix-lhs): own kind
      infix = c['l'].get('k') in ('op', 'if') and not (
          c['l'].get('op') in ('Size', 'Element', 'Sort', 'Range'))
      out.append(('eq_single_infix_lhs' if infix else 'eq_single', here))
      if c['r'].get('k') == 'agg' and c['l'].get('k') == 'var':
        out.append(('combine_syntax', here))
        out += BodySites(c['r']['body'], here + ('aggbody',))
    elif k == 'neg':
      out.append(('neg_as_max_is_null', here))
      if len(c['body']) >= 2 and c['body'][-1]['k'] == 'neg':
        out.append(('neg_as_implication', here))
      out += BodySites(c['body'], here + ('negbody',))
    elif k == 'inc':
      if c['r'].get('k') == 'list' and c['r']['items']:
        out.append(('in_as_alternatives', here))
    elif k == 'or':
      for ai, alt in enumerate(c['alts']):
        out += BodySites(alt, here + (('alt', ai),))
  return out


def Locate(prog, site):
  pi, ri = site[0], site[1]
  rule = prog['preds'][pi]['rules'][ri]
  if len(site) == 2:
    return rule, None, None
  body = rule['body']
  path = site[2]
  i = 0
  node = None
  container = body
  while i < len(path):
    step = path[i]
    if isinstance(step, int):
      node = container[step]
      idx = step
      parent = container
    elif step == 'aggbody':
      container = node['r']['body']
    elif step == 'negbody':
      container = node['body']
    elif isinstance(step, tuple) and step[0] == 'alt':
      container = node['alts'][step[1]]
    i += 1
  return rule, parent, idx


def ApplyForm(prog, kind, site, rng):
  """Returns a variant with the shorthand at `site` toggled."""
  p = Unshared(prog)
  rule, parent, idx = Locate(p, site)
  if kind == 'head_positional_as_named':
    for h in rule['head']:
      if ir.IsPositional(h['f']):
        h['form'] = 'named'
  elif kind in ('head_value_long', 'head_value_long_agg'):
    for h in rule['head']:
      if h['f'] == 'logica_value':
        h['form'] = 'long'
    # all rules of the predicate must agree on distinct: long form of an
    # aggregated value needs an explicit `distinct`, which RenderHead adds.
  elif kind == 'atom_positional_as_named':
    parent[idx]['form'] = 'long'
  elif kind in ('eq_single', 'eq_single_infix_lhs'):
    parent[idx]['form'] = 'single_eq'
  elif kind == 'combine_syntax':
    c = parent[idx]
    choice = rng.choice(['ultra', 'combine', 'concise'])
    if choice == 'ultra':
      c['form'] = 'ultra'
    else:
      c['r']['form'] = choice
      c.pop('form', None)
  elif kind == 'neg_as_implication':
    parent[idx]['form'] = 'implication'
  elif kind == 'neg_as_max_is_null':
    parent[idx]['form'] = 'max_is_null'
  elif kind == 'in_as_alternatives':
    c = parent[idx]
    parent[idx] = Or([[Unify(copy.deepcopy(c['l']), it)]
                      for it in c['r']['items']])
  return p


def MergeRulesAsDisjunction(prog):
  """several rules <-> one rule with `|`: applicable to predicates whose rules
  have syntactically equal heads.  Returns variant or None."""
  p = Unshared(prog)
  changed = False
  for pred in p['preds']:
    rules = pred['rules']
    if len(rules) < 2 or pred['inline']:
      continue
    h0 = rules[0]['head']
    if all(r['head'] == h0 and r['distinct'] == rules[0]['distinct'] and
           r['body'] for r in rules):
      pred['rules'] = [{'head': h0, 'distinct': rules[0]['distinct'],
                        'body': [Or([r['body'] for r in rules])]}]
      changed = True
  return p if changed else None


def LiftPcalls(prog):
  """functional call in an expression <-> extra conjunct binding
  logica_value.  Lifts every pcall into the body it is evaluated in: the rule
  body for calls in the head and in top-level conjuncts, the body of the
  negation / aggregating expression for calls inside those."""
  p = Unshared(prog)
  counter = [0]
  changed = [False]

  def LiftExpr(e, extra):
    if not isinstance(e, dict):
      return e
    k = e.get('k')
    if k == 'agg':
      # calls in the aggregated value and in the body belong to the body of
      # the aggregating expression
      inner = []
      e['e'] = LiftExpr(e['e'], inner)
      e['body'] = LiftBody(e['body']) + inner
      return e
    if k == 'pcall':
      args = [{'f': a['f'], 'e': LiftExpr(a['e'], extra)} for a in e['args']]
      counter[0] += 1
      v = 'lifted%d' % counter[0]
      extra.append({'k': 'atom', 'p': e['p'],
                    'args': args + [{'f': 'logica_value', 'e': Var(v)}]})
      changed[0] = True
      return Var(v)
    out = {}
    for key, val in e.items():
      if isinstance(val, dict):
        out[key] = LiftExpr(val, extra)
      elif isinstance(val, list):
        out[key] = [LiftExpr(x, extra) if isinstance(x, dict) and 'k' in x
                    else ({'f': x['f'], 'e': LiftExpr(x['e'], extra)}
                          if isinstance(x, dict) and 'e' in x else x)
                    for x in val]
      else:
        out[key] = val
    return out

  def LiftBody(body):
    extra = []
    new_body = []
    for c in body:
      if c['k'] in ('cmp',):
        c['e'] = LiftExpr(c['e'], extra)
      elif c['k'] in ('unify', 'inc'):
        c['l'] = LiftExpr(c['l'], extra)
        c['r'] = LiftExpr(c['r'], extra)
      elif c['k'] == 'atom':
        c['args'] = [{'f': a['f'], 'e': LiftExpr(a['e'], extra)}
                     for a in c['args']]
      elif c['k'] == 'neg':
        c['body'] = LiftBody(c['body'])
      elif c['k'] == 'or':
        c['alts'] = [LiftBody(a) for a in c['alts']]
      new_body.append(c)
    return new_body + extra

  for pred in p['preds']:
    if pred['inline']:
      continue
    for rule in pred['rules']:
      extra = []
      for h in rule['head']:
        h['e'] = LiftExpr(h['e'], extra)
      rule['body'] = LiftBody(rule['body']) + extra
  return p if changed[0] else None


def ShortNamed(prog, rng):
  """`a:` <-> `a: a`.  Renames, per rule, a variable that is the whole value of
  a named argument `f: v` to `f` (when `f` is not yet a variable of the rule
  and only one variable competes for the name) and prints the shorthand."""
  p = Unshared(prog)
  changed = False
  for pred in p['preds']:
    for rule in pred['rules']:
      names = gen_all_vars(rule)
      cands = {}

      def Collect(node, cands=cands):
        for key in ('args', 'head'):
          pass
      slots = []
      for h in rule['head']:
        slots.append(h)

      def Slots(node, slots=slots):
        if node.get('k') in ('atom', 'pcall'):
          slots.extend(node['args'])
      Walk(rule['body'], Slots)
      Walk([h['e'] for h in rule['head']], Slots)
      by_field = {}
      for a in slots:
        f = a['f']
        if ir.IsPositional(f) or f == 'logica_value' or a.get('agg'):
          continue
        if a['e'].get('k') == 'var':
          by_field.setdefault(f, set()).add(a['e']['name'])
      ren = {}
      for f, vs in sorted(by_field.items()):
        if len(vs) == 1 and f not in names and f not in ren.values():
          v = list(vs)[0]
          if v not in ren:
            ren[v] = f
      if not ren:
        continue

      def Fix(node, ren=ren):
        if node.get('k') == 'var' and node['name'] in ren:
          node['name'] = ren[node['name']]
      Walk(rule, Fix)
      for a in slots:
        if (a['e'].get('k') == 'var' and a['e']['name'] == a['f'] and
            not a.get('agg')):
          a['form'] = 'short'
          changed = True
  return p if changed else None


def SameHeadRules(prog, rng):
  """Gives one multi-rule predicate syntactically equal heads (so that
  `several rules <-> one rule with |` applies): the head of the first rule is
  reused with its variables re-bound in the other rules by renaming."""
  p = Unshared(prog)
  for pred in p['preds']:
    rules = pred['rules']
    if pred['inline'] or len(rules) < 2 or not all(r['body'] for r in rules):
      continue
    # make every rule a copy of the first with a different extra filter
    first = rules[0]
    new_rules = [first]
    for r in rules[1:]:
      c = copy.deepcopy(first)
      rng.shuffle(c['body'])
      new_rules.append(c)
    pred['rules'] = new_rules
    break
  return p


def PredsRead(pred):
  """Names of the predicates a predicate's rules mention."""
  used = set()

  def Use(node):
    if node.get('k') in ('atom', 'pcall'):
      used.add(node['p'])
  Walk(pred['rules'], Use)
  return used
