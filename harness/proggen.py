"""Spec -> code direction: TLC enumerates spec/ProgGen.tla (the program-builder
state machine); every Finish state is exported as `<<"CASE", "<json>">>` and
becomes a case that is rendered, run on the real pipeline and judged by TLC
(LSemTrace).  DenPermInvariant (a model-level theorem) is checked by the same
TLC run."""
import json

from harness import common
from harness import tlc


def Enumerate(cfg, workers=8, timeout=3600):
  """Returns (programs, TlcResult).  Raises on a TLC error."""
  r = tlc.Run('ProgGen', cfg=cfg, workers=workers, timeout=timeout,
              tag='proggen', heap='6g')
  progs = []
  for line in r.out.splitlines():
    line = line.strip()
    if line.startswith('<<"CASE", "') and line.endswith('">>'):
      progs.append(json.loads(json.loads(line[9:-2])))
  if r.invariant_violated or 'Error:' in r.out:
    raise RuntimeError('ProgGen %s: TLC reported an error:\n%s' % (
        cfg, '\n'.join(l for l in r.out.splitlines()
                       if not l.startswith('<<"CASE"'))[-3000:]))
  return progs, r


def Features(prog):
  feats = {'proggen'}

  def Visit(x):
    if isinstance(x, dict):
      k = x.get('k')
      if k == 'neg':
        feats.add('pg_negation')
      elif k == 'agg':
        feats.add('pg_agg_' + x['op'])
      elif k == 'or':
        feats.add('pg_disjunction')
      elif k == 'inc':
        feats.add('pg_in')
      elif k == 'unify':
        feats.add('pg_assign')
      elif k == 'cmp':
        feats.add('pg_cmp')
      for v in x.values():
        Visit(v)
    elif isinstance(x, list):
      for v in x:
        Visit(v)
  Visit(prog)
  for p in prog['preds']:
    if p['name'] == 'P':
      if len(p['rules']) > 1:
        feats.add('pg_two_rules')
      if p['rules'][0]['distinct']:
        feats.add('pg_distinct')
      if any(h['agg'] for h in p['rules'][0]['head']):
        feats.add('pg_head_agg')
    if p['name'] == 'E':
      rows = [json.dumps(r['head']) for r in p['rules']]
      if len(set(rows)) < len(rows):
        feats.add('pg_dup_fact')
  return sorted(feats)


def Cases(cfg, sample, rng, prefix):
  """(cases, tlc_states, tlc_generated, n_enumerated)."""
  progs, r = Enumerate(cfg)
  idx = list(range(len(progs)))
  if sample is not None and sample < len(progs):
    rng.shuffle(idx)
    idx = sorted(idx[:sample])
  cases = []
  for i in idx:
    p = progs[i]
    p['ann'] = []
    cases.append({'id': '%s%d' % (prefix, i), 'prog': p, 'query': ['E', 'P'],
                  'stages': True,
                  'meta': {'features': Features(p), 'source': 'ProgGen:' + cfg}})
  return cases, r.distinct, r.generated, len(progs)
