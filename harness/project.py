"""pi: the structural projection of the compiler's own rule trees (the output
of parse.ParseFile, LogicaProgram.preparsed_rules, LogicaProgram.rules) into
the IR of spec/LSem.tla.  It is the only translation between the code's trees
and the specification's; it is total on the fragment and raises Unsupported
outside of it (the stage is then skipped and counted, never guessed).

Used for stage validation (spec/LSemTrace.tla, `stages`): for every compiled
program TLC checks that what the parser produced (rules0), and what functor
expansion / recursion unfolding produced (rules2), still DENOTE what the source
program denotes - each pass preserves Den."""
from harness import ir
from harness.ir import *  # pylint: disable=wildcard-import,unused-wildcard-import


class Unsupported(Exception):
  pass


INFIX_OPS = {'+', '-', '*', '%', '++', '==', '!=', '<', '<=', '>', '>=', '&&',
             '||', '->'}
BUILTINS = {'Size', 'Element', 'Range', 'Sort', 'ArrayConcat', 'Join', 'Split',
            'ToString', 'ToInt64', 'Least', 'Greatest', 'Abs'}
AGG_NAMES = {'Agg+': 'Sum', 'Sum': 'Sum', 'Min': 'Min', 'Max': 'Max',
             'Count': 'Count', 'List': 'List', 'Set': 'Set',
             'ArgMin': 'ArgMin', 'ArgMax': 'ArgMax', 'Avg': 'Avg',
             'AnyValue': 'AnyValue'}


class Projector:

  def __init__(self, user_predicates):
    self.user = set(user_predicates)
    self.fresh = 0

  def Field(self, f):
    return 'col%d' % f if isinstance(f, int) else str(f)

  def Args(self, record):
    out = []
    for fv in record.get('field_value', []):
      if fv['field'] == '*':
        raise Unsupported('..rest')
      v = fv['value']
      if 'expression' not in v:
        raise Unsupported('aggregation outside head')
      out.append((self.Field(fv['field']), self.Expr(v['expression'])))
    return out

  def Literal(self, lit):
    if 'the_number' in lit:
      s = str(lit['the_number']['number'])
      try:
        return Lit(N(int(s)))
      except ValueError:
        raise Unsupported('float literal')
    if 'the_string' in lit:
      return Lit(S(str(lit['the_string']['the_string'])))
    if 'the_list' in lit:
      return ListE([self.Expr(e) for e in lit['the_list']['element']])
    if 'the_null' in lit:
      return Lit(NULL)
    if 'the_bool' in lit:
      return Lit(N(1 if str(lit['the_bool']['the_bool']) == 'true' else 0))
    raise Unsupported('literal %s' % list(lit))

  def Expr(self, e):
    if 'variable' in e:
      name = str(e['variable']['var_name'])
      if name == '_':
        self.fresh += 1
        name = 'anon_%d' % self.fresh
      return Var(name)
    if 'literal' in e:
      return self.Literal(e['literal'])
    if 'call' in e:
      c = e['call']
      name = str(c['predicate_name'])
      args = self.Args(c['record'])
      if name in INFIX_OPS:
        d = dict(args)
        if 'left' in d and 'right' in d:
          return Op(name, d['left'], d['right'])
        if name == '-' and len(args) == 1:
          return Op('-', args[0][1])
        raise Unsupported('operator arguments')
      if name == 'IsNull':
        return Op('isnull', args[0][1])
      if name == '!':
        return Op('!', args[0][1])
      if name in BUILTINS and name not in self.user:
        return Op(name, *[a for _, a in args])
      if name in self.user:
        return PCall(name, args)
      raise Unsupported('call of %s' % name)
    if 'record' in e:
      return RecE([(self.Field(fv['field']), self.Expr(fv['value']['expression']))
                   for fv in e['record']['field_value']])
    if 'subscript' in e:
      sub = e['subscript']
      sym = sub['subscript'].get('literal', {}).get('the_symbol')
      if not sym:
        raise Unsupported('computed subscript')
      return Sub(self.Expr(sub['record']), str(sym['symbol']))
    if 'implication' in e:
      imp = e['implication']
      out = self.Expr(imp['otherwise'])
      for it in reversed(imp['if_then']):
        out = If(self.Expr(it['condition']), self.Expr(it['consequence']), out)
      return out
    if 'combine' in e:
      return self.Combine(e['combine'])
    raise Unsupported('expression %s' % list(e))

  def Combine(self, c):
    fvs = c['head']['record']['field_value']
    if len(fvs) != 1 or 'aggregation' not in fvs[0]['value']:
      raise Unsupported('combine head')
    call = fvs[0]['value']['aggregation']['expression']['call']
    op = AGG_NAMES.get(str(call['predicate_name']))
    if op is None:
      raise Unsupported('aggregate %s' % call['predicate_name'])
    args = self.Args(call['record'])
    if len(args) != 1:
      raise Unsupported('aggregate arity')
    body = self.Body(c.get('body'))
    return AggE(op, args[0][1], body)

  def Body(self, body):
    if not body:
      return []
    return [self.Conj(c) for c in body['conjunction']['conjunct']]

  def Conj(self, c):
    if 'predicate' in c:
      p = c['predicate']
      name = str(p['predicate_name'])
      if (name in INFIX_OPS or name in ('IsNull', '!')) and (
          name not in self.user):
        return Cmp(self.Expr({'call': p}))
      if name == '=' and name not in self.user:
        d = dict(self.Args(p['record']))
        return Unify(d['left'], d['right'])
      if name in self.user:
        return Atom(name, self.Args(p['record']))
      raise Unsupported('proposition %s' % name)
    if 'unification' in c:
      u = c['unification']
      return Unify(self.Expr(u['left_hand_side']),
                   self.Expr(u['right_hand_side']))
    if 'inclusion' in c:
      i = c['inclusion']
      return Inc(self.Expr(i['element']), self.Expr(i['list']))
    if 'disjunction' in c:
      return Or([self.AltBody(d) for d in c['disjunction']['disjunct']])
    if 'conjunction' in c:
      raise Unsupported('nested conjunction')
    raise Unsupported('conjunct %s' % list(c))

  def AltBody(self, d):
    if 'conjunction' in d:
      return [self.Conj(x) for x in d['conjunction']['conjunct']]
    return [self.Conj(d)]

  def Rule(self, rule):
    head = []
    for fv in rule['head']['record'].get('field_value', []):
      if fv['field'] == '*':
        raise Unsupported('..rest')
      v = fv['value']
      f = self.Field(fv['field'])
      if 'aggregation' in v:
        call = v['aggregation']['expression']['call']
        op = AGG_NAMES.get(str(call['predicate_name']))
        args = self.Args(call['record'])
        if op is None or len(args) != 1:
          raise Unsupported('head aggregate %s' % call['predicate_name'])
        head.append((f, args[0][1], op))
      else:
        head.append((f, self.Expr(v['expression']), ''))
    return Rule(head, self.Body(rule.get('body')),
                bool(rule.get('distinct_denoted')))


def Reachable(rules_by_pred, start):
  """User predicates reachable from `start` in the rule trees."""
  seen, todo = set(), list(start)

  def Names(x, out):
    if isinstance(x, dict):
      if 'predicate_name' in x:
        out.add(str(x['predicate_name']))
      for v in x.values():
        Names(v, out)
    elif isinstance(x, list):
      for v in x:
        Names(v, out)
  while todo:
    p = todo.pop()
    if p in seen or p not in rules_by_pred:
      continue
    seen.add(p)
    out = set()
    for r in rules_by_pred[p]:
      Names(r.get('body'), out)
      Names(r['head']['record'], out)
    todo.extend(out - seen)
  return seen


def Project(rules, queried, inline_of=None):
  """IR program of the predicates reachable from `queried` in `rules`."""
  by = {}
  order = []
  for r in rules:
    name = str(r['head']['predicate_name'])
    if name.startswith('@'):
      continue
    if name not in by:
      by[name] = []
      order.append(name)
    by[name].append(r)
  # aggregates and operators that the dialect library implements as predicates
  # (ArgMin, ArgMax, ->, =, ...) are primitives of the specification
  primitive = set(AGG_NAMES) | INFIX_OPS | BUILTINS | {'=', 'Arrow', 'IsNull'}
  for name in primitive:
    by.pop(name, None)
  keep = Reachable(by, queried)
  proj = Projector(set(by) | {'nil'})
  preds = []
  if 'nil' not in by:
    preds.append(Pred('nil', []))      # the empty relation of recursion unfolding
  for name in order:
    if name not in keep or name not in by:
      continue
    rules_ir = [proj.Rule(r) for r in by[name]]
    preds.append(Pred(name, rules_ir,
                      inline=bool(inline_of and inline_of.get(name))))
  return Prog(preds)
