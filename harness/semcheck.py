"""Code -> spec binding for the semantic properties: run generated programs on
the real pipeline, record what SQLite returned, and let TLC (spec/LSemTrace.tla)
decide whether each recorded table is the bag LSem!Den assigns.

A *case* is {"id", "prog" (IR, see ir.py), "query": [pred names],
             "ordered": [pred names whose row order matters], "text" (optional
             override of the rendered text), "meta": {...}}.
"""
import json
import os
import re
import shutil

from harness import common
from harness import impl
from harness import ir
from harness import tlc


def _RunOne(case):
  text = case.get('text') or ir.RenderProgram(case['prog'])
  try:
    run = impl.RunWorkflow if case.get('workflow') else impl.RunProgram
    res = run(text, case['query'], keep_sql=case.get('keep_sql', False))
  except BaseException as e:  # pylint: disable=broad-except
    res = {'status': 'internal', 'stage': 'harness', 'cls': type(e).__name__,
           'msg': str(e)[:500], 'preds': {}}
  res['text'] = text
  if case.get('stages') and res.get('status') == 'ok':
    res['stages'] = _Stages(case, text)
  return res


def _AnnotationsOf(lp, name):
  """(order, limit) of a predicate as the compiled program's annotations hold
  them, in the IR's shape."""
  order, limit = [], -1
  try:
    items = lp.annotations.OrderBy(name) or []
    lim = lp.annotations.LimitOf(name)
  except BaseException:  # pylint: disable=broad-except
    return order, limit
  for it in items:
    it = str(it)
    if it.upper() == 'DESC':
      if order:
        order[-1]['desc'] = True
      continue
    parts = it.split()
    order.append({'f': parts[0],
                  'desc': len(parts) > 1 and parts[1].lower() == 'desc'})
  if lim is not None:
    limit = int(lim)
  return order, limit


def _Stages(case, text):
  """pi(rules0) after parsing and pi(rules2) after recursion unfolding and
  functor expansion, restricted to what the queried predicates reach."""
  from harness import project
  m = impl.Mods()
  inline_of = {p['name']: p.get('inline') for p in case['prog']['preds']}
  out = []
  try:
    rules0 = m['parse'].ParseFile(text)['rule']
  except BaseException as e:  # pylint: disable=broad-except
    return [{'name': 'parsed', 'skipped': 'parse: %s' % type(e).__name__}]
  recursive = bool(case['prog'].get('rec'))
  made = {}

  def Made():
    made['lp'] = m['universe'].LogicaProgram(rules0)
    return [r for _, r in made['lp'].rules]
  for name, get in (('parsed', lambda: rules0), ('made', Made)):
    if case.get('workflow') and name == 'made':
      # an iterative plan is a loop run by the workflow executor: its rules
      # alone (the ignition steps) do not denote the result
      out.append({'name': name, 'skipped': 'iterative plan'})
      continue
    if recursive and name == 'parsed':
      # the parser's auxiliary predicates lengthen the recursive cycle: the
      # parsed stage is compared only for non-recursive programs
      out.append({'name': name, 'skipped': 'recursive program'})
      continue
    try:
      prog = project.Project(get(), case['query'], inline_of)
      # order_by / limit are annotations of the source program, not rules
      src = {p['name']: p for p in case['prog']['preds']}
      for p in prog['preds']:
        if p['name'] in src:
          p['order'] = src[p['name']].get('order', [])
          p['limit'] = src[p['name']].get('limit', -1)
        elif name == 'made':
          # a predicate the expansion created (a clone): its annotations are
          # part of the compiler's state after this stage
          p['order'], p['limit'] = _AnnotationsOf(made['lp'], p['name'])
      have = {p['name'] for p in prog['preds']}
      if not set(case['query']) <= have:
        out.append({'name': name, 'skipped': 'predicate missing'})
        continue
      out.append({'name': name, 'prog': prog})
    except project.Unsupported as e:
      out.append({'name': name, 'skipped': 'unsupported: %s' % e})
    except BaseException as e:  # pylint: disable=broad-except
      out.append({'name': name, 'skipped': '%s: %s' % (type(e).__name__,
                                                     str(e)[:100])})
  return out


def _Died(case, reason):
  """The pipeline killed its process (or never returned) on this program: an
  internal failure of the implementation, judged like any other outcome."""
  try:
    text = case.get('text') or ir.RenderProgram(case['prog'])
  except BaseException:  # pylint: disable=broad-except
    text = ''
  return {'status': 'internal', 'stage': 'process', 'cls': 'WorkerDied',
          'msg': 'the process running the pipeline %s' % reason, 'preds': {},
          'text': text}


def RunImpl(cases, workers=None):
  return common.ParallelMap(_RunOne, cases, workers=workers, chunksize=4,
                            on_death=_Died,
                            item_timeout=int(os.environ.get(
                                'VERIF_ITEM_TIMEOUT', '900')))


def StripForTlc(x):
  """Drops harness-only keys and makes the JSON TLC-friendly."""
  if isinstance(x, dict):
    return {k: StripForTlc(v) for k, v in x.items()
            if k not in ('form', 'paren', 'ann', 'named_order', 'noise',
                         'order_as_denotation', 'limit_as_denotation', 'meta',
                         'typ', 'chain', 'makes_text_order')}
  if isinstance(x, list):
    return [StripForTlc(v) for v in x]
  return x


def NormProg(prog):
  """Stripped copy with defaults for fields added to the IR over time."""
  p = StripForTlc(prog)
  p.setdefault('makes', [])
  p.setdefault('rec', [])
  p['annpreds'] = list(prog.get('annpreds', []))
  reserved = set()

  def Names(x):
    if isinstance(x, dict):
      if x.get('k') == 'var' and str(x.get('name', '')).startswith('x_'):
        reserved.add(x['name'])
      for v in x.values():
        Names(v)
    elif isinstance(x, list):
      for v in x:
        Names(v)
  Names(p['preds'])
  p['reserved'] = sorted(reserved)
  for c in p['rec']:
    c.setdefault('iterative', False)
  for pred in p['preds']:
    pred.setdefault('inline', False)
    pred.setdefault('order', [])
    pred.setdefault('limit', -1)
  return p


def _FloatFix(v):
  """Floats are outside the value universe; Avg results are mapped to
  rationals <<"q", num, den>> exactly (SQLite computes AVG in double)."""
  if v[0] == 'f':
    from fractions import Fraction
    fr = Fraction(float(v[1])).limit_denominator(10000)
    return ['q', fr.numerator, fr.denominator]
  if v[0] == 'l':
    return ['l', [_FloatFix(x) for x in v[1]]]
  if v[0] == 'r':
    return ['r', [[f, _FloatFix(x)] for f, x in v[1]]]
  return v


def _Obs(case, res, preds):
  obs = []
  for p in preds:
    pr = res['preds'].get(p)
    if not pr or pr.get('status') != 'ok':
      continue
    obs.append({'p': p, 'ordered': p in case.get('ordered', ()),
                'rows': [{c: _FloatFix(v) for c, v in r.items()}
                         for r in pr['rows']]})
  return obs


def TraceLine(case, res, base_res=None):
  line = {'id': case['id'], 'prog': NormProg(case['prog']), 'dev': [],
          'obs': _Obs(case, res, case['query']), 'base': [], 'qmap': [],
          'bobs': [],
          'stages': [{'name': s['name'], 'prog': NormProg(s['prog'])}
                     for s in res.get('stages', []) if 'prog' in s]}
  if case.get('base') is not None:
    line['base'] = [NormProg(case['base'])]
    line['qmap'] = [{'b': b, 'v': v, 'ordered': bool(o)}
                    for b, v, o in case['qmap']]
    if base_res is not None and base_res.get('status') == 'ok':
      for b, v, _ in case['qmap']:
        pr = base_res['preds'].get(b)
        if pr and pr.get('status') == 'ok':
          line['bobs'].append({'p': v, 'rows': [
              {c: _FloatFix(x) for c, x in r.items()} for r in pr['rows']]})
  return line


def ParseVerdictLine(line):
  line = line.strip()
  if not (line.startswith('<<"V", "') and line.endswith('">>')):
    return None
  try:
    return json.loads(json.loads(line[6:-2]))
  except ValueError:
    return None


def Validate(lines, tag, shards=None, timeout=3600, module='LSemTrace'):
  """Writes ndjson shards and runs one TLC (workers 1) per shard in parallel.

  Returns (verdicts: {(id, pred): (ok, expected_text)}, stats, errors)."""
  shards = shards or min(common.NCPU, max(1, len(lines) // 20))
  d = common.BuildDir('trace', tag)
  for f in os.listdir(d):
    os.unlink(os.path.join(d, f))
  paths = []
  for s in range(shards):
    part = lines[s::shards]
    if not part:
      continue
    path = os.path.join(d, 'shard%02d.ndjson' % s)
    with open(path, 'w') as f:
      for l in part:
        f.write(json.dumps(l, separators=(',', ':')) + '\n')
    paths.append(path)

  def One(path):
    return tlc.Run(module, workers=1, env={'TRACE_FILE': path},
                   timeout=timeout, tag=tag, heap='2g')
  import concurrent.futures as cf
  with cf.ThreadPoolExecutor(max_workers=common.NCPU) as ex:
    results = list(ex.map(One, paths))
  verdicts = {}
  errors = []
  states = 0
  modes = {}
  musts = {}
  for path, r in zip(paths, results):
    states += r.distinct
    for line in r.out.splitlines():
      v = ParseVerdictLine(line)
      if v:
        verdicts[(v['id'], v['p'])] = (v['ok'], v['exp'])
        if 'must' in v:
          musts[(v['id'], v['p'])] = v['must']
        if v.get('mode'):
          modes[v['mode']] = modes.get(v['mode'], 0) + 1
    if r.rc not in (0,) and 'Accepted' not in r.out:
      errors.append((path, r.rc, r.out[-3000:]))
    elif r.error and 'Accepted' not in r.out and 'is violated' not in r.out:
      errors.append((path, r.rc, r.out[-3000:]))
  return verdicts, {'tlc_states': states, 'shards': len(paths),
                    'modes': modes, 'musts': musts}, errors
