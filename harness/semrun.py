"""Shared driver for the semantic checks: cases -> real pipeline -> TLC verdicts
-> classification -> replay files."""
import collections
import json
import re

from harness import common
from harness import findings
from harness import ir
from harness import semcheck


DEVIATIONS = ['count_empty_zero', 'list_empty_brackets', 'set_empty_brackets',
              'list_keeps_nulls', 'set_keeps_nulls', 'zero_key_one_row',
              'argbest_single_null_value']
MAX_ROWS = 150   # programs with larger tables are not sent to TLC (cost)


class Outcome:
  def __init__(self):
    self.cases = 0
    self.preds_judged = 0
    self.ok = 0
    self.disagreements = []      # (case, pred, kind, detail)
    self.violations = []         # subset not matched by a known finding
    self.known = collections.Counter()
    self.feature_counts = collections.Counter()
    self.nontrivial = set()
    self.tlc_states = 0
    self.tlc_errors = []
    self.samples = []
    self.impl_status = collections.Counter()
    self.t_impl = self.t_tlc = 0


def Signature(case, pred, kind, res_pred, expected):
  """Default signature of a disagreement, matched against known findings."""
  sig = {'kind': kind, 'features': case.get('meta', {}).get('features', [])}
  sig.update(case.get('meta', {}).get('sig', {}))
  if res_pred is not None:
    sig['status'] = res_pred.get('status')
    sig['cls'] = res_pred.get('cls')
    msg = re.sub(r'\x1b\[[0-9;]*m', '', res_pred.get('msg') or '')
    sig['msg_head'] = re.sub(r'\d+', 'N', re.sub(r'\d+(st|nd|rd|th)', 'Nth', msg))[:60]
  return sig


def Reproducers(prop):
  """Stored reproducers of the known findings of a property (cases)."""
  import os
  out = []
  for f in findings.Load()['findings']:
    if f['property'] == prop and f.get('reproducer'):
      with open(os.path.join(common.VERIF, f['reproducer'])) as fh:
        out.append(json.load(fh))
  return out


def RunCases(prop, cases, tag=None, signer=None, max_samples=4,
             expect_reject=False):
  """Runs all cases, returns Outcome.  A case may carry 'expect': 'rows'
  (default) - every queried predicate must compile, execute and match Den."""
  tag = tag or prop.lower()
  out = Outcome()
  out.cases = len(cases)
  cls = findings.Classifier(prop)
  clock = common.Clock()
  results = semcheck.RunImpl(cases)
  out.t_impl = clock()
  lines = []
  for case, res in zip(cases, results):
    for f in case.get('meta', {}).get('features', []):
      out.feature_counts[f] += 1
    if res.get('status') != 'ok':
      out.impl_status['program:' + res.get('status', '?')] += 1
      for p in case['query']:
        out.disagreements.append((case, p, 'program_' + res['status'], res))
      continue
    line = semcheck.TraceLine(case, res)
    big = max([len(o['rows']) for o in line['obs']] + [0])
    if big > MAX_ROWS:
      out.impl_status['skipped_big'] += 1
      continue
    if line['obs']:
      lines.append(line)
    for p in case['query']:
      pr = res['preds'].get(p, {})
      out.impl_status[pr.get('status', '?')] += 1
      if pr.get('status') != 'ok':
        out.disagreements.append((case, p, 'pred_' + pr.get('status', '?'),
                                  pr))
  verdicts, stats, errors = semcheck.Validate(lines, tag) if lines else (
      {}, {'tlc_states': 0}, [])
  out.t_tlc = clock() - out.t_impl
  out.tlc_states = stats['tlc_states']
  out.tlc_errors = errors
  by_id = {c['id']: (c, r) for c, r in zip(cases, results)}
  judged_ids = set()
  for (cid, p), (ok, exp) in verdicts.items():
    case, res = by_id[cid]
    out.preds_judged += 1
    judged_ids.add(cid)
    if exp:
      out.nontrivial.add(common.Sha([case['prog'], p]))
    if ok:
      out.ok += 1
      if len(out.samples) < max_samples and exp:
        out.samples.append({'id': cid, 'pred': p, 'text': res['text'],
                            'expected_rows': exp[:6],
                            'observed_rows': res['preds'][p]['rows'][:6]})
    else:
      out.disagreements.append((case, p, 'rows_differ',
                                {'expected': exp,
                                 'observed': res['preds'][p]['rows'],
                                 'status': 'ok'}))
  # Disagreements on rows: ask TLC which named engine deviations (LValues!
  # Deviations) explain the observed table, if any (minimal subset).
  differ = [(c, p) for c, p, kind, _ in out.disagreements
            if kind == 'rows_differ']
  explained = {}
  if differ and not errors:
    import itertools
    by_line = {l['id']: l for l in lines}
    pending = {}
    for c, p in differ:
      pending.setdefault(c['id'], set()).add(p)
    full = tuple(DEVIATIONS)
    # staged search for a minimal explaining subset: singles (+ the full set
    # as a feasibility test), then pairs, then triples.
    for size in (1, 2, 3):
      if not pending:
        break
      subsets = list(itertools.combinations(DEVIATIONS, size))
      if size == 1:
        subsets.append(full)
      vlines = []
      for cid in sorted(pending):
        base = by_line[cid]
        for m, ss in enumerate(subsets):
          vlines.append({'id': '%s#%d' % (cid, m), 'prog': base['prog'],
                         'dev': list(ss),
                         'obs': [o for o in base['obs']
                                 if o['p'] in pending[cid]]})
      v2, _, e2 = semcheck.Validate(vlines, tag + '_dev%d' % size)
      errors += e2
      for cid in list(pending):
        for p in list(pending[cid]):
          oks = [subsets[m] for m in range(len(subsets))
                 if v2.get(('%s#%d' % (cid, m), p), (False,))[0]]
          small = [ss for ss in oks if len(ss) == size]
          if small:
            explained[(cid, p)] = sorted(min(small))
            pending[cid].discard(p)
          elif size == 1 and full not in oks:
            pending[cid].discard(p)      # not explainable by deviations
        if not pending[cid]:
          del pending[cid]
  # every ok predicate must have been judged by TLC
  for line in lines:
    for o in line['obs']:
      if (line['id'], o['p']) not in verdicts and not errors:
        out.tlc_errors.append(('missing verdict', line['id'], o['p']))
  n = 0
  for case, p, kind, detail in out.disagreements:
    _, res = by_id[case['id']]
    sig = (signer or Signature)(case, p, kind, detail if isinstance(
        detail, dict) else None, None)
    devs = explained.get((case['id'], p))
    if devs:
      # known iff every deviation needed to explain it is a listed finding
      sig['explained_by'] = devs
      fs = [cls.Match({'dev': d, 'kind': kind}) for d in devs]
      if all(fs):
        for f in fs:
          out.known[f['id']] += 1
        continue
    f = cls.Match(sig)
    if f:
      out.known[f['id']] += 1
      continue
    n += 1
    path = common.WriteReplay(prop, '%s_%s_%s' % (tag, case['id'], p), {
        'case': case, 'pred': p, 'kind': kind, 'detail': detail,
        'text': res.get('text'), 'signature': sig})
    out.violations.append(path)
    if n <= 25:
      common.Violation(prop, path)
  cls.Report()
  out.classifier = cls
  return out
