"""Shared driver for the semantic checks: cases -> real pipeline -> TLC verdicts
-> classification -> replay files.

Direct properties (C01, C02, ...): every table the real pipeline returns must
be the bag LSem!Den assigns (TLC decides).  A disagreement is a VIOLATION unless
it is explained by named engine deviations that are all listed known findings,
or matches a listed finding's signature.

Metamorphic properties (C07, C08, C11): cases come as a base program and
variants with a predicate correspondence.  TLC checks Den(variant) = Den(base)
on the specification (model theorem) and judges every table against Den.  The
property is violated when a variant's observable differs from its base's: a
disagreement with Den that the variant merely shares with its base (same rows,
or the same diagnostic) is the business of C01/C02, not of the metamorphic
property, and is counted as `inherited`.
"""
import collections
import itertools
import json
import os
import re

from harness import common
from harness import findings
from harness import ir
from harness import semcheck

DEVIATIONS = ['count_empty_zero', 'list_empty_brackets', 'set_empty_brackets',
              'list_keeps_nulls', 'set_keeps_nulls', 'zero_key_one_row',
              'argbest_single_null_value']
MAX_ROWS = 150   # programs with larger tables are not sent to TLC (cost)


class Outcome:
  def __init__(self):
    self.cases = 0
    self.preds_judged = 0
    self.ok = 0
    self.disagreements = []      # (case, pred, kind, detail)
    self.violations = []         # replay paths
    self.known = collections.Counter()
    self.inherited = 0
    self.base_only = 0
    self.feature_counts = collections.Counter()
    self.nontrivial = set()
    self.tlc_states = 0
    self.tlc_errors = []
    self.samples = []
    self.impl_status = collections.Counter()
    self.t_impl = self.t_tlc = 0
    self.theorems_ok = 0
    self.sql_differs = 0
    self.modes = {}
    self.stage_judged = {}
    self.stage_skipped = collections.Counter()


def CleanMsg(msg):
  msg = re.sub(r'\x1b\[[0-9;]*m', '', msg or '')
  return re.sub(r'\d+', 'N', re.sub(r'\d+(st|nd|rd|th)', 'Nth', msg))[:60]


def Signature(case, pred, kind, detail):
  """Signature of a disagreement, matched against known findings."""
  sig = {'kind': kind, 'features': case.get('meta', {}).get('features', [])}
  sig.update(case.get('meta', {}).get('sig', {}))
  if isinstance(detail, dict):
    sig['status'] = detail.get('status')
    sig['cls'] = detail.get('cls')
    sig['msg_head'] = CleanMsg(detail.get('msg'))
  return sig


def Reproducers(prop):
  """Stored reproducers of the known findings of a property (cases)."""
  out = []
  for f in findings.Load()['findings']:
    if f['property'] == prop and f.get('reproducer'):
      with open(os.path.join(common.VERIF, f['reproducer'])) as fh:
        out.append(json.load(fh))
  return out


def _Explain(differ, lines, tag, errors):
  """Minimal sets of engine deviations under which TLC accepts the observed
  table; staged: singles (+ the full set as feasibility test), pairs, triples."""
  explained = {}
  by_line = {l['id']: l for l in lines}
  pending = {}
  for cid, p in differ:
    pending.setdefault(cid, set()).add(p)
  full = tuple(DEVIATIONS)
  for size in (1, 2, 3):
    if not pending:
      break
    subsets = list(itertools.combinations(DEVIATIONS, size))
    if size == 1:
      subsets.append(full)
    vlines = []
    for cid in sorted(pending):
      base = by_line[cid]
      for m, ss in enumerate(subsets):
        vlines.append({'id': '%s#%d' % (cid, m), 'prog': base['prog'],
                       'dev': list(ss), 'base': [], 'qmap': [], 'bobs': [],
                       'stages': [],
                       'obs': [o for o in base['obs']
                               if o['p'] in pending[cid]]})
    v2, _, e2 = semcheck.Validate(vlines, tag + '_dev%d' % size)
    errors += e2
    for cid in list(pending):
      for p in list(pending[cid]):
        oks = [subsets[m] for m in range(len(subsets))
               if v2.get(('%s#%d' % (cid, m), p), (False,))[0]]
        small = [ss for ss in oks if len(ss) == size]
        if small:
          explained[(cid, p)] = sorted(min(small))
          pending[cid].discard(p)
        elif size == 1 and full not in oks:
          pending[cid].discard(p)      # not explainable by deviations
      if not pending[cid]:
        del pending[cid]
  return explained


def RunCases(prop, cases, tag=None, max_samples=4, metamorphic=False):
  tag = tag or prop.lower()
  out = Outcome()
  out.cases = len(cases)
  cls = findings.Classifier(prop)
  clock = common.Clock()
  results = semcheck.RunImpl(cases)
  out.t_impl = clock()
  by_id = {c['id']: (c, r) for c, r in zip(cases, results)}
  lines = []
  D = {}          # (case id, pred) -> (kind, detail)
  for case, res in zip(cases, results):
    for f in case.get('meta', {}).get('features', []):
      out.feature_counts[f] += 1
    if res.get('status') != 'ok':
      out.impl_status['program:' + res.get('status', '?')] += 1
      for p in case['query']:
        D[(case['id'], p)] = ('program_' + res['status'], res)
      continue
    for st in res.get('stages', []):
      if 'skipped' in st:
        out.stage_skipped['%s: %s' % (st['name'], st['skipped'][:40])] += 1
    base_res = None
    if case.get('base_id') and case['base_id'] in by_id:
      base_res = by_id[case['base_id']][1]
    line = semcheck.TraceLine(case, res, base_res)
    big = max([len(o['rows']) for o in line['obs']] + [0])
    if big > MAX_ROWS:
      out.impl_status['skipped_big'] += 1
      continue
    if line['obs']:
      lines.append(line)
    for p in case['query']:
      pr = res['preds'].get(p, {})
      out.impl_status[pr.get('status', '?')] += 1
      if pr.get('status') != 'ok':
        D[(case['id'], p)] = ('pred_' + pr.get('status', '?'), pr)
  verdicts, stats, errors = semcheck.Validate(lines, tag) if lines else (
      {}, {'tlc_states': 0}, [])
  out.t_tlc = clock() - out.t_impl
  out.tlc_states = stats['tlc_states']
  out.modes = stats.get('modes', {})
  same = {}
  for (cid, p), (ok, exp) in verdicts.items():
    case, res = by_id[cid]
    if p == '$theorem':
      if ok:
        out.theorems_ok += 1
      else:
        D[(cid, p)] = ('model_theorem_fails', {})
      continue
    if p.startswith('$same:'):
      same[(cid, p[6:])] = ok
      continue
    if p.startswith('$stage:'):
      _, stage, pred = p.split(':', 2)
      out.stage_judged[stage] = out.stage_judged.get(stage, 0) + 1
      if not ok:
        D[(cid, p)] = ('stage_%s_changes_meaning' % stage,
                       {'stage_rows': exp, 'status': 'ok'})
      continue
    out.preds_judged += 1
    if exp:
      out.nontrivial.add(common.Sha([case['prog'], p]))
    if ok:
      out.ok += 1
      if len(out.samples) < max_samples and exp and (
          not metamorphic or case.get('base') is not None):
        out.samples.append({'id': cid, 'pred': p, 'text': res['text'],
                            'expected_rows': exp[:6],
                            'observed_rows': res['preds'][p]['rows'][:6]})
    else:
      D[(cid, p)] = ('rows_differ', {'expected': exp, 'status': 'ok',
                                     'observed': res['preds'][p]['rows']})
  for line in lines:
    for o in line['obs']:
      if (line['id'], o['p']) not in verdicts and not errors:
        errors.append(('missing verdict', line['id'], o['p']))
  differ = [k for k, (kind, _) in D.items() if kind == 'rows_differ']
  if metamorphic:
    # only the one-sided disagreements need an explanation (a deviation of
    # the engine that shows under one spelling / plan / order and not the
    # other); shared ones are inherited from the base
    one_sided = set()
    for case in cases:
      if case.get('base') is None:
        continue
      for b, v, _ in case['qmap']:
        dv = D.get((case['id'], v))
        db = D.get((case.get('base_id'), b))
        if dv and not db and dv[0] == 'rows_differ':
          one_sided.add((case['id'], v))
        if db and not dv and db[0] == 'rows_differ':
          one_sided.add((case['base_id'], b))
    differ = [k for k in differ if k in one_sided]
  explained = _Explain(differ, lines, tag, errors) if (
      differ and not errors) else {}
  out.tlc_errors = errors
  out.disagreements = [(by_id[cid][0], p, kind, detail)
                       for (cid, p), (kind, detail) in D.items()]

  # ---- which disagreements violate *this* property ---------------------------
  report = []     # (case, pred, kind, detail, sig)
  if not metamorphic:
    for (cid, p), (kind, detail) in sorted(D.items(), key=lambda kv: kv[0]):
      case = by_id[cid][0]
      sig = Signature(case, p, kind, detail)
      devs = explained.get((cid, p))
      if devs:
        sig['explained_by'] = devs
        fs = [cls.Match({'dev': d, 'kind': kind}) for d in devs]
        if all(fs):
          for f in fs:
            out.known[f['id']] += 1
          continue
      f = cls.Match(sig)
      if f:
        out.known[f['id']] += 1
        continue
      report.append((case, p, kind, detail, sig))
  else:
    for case in cases:
      if case.get('base') is None:
        out.base_only += sum(1 for p in case['query']
                             if (case['id'], p) in D)
        continue
      cid, bid = case['id'], case.get('base_id')
      if (cid, '$theorem') in D:
        report.append((case, '$theorem', 'model_theorem_fails', {},
                       Signature(case, '$theorem', 'model_theorem_fails', {})))
      for b, v, _ in case['qmap']:
        dv, db = D.get((cid, v)), D.get((bid, b))
        if not dv and not db:
          continue
        kind = None
        if dv and not db:
          kind, detail = 'variant_only_' + dv[0], dv[1]
        elif db and not dv:
          kind, detail = 'base_only_' + db[0], db[1]
        elif dv[0] != db[0]:
          kind, detail = 'variant_%s_base_%s' % (dv[0], db[0]), dv[1]
        elif dv[0] == 'rows_differ':
          if same.get((cid, v)):
            out.inherited += 1
            continue
          kind, detail = 'variant_rows_differ_from_base', dv[1]
        else:
          if (dv[1].get('cls') == db[1].get('cls') and
              CleanMsg(dv[1].get('msg')) == CleanMsg(db[1].get('msg'))):
            out.inherited += 1
            continue
          kind, detail = 'variant_diagnostic_differs', dv[1]
        sig = Signature(case, v, kind, detail)
        devs = (explained.get((cid, v)) if dv and not db else
                explained.get((bid, b)) if db and not dv else None)
        if devs:
          # the difference between the two sides is exactly a listed engine
          # deviation that one of the two SQL shapes triggers
          sig['explained_by'] = devs
          sig['dev_only'] = all(
              cls.Match({'dev': d, 'kind': 'rows_differ'}) for d in devs)
        f = cls.Match(sig)
        if f:
          out.known[f['id']] += 1
          continue
        report.append((case, v, kind, detail, sig))
  n = 0
  for case, p, kind, detail, sig in report:
    res = by_id[case['id']][1]
    n += 1
    payload = {'case': case, 'pred': p, 'kind': kind, 'detail': detail,
               'text': res.get('text'), 'signature': sig}
    if case.get('base_id') in by_id:
      payload['base_case'] = by_id[case['base_id']][0]
      payload['base_text'] = by_id[case['base_id']][1].get('text')
    path = common.WriteReplay(prop, '%s_%s_%s' % (tag, case['id'],
                                                 p.replace('$', '')), payload)
    out.violations.append(path)
    if n <= 25:
      common.Violation(prop, path)
  if metamorphic:
    # vacuity guard for plan variants: the SQL text really changed
    for case, res in zip(cases, results):
      if case.get('base_id') in by_id and case.get('keep_sql'):
        bres = by_id[case['base_id']][1]
        for b, v, _ in case['qmap']:
          s1 = (res.get('preds', {}).get(v) or {}).get('sql')
          s0 = (bres.get('preds', {}).get(b) or {}).get('sql')
          if s1 and s0 and s1 != s0:
            out.sql_differs += 1
            break
  cls.Report()
  out.classifier = cls
  return out


def StandardRun(prop, tier, cases, required, rule, assumptions, tag=None,
                metamorphic=False, extra_coverage=None):
  """Runs cases, writes evidence, prints a summary; returns the exit code."""
  from harness import evidence
  clock = common.Clock()
  out = RunCases(prop, cases, tag=tag, metamorphic=metamorphic)
  missing = [f for f in required if not out.feature_counts.get(f)]
  theorems = sum(1 for c in cases if c.get('base') is not None)
  coverage = {
      'states': max(1, out.tlc_states),
      'transitions': max(1, out.tlc_states),
      'traces_validated_against_impl': out.preds_judged,
      'evaluations': out.preds_judged,
      'distinct_nontrivial': len(out.nontrivial),
      'programs': out.cases,
      'model_theorem_instances': theorems,
      'model_theorem_ok': out.theorems_ok,
      'rule': rule + '; distinct_nontrivial = distinct (program, predicate) '
              'pairs whose denoted bag is non-empty',
      'samples': out.samples,
      'feature_counts': dict(out.feature_counts),
      'impl_status': dict(out.impl_status),
      'known_findings_hit': dict(out.known),
      'disagreements_with_den': len(out.disagreements),
      'inherited_from_base': out.inherited,
      'variants_whose_sql_differs_from_base': out.sql_differs,
      'verdict_modes': out.modes,
      'stage_tables_judged': out.stage_judged,
      'stages_skipped': dict(out.stage_skipped),
      'exhaustive': False,
  }
  if extra_coverage:
    coverage.update(extra_coverage)
    # states explored by the program-builder model count as model states
    coverage['states'] += extra_coverage.get('proggen_states', 0)
    coverage['transitions'] += extra_coverage.get('proggen_transitions', 0)
  evidence.Write(prop, tier, 'model_checking', coverage, clock(),
                 violations=len(out.violations), assumptions=assumptions)
  if out.tlc_errors:
    print('MACHINERY: TLC errors:', json.dumps(out.tlc_errors)[:3000])
    return 2
  if missing:
    print('MACHINERY: constructs never generated:', missing)
    return 2
  print('%s %s: %d programs, %d tables judged, %d ok, %d disagreements with '
        'Den (%d known, %d inherited from base), %d violations, %.1fs '
        '(impl %.1fs, tlc %.1fs)' % (
            prop, tier, out.cases, out.preds_judged, out.ok,
            len(out.disagreements), sum(out.known.values()), out.inherited,
            len(out.violations), clock(), out.t_impl, out.t_tlc))
  return 1 if out.violations else 0


def StandardReplay(prop, path, metamorphic=False):
  with open(path) as f:
    rp = json.load(f)
  cases = [rp['case']]
  if rp.get('base_case'):
    cases.insert(0, rp['base_case'])
  out = RunCases(prop, cases, tag=prop.lower() + 'replay',
                 metamorphic=metamorphic)
  return 1 if out.violations else 0
