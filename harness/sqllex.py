"""Dialect-aware SQL lexer for property C09: emitted SQL text -> the EVENT
sequence judged by spec/SqlScope.tla (through spec/SqlScopeTrace.tla).

This module is trusted code (it decides what the specification gets to see), so
it only *classifies tokens*; it takes no verdict.  Everything that can be wrong
with a statement is handed to the specification as events:

  ["open", k] / ["close", k]   ( [ {  and - so that an unterminated one shows up
                               as an unbalanced bracket - quoted identifiers
                               (kind ` or ") and block comments (kind /*)
  ["select",""] ["from",""] ["union",""]
  ["alias", a]     table alias in a from-list (`AS a`, bare `t a`, a table used
                   without alias, UNNEST/JSON_EACH/explode aliases; not the
                   relation name of `AS name(col, ..)`)
  ["ref", a]       first component of a dotted name a.column / a.* (not a
                   table name in a from-list, not after `)`/`]`/`.`, not a
                   namespaced function call NET.HOST(...))
  ["with", t] / ["withrec", t]   `t AS (` of a WITH / WITH RECURSIVE list
  ["use", t]       from-list table whose definition the script owes: the name
                   has the compiler-allocated form t_<N>_... or the script
                   itself defines it by WITH / CREATE TABLE;  ["useext", t] else
  ["create", t]    CREATE [OR REPLACE] TABLE [IF NOT EXISTS] t
  ["str", ""]      string literal token; its text goes to `strs` and is judged
                   by spec/StrLit.tla (the lexer only proposes where it ends)
  ["ph", kind]     compiler-internal residue outside literals: `{0}`-style
                   template fields and any brace where the dialect has no
                   brace syntax (kind brace), `%s` / `%d` (percent-s),
                   `/* nil */` (nil), the words None / UNUSED / UNDEFINED_x,
                   `# disambiguated`
  ["end", ""]      `;` or end of text

String-literal and identifier quoting per dialect follow spec/StrLit.tla:
  '...' everywhere; "..." is a string in bigquery/databricks and a quoted
  identifier elsewhere; E'...' in psql/duckdb; `...` is a quoted identifier;
  $$...$$ (psql/duckdb) is a bracket of kind $$ around the tokens of its body.
  Where a literal ends is decided with the dialect's own rules (_SQ: is a
  doubled quote an escape, is backslash an escape) - the same table as the
  profiles of StrLit!FormsOf, which then judges the token.
"""
import re

DIALECTS = ('sqlite', 'duckdb', 'psql', 'bigquery', 'trino', 'presto',
            'clickhouse', 'databricks')

# quote -> (doubled quote is an escape, backslash escapes)
_SQ = {'sqlite': (True, False), 'trino': (True, False),
       'presto': (True, False), 'psql': (True, False),
       'duckdb': (True, False), 'bigquery': (False, True),
       'clickhouse': (True, True), 'databricks': (False, True)}
_DQ_STRING = ('bigquery', 'databricks')
_E_STRING = ('psql', 'duckdb')
_BRACE_SYNTAX = ('duckdb',)           # {a: 1} struct literals
_HASH_COMMENT = ('bigquery',)
_DOLLAR_QUOTE = ('psql', 'duckdb')
_DOLLAR_TAG = re.compile(r'\$([A-Za-z_][A-Za-z0-9_]*)?\$')

KEYWORDS = set('''SELECT FROM WHERE GROUP HAVING ORDER LIMIT OFFSET WINDOW
QUALIFY UNION EXCEPT INTERSECT ALL DISTINCT JOIN ON USING INNER LEFT RIGHT FULL
OUTER CROSS NATURAL LATERAL AS WITH RECURSIVE CREATE DROP TABLE IF NOT EXISTS
OR REPLACE BY AND IS NULL IN CASE WHEN THEN ELSE END'''.split())
_CLAUSE_END = {'WHERE', 'GROUP', 'HAVING', 'ORDER', 'LIMIT', 'OFFSET',
               'WINDOW', 'QUALIFY'}
_ALLOCATED = re.compile(r't_\d+(_|$)')
_IDENT = re.compile(r'[A-Za-z_][A-Za-z0-9_$]*')
_NUMBER = re.compile(r'\d+(\.\d*)?([eE][+-]?\d+)?')
_FIELD = re.compile(r'\{\s*\w*\s*\}')


def _ScanQuoted(text, i, q, dbl, bs):
  """Index just after the closing quote q of the token whose body starts at
  i, or -1 when the text ends first."""
  n = len(text)
  while i < n:
    c = text[i]
    if bs and c == '\\':
      i += 2
    elif c == q:
      if dbl and i + 1 < n and text[i + 1] == q:
        i += 2
      else:
        return i + 1
    else:
      i += 1
  return -1


def Tokenize(text, dialect):
  """[(kind, value, quote)]; kinds: id, num, str, p(unct), ph, open, close."""
  toks = []
  i, n = 0, len(text)
  while i < n:
    c = text[i]
    if c.isspace():
      i += 1
    elif text.startswith('--', i):
      j = text.find('\n', i)
      i = n if j < 0 else j
    elif text.startswith('/*', i):
      j = text.find('*/', i + 2)
      if j >= 0 and text[i + 2:j].strip() == 'nil':
        toks.append(('ph', 'nil', ''))
      toks.append(('open', '/*', ''))
      if j < 0:
        i = n
      else:
        toks.append(('close', '/*', ''))
        i = j + 2
    elif c == '#' and text.startswith('# disambiguated', i):
      toks.append(('ph', 'disambiguated', ''))
      i += 1
    elif c == '#' and dialect in _HASH_COMMENT:
      j = text.find('\n', i)
      i = n if j < 0 else j
    elif (c == "'" or (c == '"' and dialect in _DQ_STRING) or
          (c in 'Ee' and dialect in _E_STRING and text.startswith("'", i + 1)
           and not (i > 0 and (text[i - 1].isalnum() or text[i - 1] == '_')))):
      start = i
      if c in 'Ee':
        j = _ScanQuoted(text, i + 2, "'", True, True)
      else:
        j = _ScanQuoted(text, i + 1, c, *_SQ[dialect])
      i = n if j < 0 else j
      toks.append(('str', text[start:i], ''))
    elif c == '`' or c == '"':
      j = _ScanQuoted(text, i + 1, c, True, False)
      if j < 0:
        toks.append(('open', c, ''))
        i = n
      else:
        toks.append(('id', text[i + 1:j - 1], c))
        i = j
    elif c.isdigit():
      m = _NUMBER.match(text, i)
      toks.append(('num', m.group(0), ''))
      i = m.end()
    elif c.isalpha() or c == '_':
      m = _IDENT.match(text, i)
      w = m.group(0)
      if w in ('None', 'UNUSED') or w.startswith('UNDEFINED_'):
        toks.append(('ph', w.split('_')[0], ''))
      else:
        toks.append(('id', w, ''))
      i = m.end()
    elif c == '$' and dialect in _DOLLAR_QUOTE and _DOLLAR_TAG.match(text, i):
      # $$ ... $$ / $tag$ ... $tag$: a string for the SQL parser whose content
      # is code (DO blocks of the PostgreSQL preamble).  Sent as a bracket of
      # kind $$ around the tokens of the body (its `;` do not end the
      # statement); unterminated -> unbalanced bracket.
      tag = _DOLLAR_TAG.match(text, i).group(0)
      j = text.find(tag, i + len(tag))
      toks.append(('open', '$$', ''))
      if j < 0:
        i = n
      else:
        toks.extend(t for t in Tokenize(text[i + len(tag):j], dialect)
                    if t[:2] != ('p', ';'))
        toks.append(('close', '$$', ''))
        i = j + len(tag)
    elif c == '{':
      m = _FIELD.match(text, i)
      if m:
        toks.append(('ph', 'brace', ''))
        i = m.end()
      else:
        toks.append(('p', c, '') if dialect in _BRACE_SYNTAX
                    else ('ph', 'brace', ''))
        i += 1
    elif c == '}':
      toks.append(('p', c, '') if dialect in _BRACE_SYNTAX
                  else ('ph', 'brace', ''))
      i += 1
    elif c == '%' and re.match(r'%[sd](?!\w)', text[i:i + 3]):
      toks.append(('ph', 'percent-s', ''))
      i += 2
    else:
      toks.append(('p', c, ''))
      i += 1
  return toks


_OPEN = {'(': '(', '[': '[', '{': '{'}
_CLOSE = {')': '(', ']': '[', '}': '{'}


def Events(text, dialect):
  """Events of one text (one or more statements); always ends with `end`."""
  toks = Tokenize(text, dialect) + [('eof', '', '')] * 3
  ev, strs = [], []
  depth = 0
  ctx = []          # query levels: [depth, clause, tablepos]
  wl = []           # WITH lists: [depth, recursive, expecting a name]
  first = ['']      # first word of the statement

  def Kw(t, *words):
    return t[0] == 'id' and not t[2] and t[1].upper() in words

  def Name(t):
    return t[0] == 'id' and (t[2] or t[1].upper() not in KEYWORDS)

  def Top():
    return ctx[-1] if ctx and ctx[-1][0] == depth else None

  def Quote(t):
    if t[2]:
      ev.append(['open', t[2]])
      ev.append(['close', t[2]])

  def Chain(i):
    """Dotted name starting at token i -> (parts, index after it)."""
    parts = [toks[i][1]]
    Quote(toks[i])
    j = i + 1
    while (toks[j][:2] == ('p', '.') and
           (toks[j + 1][0] == 'id' or toks[j + 1][:2] == ('p', '*'))):
      parts.append(toks[j + 1][1])
      Quote(toks[j + 1])
      j += 2
    return parts, j

  i = 0
  while toks[i][0] != 'eof':
    t = toks[i]
    kind, v = t[0], t[1]
    prev = toks[i - 1] if i else ('bof', '', '')
    i += 1
    if kind in ('open', 'close', 'ph'):
      ev.append([kind, v])
      if v == '$$':                       # the body of a dollar-quoted block
        depth = depth + 1 if kind == 'open' else max(0, depth - 1)
        while ctx and ctx[-1][0] > depth:
          ctx.pop()
    elif kind == 'str':
      strs.append([len(ev) + 1, [ord(c) for c in v]])
      ev.append(['str', ''])
    elif kind == 'p':
      if v in _OPEN:
        top = Top()
        if top:
          top[2] = False
        ev.append(['open', v])
        depth += 1
      elif v in _CLOSE:
        ev.append(['close', _CLOSE[v]])
        depth = max(0, depth - 1)
        while ctx and ctx[-1][0] > depth:
          ctx.pop()
        while wl and wl[-1][0] > depth:
          wl.pop()
      elif v == ',':
        top = Top()
        if top and top[1] == 'from':
          top[2] = True
        if wl and wl[-1][0] == depth:
          wl[-1][2] = True
      elif v == ';':
        ev.append(['end', ''])
        depth, first[0] = 0, ''
        del ctx[:], wl[:]
    elif kind == 'id' and not t[2] and v.upper() in KEYWORDS:
      w = v.upper()
      first[0] = first[0] or w
      top = Top()
      if w == 'SELECT':
        ev.append(['select', ''])
        if top:
          top[1] = 'select'
        else:
          ctx.append([depth, 'select', False])
        if wl and wl[-1][0] == depth:
          wl.pop()
      elif w == 'FROM':
        if top and top[1] == 'select':
          top[1], top[2] = 'from', True
          ev.append(['from', ''])
      elif w in _CLAUSE_END:
        if top:
          top[1] = 'other'
      elif w == 'UNION' or (w in ('EXCEPT', 'INTERSECT') and
                            Kw(toks[i], 'ALL', 'DISTINCT', 'SELECT')):
        if top:
          top[1] = 'other'
          ev.append(['union', ''])
      elif w == 'JOIN':
        if top and top[1] == 'from':
          top[2] = True
      elif w == 'WITH':
        j = i + 1 if Kw(toks[i], 'RECURSIVE') else i
        if (Name(toks[j]) and Kw(toks[j + 1], 'AS') and
            toks[j + 2][:2] == ('p', '(')):
          wl.append([depth, j > i, True])
          if not top:
            ctx.append([depth, 'with', False])
          i = j
      elif w == 'TABLE':
        j = i
        while Kw(toks[j], 'IF', 'NOT', 'EXISTS'):
          j += 1
        if Name(toks[j]):
          parts, j = Chain(j)
          if first[0] == 'CREATE':
            ev.append(['create', '.'.join(parts)])
          i = j
    elif kind == 'id':
      first[0] = first[0] or v
      parts, j = Chain(i - 1)
      top = Top()
      if (wl and wl[-1][0] == depth and wl[-1][2] and len(parts) == 1 and
          Kw(toks[j], 'AS') and toks[j + 1][:2] == ('p', '(')):
        ev.append(['withrec' if wl[-1][1] else 'with', v])
        wl[-1][2] = False
      elif top and top[1] == 'from' and top[2]:
        top[2] = False
        if toks[j][:2] != ('p', '('):       # not a table function
          ev.append(['use', '.'.join(parts)])
          if not (Kw(toks[j], 'AS') or Name(toks[j])):
            ev.append(['alias', parts[-1]])
      elif (top and top[1] == 'from' and len(parts) == 1 and
            prev[:2] != ('p', '.')):
        # `AS pushkin(x)` (Trino/Presto/Databricks UNNEST) names the columns;
        # the relation name pushkin is reused for every UNNEST of a from-list
        # and never referenced: not an alias definition for the scoper.
        if toks[j][:2] != ('p', '('):
          ev.append(['alias', v])
      elif (len(parts) >= 2 and prev[:2] not in (('p', '.'), ('p', ')'),
                                                 ('p', ']')) and
            toks[j][:2] != ('p', '(')):
        ev.append(['ref', parts[0]])
      i = j
  if not ev or ev[-1][0] != 'end':
    ev.append(['end', ''])
  return ev, strs


def Script(texts, dialect):
  """Events of a script (a list of texts executed in order) as one trace:
  {'ev': [...], 'strs': [[event index, code points], ...]} with the from-list
  tables tagged use / useext and duplicate string tokens dropped."""
  ev, strs, seen = [], [], set()
  for text in texts:
    e, s = Events(text, dialect)
    for idx, cps in s:
      key = tuple(cps)
      if key not in seen:
        seen.add(key)
        strs.append([len(ev) + idx, cps])
    ev += e
  defined = {a for k, a in ev if k in ('with', 'withrec', 'create')}
  for e in ev:
    if e[0] == 'use' and not (_ALLOCATED.match(e[1]) or e[1] in defined):
      e[0] = 'useext'
  return {'ev': ev, 'strs': strs}
