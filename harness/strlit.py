"""C10 binding, strings part: record what the REAL code of $LOGICA_REPO does with
strings and let TLC (spec/C10Trace.tla over StrLit.tla / LLexStr.tla) judge it.

Nothing in this file decides the property.  Python only
  * enumerates strings over the special alphabet and writes them as Logica
    literals (Render - an untrusted writer: the specification decodes the
    literal text that was actually written and derives the expectation from it),
  * calls the real code (QL.ConvertToSql for the unit level, the whole pipeline
    on SQLite, compile-only for the other dialects, logica.ReadUserFlags for
    user flags) and records emitted texts / returned values as code points,
  * shards the records, runs TLC and parses its verdict lines.
"""
import concurrent.futures as cf
import contextlib
import importlib.util
import io
import itertools
import json
import os
import re
import sys
import types

from harness import common
from harness import impl
from harness import tlc

ALPHABET = [39, 34, 92, 10, 9, 37, 123, 125, 36, 35, 45, 47, 42, 59, 96, 40,
            41, 233, 1044, 119070, 97, 32]
DIALECTS = ['sqlite', 'duckdb', 'psql', 'bigquery', 'trino', 'presto',
            'clickhouse', 'databricks']
POSITIONS = ['fact', 'list', 'record', 'concat', 'default', 'user']
# The literal as an argument of a built-in call (SQL text made from a template:
# {0}-style Element/Join/Size/Like, %s-style Greatest/ToString/Format; Upper is
# passed through).  Top-level context only.
FN_POSITIONS = ['element', 'joinsep', 'greatest', 'tostring', 'format',
                'upper', 'size', 'like']
FN_SQL_POSITIONS = ['element', 'joinsep', 'greatest', 'format', 'upper']
FN_EXPR = {
    'element': 'Element([%s, "a"], 0)',
    'joinsep': 'Join(["a", "a"], %s)',
    'greatest': 'Greatest(%s, "")',
    'tostring': 'ToString(%s)',
    'format': 'Format("%%s", %s)',
    'upper': 'Upper(%s)',
    'size': 'ToString(Size([%s]))',
    'like': 'ToString(Like(%s, "%%"))',
}
# A flag value read in other places than the head of a fact: FlagValue(..)
# concatenated, compared with a string column, inside a list / a record, and
# the ${flag} form inside a string literal; value given as @DefineFlag default
# (d..) or by the user (u..).  Top-level context only.
FLAG_EXPR = {
    'cat': '"a" ++ FlagValue("%s") ++ "a"',
    'list': None, 'eq': None,
    'rec': '{f: FlagValue("%s")}',
    'param': '"a${%s}a"',
}
FLAG_POSITIONS = [src + k for src in 'du' for k in ('cat', 'eq', 'list',
                                                     'rec', 'param')]
USER_POSITIONS = ['user'] + [p for p in FLAG_POSITIONS if p[0] == 'u']
TOP_ONLY = set(FN_POSITIONS) | set(FLAG_POSITIONS)
FORMS = ['dq', 'sq', 'tq', 'sqraw']
MARKER = 'qzq'
ISOLATION_BUDGET = 48    # extra programs per failing batch of strings


def Cps(text):
  return [ord(c) for c in text]


def Txt(cps):
  return ''.join(chr(c) for c in cps)


def AllStrings(n):
  for k in range(n + 1):
    for tup in itertools.product(ALPHABET, repeat=k):
      yield Txt(tup)


def ShardOf(s, nshards):
  """Must agree with C10Trace!InShard (TLC re-checks it for every record)."""
  return sum(ord(c) % 1000 for c in s) % nshards


# ---------------------------------------------------------------------------
# Writing a string as a Logica literal (untrusted writer; see module doc).

def CanWrite(form, s):
  if form == 'dq':
    return '"' not in s and '\n' not in s
  if form == 'tq':
    return '"""' not in s and not s.endswith('"')
  if form == 'sqraw':
    return any(_LoneOk(s, i) for i in range(len(s)))
  return True


_ESCAPE_LETTERS = set('\'"\\\nabfnrtvxNuU0123456789')


def _LoneOk(s, i):
  """The backslash at s[i] can be written alone in '...': the next character
  does not make an escape sequence with it."""
  return s[i] == '\\' and i + 1 < len(s) and s[i + 1] not in _ESCAPE_LETTERS


def Render(form, s):
  if form == 'dq':
    return '"' + s + '"'
  if form == 'tq':
    return '"""' + s + '"""'
  out = []
  for i, c in enumerate(s):
    if form == 'sqraw' and _LoneOk(s, i):
      out.append('\\')
    else:
      out.append({"'": "\\'", '\\': '\\\\', '\n': '\\n'}.get(c, c))
  return "'" + ''.join(out) + "'"


# ---------------------------------------------------------------------------
# Unit level: QL.ConvertToSql of a string literal / of FlagValue, 8 dialects.

_ql_mods = {}


def _QL(d, flags):
  if not _ql_mods:
    common.UseRepo()
    from compiler import expr_translate
    from compiler import dialects
    _ql_mods.update(et=expr_translate, di=dialects)
  return _ql_mods['et'].QL({}, None, Exception, flags,
                           dialect=_ql_mods['di'].DIALECTS[d]())


def _LitExpr(s):
  return {'literal': {'the_string': {'the_string': s}}}


def _FlagValueExpr(name):
  return {'call': {'predicate_name': 'FlagValue', 'record': {'field_value': [
      {'field': 0, 'value': {'expression': _LitExpr(name)}}]}}}


def EmitLiteral(d, s):
  return _QL(d, {}).ConvertToSql(_LitExpr(s))


def _UnitChunk(strings):
  recs = []
  for s in strings:
    lit, flag = {}, {}
    for d in DIALECTS:
      try:
        lit[d] = EmitLiteral(d, s)
      except Exception as e:  # pylint: disable=broad-except
        lit[d] = '<EXC %s>' % type(e).__name__
      try:
        flag[d] = _QL(d, {'f': s}).ConvertToSql(_FlagValueExpr('f'))
      except Exception as e:  # pylint: disable=broad-except
        flag[d] = '<EXC %s>' % type(e).__name__
    recs.append({'k': 'unit', 'id': 'u:' + json.dumps(Cps(s)), 's': s,
                 'lit': lit, 'flag': flag})
  return recs


def UnitRecords(strings):
  strings = list(strings)
  chunks = [strings[i:i + 500] for i in range(0, len(strings), 500)]
  out = []
  for part in common.ParallelMap(_UnitChunk, chunks, chunksize=1):
    out.extend(part)
  return out


# ---------------------------------------------------------------------------
# The real logica.ReadUserFlags (logica.py is a script using package-relative
# imports when it is not __main__: load it as a member of a synthetic package
# rooted at $LOGICA_REPO - no repo file is copied or changed).

_cli = {}


def LogicaCli():
  if 'mod' not in _cli:
    pkg = types.ModuleType('c10repo')
    pkg.__path__ = [common.REPO]
    sys.modules['c10repo'] = pkg
    spec = importlib.util.spec_from_file_location(
        'c10repo.logica', os.path.join(common.REPO, 'logica.py'))
    mod = importlib.util.module_from_spec(spec)
    sys.modules['c10repo.logica'] = mod
    spec.loader.exec_module(mod)
    _cli['mod'] = mod
  return _cli['mod']


def ReadUserFlags(rules, assignments):
  """assignments: [(flag, value)] -> dict, via the real command-line reader."""
  argv = ['--%s=%s' % (f, v) for f, v in assignments]
  err = io.StringIO()
  with contextlib.redirect_stdout(err), contextlib.redirect_stderr(err):
    try:
      return LogicaCli().ReadUserFlags(rules, argv)
    except SystemExit:
      raise ValueError('ReadUserFlags exited: ' + err.getvalue()[:300])


# ---------------------------------------------------------------------------
# Programs placing a literal in a position.  ctx "top": the predicate has one
# rule (the literal sits in the outermost SELECT); ctx "nested": the predicate
# has several rules (each SELECT is a member of a UNION ALL subquery).

def _RuleFor(pos, ctx, i, lit):
  head = ('P%d(%%s)' % i) if ctx == 'top' else ('P(i: %d, v: %%s)' % i)
  if pos == 'fact':
    return head % lit + ';'
  if pos == 'list':
    return head % 'x' + ' :- x in [%s];' % lit
  if pos == 'record':
    return head % ('{f: %s}' % lit) + ';'
  if pos == 'concat':
    return head % ('"a" ++ %s ++ "a"' % lit) + ';'
  if pos == 'default':
    return ('@DefineFlag("fd%d", %s);\n' % (i, lit) +
            head % ('FlagValue("fd%d")' % i) + ';')
  if pos == 'user':
    return ('@DefineFlag("fu%d", "a");\n' % i +
            head % ('FlagValue("fu%d")' % i) + ';')
  if pos in FN_EXPR:
    return head % (FN_EXPR[pos] % lit) + ';'
  if pos in FLAG_POSITIONS:
    user, kind = pos[0] == 'u', pos[1:]
    flag = ('fu%d' if user else 'fd%d') % i
    define = '@DefineFlag("%s", %s);\n' % (flag, '"a"' if user else lit)
    if kind == 'list':
      return define + head % 'x' + ' :- x in [FlagValue("%s")];' % flag
    if kind == 'eq':      # lit: the same string, as the content of a column
      return (define + 'S%d(%s);\n' % (i, lit) +
              head % 'x' + ' :- S%d(x), x == FlagValue("%s");' % (i, flag))
    return define + head % (FLAG_EXPR[kind] % flag) + ';'
  raise ValueError(pos)


def ProgramFor(engine, pos, ctx, lits):
  lines = ['@Engine("%s");' % engine]
  for i, lit in enumerate(lits):
    lines.append(_RuleFor(pos, ctx, i, lit))
  if ctx == 'nested':
    lines.append('P(i: -1, v: "a");' if pos != 'record'
                 else 'P(i: -1, v: {f: "a"});')
  return '\n'.join(lines) + '\n'


def _Status(e):
  return impl.Classify(e)


def _Value(pos, v):
  """SQLite value -> (status, text).  A record comes back as JSON text (that
  is SQLite's representation of a Logica record): its field f is read with
  JSON rules."""
  if pos in ('record', 'drec', 'urec'):
    try:
      v = json.loads(v)['f']
    except Exception:  # pylint: disable=broad-except
      return 'nonstring', repr(v)
  if not isinstance(v, str):
    return 'nonstring', repr(v)
  return 'ok', v


def _RunBatch(pos, ctx, lits, values):
  """One program, len(lits) strings.  Returns [(status, got_text, detail)] or
  None when the program as a whole failed (caller isolates)."""
  m = impl.Mods()
  text = ProgramFor('sqlite', pos, ctx, lits)
  err = io.StringIO()
  with contextlib.redirect_stderr(err), contextlib.redirect_stdout(err):
    try:
      rules = m['parse'].ParseFile(text)['rule']
      user_flags = {}
      if pos in USER_POSITIONS:
        user_flags = ReadUserFlags(
            rules, [('fu%d' % i, v) for i, v in enumerate(values)])
      program = m['universe'].LogicaProgram(rules, user_flags=user_flags)
    except BaseException as e:  # pylint: disable=broad-except
      if isinstance(e, KeyboardInterrupt):
        raise
      if len(lits) > 1:
        return None
      return [(_Status(e), '', '%s: %s' % (type(e).__name__,
                                           impl.ExcText(e)[:300]))]
    res = []
    preds = (['P%d' % i for i in range(len(lits))] if ctx == 'top' else ['P'])
    got = {}
    for p in preds:
      try:
        program.FormattedPredicateSql(p)
        ex = program.execution
        con = m['sqlite3_logica'].SqliteConnect()
        cur = con.cursor()
        for s in [ex.preamble] + ex.defines_and_exports:
          cur.executescript(s)
        cur.execute(ex.main_predicate_sql)
        rows = cur.fetchall()
        con.close()
        got[p] = ('ok', rows, '')
      except BaseException as e:  # pylint: disable=broad-except
        if isinstance(e, KeyboardInterrupt):
          raise
        name = type(e).__name__
        st = (_Status(e) if name in impl.DIAGNOSTICS else
              'sqlerror' if 'sqlite3' in type(e).__module__ else 'internal')
        got[p] = (st, [], '%s: %s' % (name, impl.ExcText(e)[:300]))
    if ctx == 'nested':
      st, rows, detail = got['P']
      if st != 'ok' and len(lits) > 1:
        return None
      by_i = {}
      for r in rows:
        by_i.setdefault(r[0], []).append(r[1])
      for i in range(len(lits)):
        if st != 'ok':
          res.append((st, '', detail))
        elif len(by_i.get(i, [])) != 1:
          res.append(('norow', '', 'rows: %r' % (by_i.get(i),)))
        else:
          s2, v = _Value(pos, by_i[i][0])
          res.append((s2, v, ''))
    else:
      for i in range(len(lits)):
        st, rows, detail = got['P%d' % i]
        if st != 'ok':
          res.append((st, '', detail))
        elif len(rows) != 1:
          res.append(('norow', '', 'rows: %r' % (rows[:3],)))
        else:
          s2, v = _Value(pos, rows[0][0])
          res.append((s2, v, ''))
    return res


def _Forms(form, strings):
  return list(form) if isinstance(form, (list, tuple)) else [form] * len(strings)


def _PipeTask(task):
  pos, ctx, form, strings = task
  forms = _Forms(form, strings)
  if pos in USER_POSITIONS:
    lits = ([Render(PrimaryForm(s), s) for s in strings] if pos == 'ueq'
            else ['"a"'] * len(strings))
    values = strings
  else:
    lits = [Render(f, s) for f, s in zip(forms, strings)]
    values = [None] * len(strings)
  budget = [ISOLATION_BUDGET]

  def Solve(ls, vs):
    """Bisects a failing batch; when the budget of extra programs is spent
    (massive failure) the remaining strings are recorded as 'batchfail'."""
    r = _RunBatch(pos, ctx, ls, vs)
    if r is not None:
      return r
    if budget[0] <= 0:
      return [('batchfail', '', 'program failed as a whole; isolation budget '
               'spent')] * len(ls)
    budget[0] -= 2
    h = len(ls) // 2
    return Solve(ls[:h], vs[:h]) + Solve(ls[h:], vs[h:])
  res = Solve(lits, values)
  recs = []
  for s, l, form, (st, got, detail) in zip(strings, lits, forms, res):
    written = s if pos in USER_POSITIONS else l
    rec = {'k': 'pipe', 'pos': pos, 'ctx': ctx, 'form': form,
           'lit': written, 'status': st, 'got': got, '_key': s,
           'id': 'p:%s:%s:%s:%s' % (pos, ctx, form, json.dumps(Cps(written)))}
    if detail:
      rec['detail'] = detail
    recs.append(rec)
  return recs


_PARAM_FORM = re.compile(r'[$][{][^\n]*[}]')


def _Batches(pairs, pos, batch):
  """pairs: [(form, string)].  Scheduling only: a program is rejected as a
  whole when one of its literals has the parameter form ${..} with an
  undefined name, so such strings get a program of their own instead of
  spoiling a batch (any other failing batch is bisected by _PipeTask)."""
  alone = [p for p in pairs if pos not in USER_POSITIONS and
           _PARAM_FORM.search(p[1])]
  together = [p for p in pairs if not (pos not in USER_POSITIONS and
                                       _PARAM_FORM.search(p[1]))]
  parts = [together[i:i + batch] for i in range(0, len(together), batch)]
  return parts + [[p] for p in alone]


def PipeTasks(strings, batch, forms_for=None, positions=None):
  """(pos, ctx, [forms], [strings]) tasks covering every position, both
  contexts and every literal form that can carry the string (a program mixes
  literal forms; each record carries the form its literal was written in)."""
  tasks = []
  for pos in positions or POSITIONS + FN_POSITIONS:
    for ctx in (('top',) if pos in TOP_ONLY else ('top', 'nested')):
      forms = ['argv'] if pos in USER_POSITIONS else FORMS
      pairs = []
      for form in forms:
        sel = [s for s in strings if form == 'argv' or CanWrite(form, s)]
        if forms_for is not None:
          sel = [s for s in sel if form in forms_for(s, pos, ctx)]
        pairs += [(form, s) for s in sel]
      for part in _Batches(pairs, pos, batch):
        tasks.append((pos, ctx, [f for f, _ in part], [s for _, s in part]))
  return tasks


def PipeRecords(tasks):
  out = []
  for part in common.ParallelMap(_PipeTask, tasks, chunksize=1):
    out.extend(part)
  return out


# ---------------------------------------------------------------------------
# Compile-only, every dialect: statement for the marker vs statement for s.
# One program holds the marker predicate M and one predicate per string, all
# of the same shape; in ctx "nested" every predicate has a second rule so that
# its SELECT becomes a member of a UNION ALL subquery.

def _SqlRules(pos, ctx, name, flag, lit):
  head = (name + '(%s)') if ctx == 'top' else (name + '(i: 0, v: %s)')
  body = {
      'fact': head % lit + ';',
      'list': head % 'x' + ' :- x in [%s];' % lit,
      'record': head % ('{f: %s}' % lit) + ';',
      'concat': head % ('"a" ++ %s ++ "a"' % lit) + ';',
      'default': '@DefineFlag("%s", %s);\n' % (flag, lit) +
                 head % ('FlagValue("%s")' % flag) + ';',
      'user': '@DefineFlag("%s", "a");\n' % flag +
              head % ('FlagValue("%s")' % flag) + ';',
  }.get(pos) or head % (FN_EXPR[pos] % lit) + ';'
  if ctx == 'nested':
    body += '\n%s(i: -1, v: %s);' % (name, '{f: "a"}' if pos == 'record'
                                     else '"a"')
  return body


def SqlProgram(engine, pos, ctx, lits):
  lines = ['@Engine("%s");' % engine,
           _SqlRules(pos, ctx, 'M', 'fm', '"%s"' % MARKER)]
  for i, lit in enumerate(lits):
    lines.append(_SqlRules(pos, ctx, 'P%d' % i, 'fp%d' % i, lit))
  return '\n'.join(lines) + '\n'


def _SqlBatch(d, pos, ctx, lits, values):
  """-> [(status, sql, detail)], ref, mpos   or None (caller isolates)."""
  m = impl.Mods()
  text = SqlProgram(d, pos, ctx, lits)
  try:
    rules = m['parse'].ParseFile(text)['rule']
    user_flags = {}
    if pos == 'user':
      user_flags = ReadUserFlags(
          rules, [('fm', MARKER)] + [('fp%d' % i, v)
                                     for i, v in enumerate(values)])
    program = m['universe'].LogicaProgram(rules, user_flags=user_flags)
  except BaseException as e:  # pylint: disable=broad-except
    if isinstance(e, KeyboardInterrupt):
      raise
    if len(lits) > 1:
      return None
    return ([(_Status(e), '', '%s: %s' % (type(e).__name__,
                                          impl.ExcText(e)[:300]))], '', 1)
  ref = program.FormattedPredicateSql('M')
  # mpos = 0 when the marker did not reach the statement at all: TLC then
  # rejects every record of the batch ("marker-not-emitted-as-one-literal").
  mpos = ref.index(MARKER) + 1 if MARKER in ref else 0
  res = []
  for i in range(len(lits)):
    try:
      res.append(('ok', program.FormattedPredicateSql('P%d' % i), ''))
    except BaseException as e:  # pylint: disable=broad-except
      if isinstance(e, KeyboardInterrupt):
        raise
      res.append((_Status(e), '', '%s: %s' % (type(e).__name__,
                                              impl.ExcText(e)[:300])))
  return res, ref, mpos


def _SqlTask(task):
  d, pos, ctx, form, strings = task
  forms = _Forms(form, strings)
  if pos == 'user':
    lits, values = ['"a"'] * len(strings), strings
  else:
    lits = [Render(f, s) for f, s in zip(forms, strings)]
    values = [None] * len(strings)
  err = io.StringIO()
  with contextlib.redirect_stderr(err), contextlib.redirect_stdout(err):
    out = _SqlBatch(d, pos, ctx, lits, values)
    if out is None:
      parts = [_SqlBatch(d, pos, ctx, [l], [v]) for l, v in zip(lits, values)]
    else:
      parts = [([r], out[1], out[2]) for r in out[0]]
  recs = []
  for s, l, form, (res, ref, mpos) in zip(strings, lits, forms, parts):
    st, sql, detail = res[0]
    written = s if pos == 'user' else l
    rec = {'k': 'sql', 'd': d, 'pos': pos, 'ctx': ctx, 'form': form,
           'lit': written, 'ref': ref, 'mpos': mpos,
           'status': st, 'sql': sql, '_key': s,
           'id': 's:%s:%s:%s:%s:%s' % (d, pos, ctx, form,
                                       json.dumps(Cps(written)))}
    if detail:
      rec['detail'] = detail
    recs.append(rec)
  return recs


def SqlTasks(strings, batch, dialects=None):
  tasks = []
  for d in dialects or DIALECTS:
    for pos in POSITIONS + FN_SQL_POSITIONS:
      for ctx in (('top',) if pos in FN_EXPR else ('top', 'nested')):
        pairs = [('argv' if pos == 'user' else PrimaryForm(s), s)
                 for s in strings]
        for part in _Batches(pairs, pos, batch):
          tasks.append((d, pos, ctx, [f for f, _ in part],
                        [s for _, s in part]))
  return tasks


def SqlRecords(tasks):
  out = []
  for part in common.ParallelMap(_SqlTask, tasks, chunksize=1):
    out.extend(part)
  return out


def PrimaryForm(s):
  """The documented "..." form when it can carry s, else '...' (escapes)."""
  return 'dq' if CanWrite('dq', s) else 'sq'


# ---------------------------------------------------------------------------
# TLC side.

def ParseJsonLine(line, marker):
  line = line.strip()
  pre = '<<"%s", "' % marker
  if not (line.startswith(pre) and line.endswith('">>')):
    return None
  try:
    return json.loads(json.loads(line[len(pre) - 1:-2]))
  except ValueError:
    return None


def ToWire(rec):
  """Record -> the JSON object TLC reads: every text as code points (records
  keep Python strings in memory: the thorough tier holds 350 k of them)."""
  out = {}
  for a, b in rec.items():
    if a in ('_key', 'detail'):
      continue
    if a in ('s', 'lit', 'flag', 'got', 'ref', 'sql'):
      b = ({d: Cps(x) for d, x in b.items()} if isinstance(b, dict)
           else Cps(b))
    out[a] = b
  return out


def Lemma(n, timeout=3400):
  """StrLitLemma over all strings up to length n.  Returns (TlcResult, carry)."""
  r = tlc.Run('StrLitLemma', cfg='StrLitLemma%d.cfg' % n, timeout=timeout,
              tag='c10lemma', coverage=False)
  carry = None
  for line in r.out.splitlines():
    v = ParseJsonLine(line, 'CARRY')
    if v:
      carry = v
  return r, carry


def Validate(records, tag, nshards=None, timeout=3000):
  """Shards records by the residue of their key string, runs one TLC per
  shard.  Returns (bad: {id: verdict}, summaries, errors, stats)."""
  nshards = nshards or max(1, min(common.NCPU, len(records) // 2500))
  d = common.BuildDir('trace', tag)
  for f in os.listdir(d):
    os.unlink(os.path.join(d, f))
  shards = [[] for _ in range(nshards)]
  for r in records:
    key = r['s'] if r['k'] == 'unit' else r['_key']
    shards[ShardOf(key, nshards)].append(r)
  paths = []
  for k, part in enumerate(shards):
    path = os.path.join(d, 'shard%02d.ndjson' % k)
    with open(path, 'w') as f:
      f.write(json.dumps({'k': 'hdr', 'shard': k, 'nshards': nshards}) + '\n')
      for r in part:
        f.write(json.dumps(ToWire(r), separators=(',', ':')) + '\n')
    paths.append(path)

  def One(path):
    return tlc.Run('C10Trace', workers=1, env={'TRACE_FILE': path,
                        'JAVA_TOOL_OPTIONS': '-XX:ParallelGCThreads=2'},
                   timeout=timeout, tag=tag, heap='3g')
  with cf.ThreadPoolExecutor(max_workers=common.NCPU) as ex:
    results = list(ex.map(One, paths))
  bad, summaries, errors = {}, [], []
  states = 0
  for path, r in zip(paths, results):
    states += r.distinct
    summ = None
    for line in r.out.splitlines():
      v = ParseJsonLine(line, 'V')
      if v:
        bad[v['id']] = v
        continue
      s = ParseJsonLine(line, 'S')
      if s:
        summ = s
    if summ is None or not r.ok:
      errors.append((path, r.rc, r.out[-3000:]))
    else:
      summaries.append(summ)
  return bad, summaries, errors, {'tlc_states': states, 'shards': len(paths),
                                  'tlc_wall': max(r.wall for r in results)}
