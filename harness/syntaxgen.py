"""Spec -> code binding for the syntactic properties (C06, C15).

spec/LSyntaxGen.tla (token-level grammar/builder machine) exports programs as
token sequences; spec/LLexNoise.tla (layout machine of spec/LLex.tla) exports
noise placements; spec/LLexFill.tla exports string/comment contents;
spec/LSyntaxCorrupt.tla exports single-token corruptions.  This module runs
those TLC jobs, renders token sequences + layouts to Logica text (the Python
twin of LLex!Render -- the trace specification re-renders every text and
rejects a record whose text differs), parses texts with BOTH parsers of
$LOGICA_REPO and projects the rule trees into plain data (hashes, spans,
literal values) that spec/LLexTrace.tla judges.
"""
import hashlib
import json
import os
import re

from harness import common
from harness import tlc

KEYWORDS = {'in', 'if', 'then', 'else', 'else if', 'combine', 'distinct',
            'order_by', 'limit', 'import', 'as'}
# two-character sequences that would lex as another token / a comment marker
MERGE2 = {':-', ':=', '==', '<=', '>=', '!=', '->', '&&', '||', '++', '..',
          '=>', '/*', '*/', '--', '-+', '+-'}
OPENING = '([{'
CLOSING = ')]}'

DEFAULT_CFILL = ' c '
# default contents of fillable string slots (rotated by slot number)
DEFAULT_STR = ['s1', 'a b', 'x;y', 't']


def _IsWordChar(c):
  return c.isalnum() or c in '_@$'


# ---- token texts -------------------------------------------------------------


def StrLiteral(form, content):
  if form == 'dq':
    return '"%s"' % content
  if form == 'sq':
    return "'%s'" % content
  if form == 'tq':
    return '"""%s"""' % content
  if form == 'dq_sqlite':
    return '"sqlite"'
  if form == 'dq_col0':
    return '"col0"'
  raise ValueError(form)


def TokenTexts(toks, str_fill=None):
  """Texts of the tokens.  str_fill: {slot number: raw content} overrides for
  fillable string slots (slots are numbered 0.. in order of appearance)."""
  out = []
  slot = 0
  for t in toks:
    if t['k'] == 'strcut':      # LSyntaxCorrupt!CutString: no closing quote
      form = t['t']
      lit = StrLiteral(form, DEFAULT_STR[slot % len(DEFAULT_STR)]
                       if form in ('dq', 'sq', 'tq') else None)
      slot += 1 if form in ('dq', 'sq', 'tq') else 0
      out.append(lit[:-3] if form == 'tq' else lit[:-1])
      continue
    if t['k'] == 'str':
      if t['t'] in ('dq', 'sq', 'tq'):
        content = DEFAULT_STR[slot % len(DEFAULT_STR)]
        if str_fill and slot in str_fill:
          content = str_fill[slot]
        slot += 1
        out.append(StrLiteral(t['t'], content))
      else:
        out.append(StrLiteral(t['t'], None))
    else:
      out.append(t['t'])
  return out


def StringSlots(toks):
  """[(token index, form)] of the fillable string slots."""
  return [(i, t['t']) for i, t in enumerate(toks)
          if t['k'] == 'str' and t['t'] in ('dq', 'sq', 'tq')]


def SepFlags(toks, texts):
  """sep[b], glue[b] for b = 0..n (boundary b is between token b and b+1,
  1-based tokens)."""
  n = len(toks)
  sep = [0] * (n + 1)
  glue = [0] * (n + 1)
  for b in range(1, n):
    prev, cur = toks[b - 1], toks[b]
    pt, ct = texts[b - 1], texts[b]
    if cur.get('g'):
      glue[b] = 1
      continue
    need = False
    prev_kw = prev['k'] == 'kw' and prev['t'] in KEYWORDS
    cur_kw = cur['k'] == 'kw' and cur['t'] in KEYWORDS
    if prev_kw and not (ct[0] in CLOSING or ct[0] in ',;'):
      need = True
    if cur_kw and not (pt[-1] in OPENING):
      need = True
    if _IsWordChar(pt[-1]) and _IsWordChar(ct[0]):
      need = True
    if pt[-1] + ct[0] in MERGE2:
      need = True
    sep[b] = 1 if need else 0
  return sep, glue


def Cps(s):
  return [ord(c) for c in s]


def UnCps(a):
  return ''.join(chr(c) for c in a)


def StatementBoundaries(tc):
  """Boundaries where an empty statement may stand (LLex!CanEmpty)."""
  n = len(tc['toks'])
  semi = [ord(';')]
  return [b for b in range(n + 1)
          if b in (0, n) or tc['toks'][b - 1] == semi or
          (b < n and tc['toks'][b] == semi)]


def WrappableRanges(case):
  seen = []
  for r in case['ranges']:
    kind, a, b, w = r
    if w and [a, b] not in seen:
      seen.append([a, b])
  return seen


def TlcCase(case, cid, str_fill=None, cfill=DEFAULT_CFILL):
  """The case as LLex sees it (code points, separator/glue flags)."""
  texts = TokenTexts(case['toks'], str_fill)
  sep, glue = SepFlags(case['toks'], texts)
  return {'id': cid, 'toks': [Cps(t) for t in texts], 'sep': sep,
          'glue': glue, 'ranges': WrappableRanges(case), 'cfill': Cps(cfill)}


# ---- rendering (twin of LLex!Render) ------------------------------------------

EMPTY_LAYOUT = {'sites': [], 'wraps': [], 'nests': [], 'empties': [],
                'semi': 0}


def NormLayout(lay):
  """All four components present (nests: [{'w', 'd', 'k'}] = d layers of
  redundant parentheses around range w with noise k between the layers)."""
  return {'sites': list(lay.get('sites', [])), 'wraps': list(lay.get('wraps', [])),
          'nests': list(lay.get('nests', [])),
          'empties': list(lay.get('empties', [])), 'semi': lay.get('semi', 0)}


# every ASCII layout character besides blank and newline, and CRLF line ends
CONTROL_SPACE = {'tab': '\t', 'cr': '\r', 'ff': '\f', 'vt': '\v',
                 'crlf': '\r\n'}


def NoiseText(k, cfill):
  if k == 'sp':
    return ' '
  if k == 'nl':
    return '\n'
  if k == 'hash':
    return '#' + cfill + '\n'
  if k == 'block':
    return '/*' + cfill + '*/'
  if k in CONTROL_SPACE:
    return CONTROL_SPACE[k]
  raise ValueError(k)


def Render(tc, lay=None, cfill=None, strip_comments=False):
  """tc: TlcCase dict; lay: {'sites': [{'b','k','pos'}], 'wraps': [1-based
  range index], 'semi': 0/1}; cfill overrides the comment content of tc.
  strip_comments renders what remains of the comments after their removal
  (used only to classify failures)."""
  lay = lay or EMPTY_LAYOUT
  toks = [UnCps(t) for t in tc['toks']]
  cfill = UnCps(tc['cfill']) if cfill is None else cfill
  if strip_comments:
    def NoiseText(k, cfill):  # pylint: disable=redefined-outer-name
      return dict({'sp': ' ', 'nl': '\n', 'hash': '\n', 'block': ''},
                  **CONTROL_SPACE)[k]
  else:
    NoiseText = globals()['NoiseText']
  n = len(toks)
  lay = NormLayout(lay)
  site = {(s['b'], s['pos']): s['k'] for s in lay['sites']}

  def Nest(ch, sel):
    if not sel:
      return ''
    x = sel[0]
    return (ch + NoiseText(x['k'], cfill)) * (x['d'] - 1) + ch
  out = []
  for b in range(n + 1):
    out.append(')' * sum(1 for w in lay['wraps'] if tc['ranges'][w - 1][1] == b))
    out.append(Nest(')', [x for x in lay['nests']
                          if tc['ranges'][x['w'] - 1][1] == b]))
    if b == n and lay['semi']:
      out.append(';')
    for e in lay['empties']:
      if e['b'] == b:
        out.append(';' if e['c'] == 0 else
                   ';' + NoiseText('block' if e['c'] == 1 else 'hash', cfill)
                   + ';')
    if (b, 'L') in site:
      out.append(NoiseText(site[(b, 'L')], cfill))
    if tc['sep'][b]:
      out.append(' ')
    if (b, 'R') in site:
      out.append(NoiseText(site[(b, 'R')], cfill))
    out.append(Nest('(', [x for x in lay['nests']
                          if tc['ranges'][x['w'] - 1][0] == b + 1]))
    out.append('(' * sum(1 for w in lay['wraps']
                         if tc['ranges'][w - 1][0] == b + 1))
    if b < n:
      out.append(toks[b])
  return ''.join(out)


# ---- TLC jobs ---------------------------------------------------------------------


def _Printed(out, marker):
  """Lines <<"MARKER", "json">> -> list of decoded objects."""
  res = []
  head = '<<"%s", "' % marker
  for line in out.splitlines():
    line = line.strip()
    if line.startswith(head) and line.endswith('">>'):
      try:
        res.append(json.loads(json.loads(line[len(head) - 1:-2])))
      except ValueError:
        pass
  return res


def ScratchTag():
  """Suffix for scratch file names ($VERIF_SCRATCH_TAG), so that two runs of
  the same check (e.g. a mutation run and a thorough run) do not share case
  files / trace directories."""
  return os.environ.get('VERIF_SCRATCH_TAG', '')


def _WriteCfg(name, body):
  """Generated model configurations live under build/cfg (TLC is started in
  spec/, so the returned path is relative to that directory)."""
  name = name.replace('.cfg', ScratchTag() + '.cfg')
  path = os.path.join(common.BuildDir('cfg'), name)
  with open(path, 'w') as f:
    f.write(body)
  return os.path.relpath(path, common.SPEC)


def RunGen(tag, fuel, max_stmt, max_tok=60, imports=False, simulate=None,
           depth=None, seed=None, timeout=900, workers=None):
  """Runs LSyntaxGen; returns (cases, modelled productions, TlcResult)."""
  cfg = _WriteCfg('LSyntaxGen_%s.cfg' % tag, (
      'SPECIFICATION Spec\nCONSTANTS\n  Fuel = %d\n  MaxStmt = %d\n'
      '  MaxTok = %d\n  Imports = %s\nINVARIANT TypeOK\nINVARIANT RangesOK\n'
      'INVARIANT ProdsOK\nCHECK_DEADLOCK FALSE\n') % (
          fuel, max_stmt, max_tok, 'TRUE' if imports else 'FALSE'))
  r = tlc.Run('LSyntaxGen', cfg=cfg, simulate=simulate, depth=depth, seed=seed,
              coverage=True, timeout=timeout, tag='gen_' + tag,
              workers=workers)
  cases = _Printed(r.out, 'CASE')
  modelled = _Printed(r.out, 'MODELLED')
  return cases, (modelled[0] if modelled else []), r


def DedupCases(cases):
  seen = set()
  out = []
  for c in cases:
    key = json.dumps(c['toks'], sort_keys=True)
    if key in seen:
      continue
    seen.add(key)
    out.append(c)
  return out


def WriteNdjson(path, items):
  with open(path, 'w') as f:
    for it in items:
      f.write(json.dumps(it, separators=(',', ':')) + '\n')
  return path


def RunNoise(tag, tlc_cases, max_sites, simulate=None, depth=None, seed=None,
             timeout=900, workers=None):
  """Runs LLexNoise over the cases; returns (placements, TlcResult)."""
  d = common.BuildDir('trace', 'syntax')
  path = WriteNdjson(os.path.join(d, 'cases_%s%s.ndjson' % (tag, ScratchTag())),
                     tlc_cases)
  cfg = _WriteCfg('LLexNoise_%s.cfg' % tag, (
      'SPECIFICATION Spec\nCONSTANTS\n  MaxSites = %d\n  MaxDepth = 3\n'
      'INVARIANT TokensPreserved\nINVARIANT CanonicalFaithful\n'
      'CHECK_DEADLOCK FALSE\n') % max_sites)
  r = tlc.Run('LLexNoise', cfg=cfg, simulate=simulate, depth=depth, seed=seed,
              coverage=True, timeout=timeout, tag='noise_' + tag,
              env={'CASE_FILE': path, 'JAVA_TOOL_OPTIONS': '-Xss64m'},
              workers=workers)
  return _Printed(r.out, 'PLACE'), r


def RunFills(tag, max_len, timeout=900, simulate=None, seed=None,
             alphabet='ascii'):
  cfg = _WriteCfg('LLexFill_%s.cfg' % tag, (
      'SPECIFICATION Spec\nCONSTANTS\n  MaxLen = %d\n  Alphabet = "%s"\n'
      'INVARIANT FillInert\nCHECK_DEADLOCK FALSE\n') % (max_len, alphabet))
  r = tlc.Run('LLexFill', cfg=cfg, coverage=True, timeout=timeout,
              simulate=simulate, seed=seed, depth=max_len + 2,
              workers=4 if simulate else None,
              tag='fill_' + tag, env={'JAVA_TOOL_OPTIONS': '-Xss64m'})
  return _Printed(r.out, 'FILL'), r


def RunCorrupt(tag, token_cases, simulate=None, seed=None, timeout=900):
  """token_cases: [{'id', 'toks': [[kind, text, glue]...]}]."""
  d = common.BuildDir('trace', 'syntax')
  path = WriteNdjson(os.path.join(d, 'corrupt_%s%s.ndjson' % (tag, ScratchTag())),
                     token_cases)
  r = tlc.Run('LSyntaxCorrupt', simulate=simulate, seed=seed, coverage=True,
              timeout=timeout, tag='corrupt_' + tag,
              env={'CASE_FILE': path})
  return _Printed(r.out, 'CORRUPT'), r


# ---- the implementation side -----------------------------------------------------

_HERITAGE_KEYS = ('expression_heritage', 'full_text')


def _Hash(obj):
  return hashlib.sha256(json.dumps(obj, sort_keys=True,
                                   separators=(',', ':')).encode()
                        ).hexdigest()[:16]


def ProjectTree(rules, keep_heritage_text, abstract_strings=False):
  """Plain-data copy of a rule list.  HeritageAwareString -> str; the
  heritage-carrying keys are dropped (structure) or kept as text."""
  def Go(x):
    if isinstance(x, dict):
      out = {}
      for k, v in x.items():
        if k in _HERITAGE_KEYS:
          if keep_heritage_text:
            out[k] = str(v)
          continue
        if abstract_strings and k == 'the_string' and isinstance(v, str):
          out[k] = '<S>'
          continue
        out[str(k)] = Go(v)
      return out
    if isinstance(x, (list, tuple)):
      return [Go(v) for v in x]
    if isinstance(x, str):
      return str(x)
    return x
  return Go(rules)


def Facts(rules, hs_class):
  """Span facts and literal occurrences of a parsed rule list.

  Returns (H, spans, lits): H = list of distinct heritage texts; spans =
  sorted distinct [hid, start, stop, text] for *every* heritage-aware string
  in the tree; lits = distinct [hid, start, stop, value] for every string
  literal expression (span of the literal's expression_heritage)."""
  H = []
  hid = {}
  spans = set()
  lits = set()

  def Hid(h):
    h = str(h)
    if h not in hid:
      hid[h] = len(H)
      H.append(h)
    return hid[h]

  def Go(x):
    if isinstance(x, dict):
      lit = x.get('literal')
      if (isinstance(lit, dict) and 'the_string' in lit and
          isinstance(x.get('expression_heritage'), hs_class)):
        eh = x['expression_heritage']
        v = lit['the_string']
        if isinstance(v, dict):
          v = v.get('the_string')
        if isinstance(v, str):
          lits.add((Hid(eh.heritage), eh.start, eh.stop, str(v)))
      for v in x.values():
        Go(v)
    elif isinstance(x, (list, tuple)):
      for v in x:
        Go(v)
    elif isinstance(x, hs_class):
      spans.add((Hid(x.heritage), x.start, x.stop, str(x)))
  Go(rules)
  return H, sorted(spans), sorted(lits)


import warnings
warnings.filterwarnings('ignore', category=SyntaxWarning)
warnings.filterwarnings('ignore', category=DeprecationWarning)


def ParseFacts(text, import_root=None, want_facts=True):
  """Parses with both parsers.  Returns {'py': P, 'cpp': P} with
  P = {'st': 'ok'|'rej', 'tree', 'shape', 'full' (tree hash with heritage
  texts), 'cls', 'H', 'spans', 'lits'}."""
  from harness import cppbuild
  from harness import impl
  parse = impl.Mods()['parse']
  hs = parse.HeritageAwareString
  res = {}
  both = cppbuild.ParseBoth(text, import_root=import_root)
  for name, r in zip(('py', 'cpp'), both):
    if r[0] != 'ok':
      res[name] = {'st': 'rej', 'tree': 'REJ', 'shape': 'REJ', 'full': 'REJ',
                   'cls': r[1], 'msg': r[2][:300], 'H': [], 'spans': [],
                   'lits': []}
      continue
    rules = r[1]
    p = {'st': 'ok',
         'tree': _Hash(ProjectTree(rules, False)),
         'shape': _Hash(ProjectTree(rules, False, abstract_strings=True)),
         'full': _Hash(ProjectTree(rules, True)),
         'cls': '', 'H': [], 'spans': [], 'lits': []}
    if want_facts:
      H, spans, lits = Facts(rules, hs)
      p['H'] = H
      p['spans'] = [list(s) for s in spans]
      p['lits'] = [list(l) for l in lits]
    res[name] = p
  return res


def ForTlc(p):
  """Parse facts as LLexTrace reads them (texts as code points)."""
  return {'st': p['st'], 'tree': p['tree'], 'shape': p['shape'],
          'H': [Cps(h) for h in p['H']],
          'spans': [[s[0], s[1], s[2], Cps(s[3])] for s in p['spans']],
          'lits': [[l[0], l[1], l[2], Cps(l[3])] for l in p['lits']]}


# ---- differential parsing for C06 ----------------------------------------------


class _TruthyDict(dict):
  """parse.ParseFile replaces a falsy parsed_imports by a fresh dict; a truthy
  empty one lets the caller see which rules came from imported files."""

  def __bool__(self):
    return True


def ParseDifferential(text, import_root=None):
  """Parses with PY and CPP.  Returns {'py': R, 'cpp': R, 'main_count': k} with
  R = ('ok', [projected rule, heritage texts kept]) | ('rej', cls, msg) and
  k = number of main-file rules in the PY result (None if unknown)."""
  from harness import impl
  parse = impl.Mods()['parse']
  res = {'main_count': None}
  for mode in ('PY', 'CPP'):
    os.environ['LOGICA_PARSER'] = mode
    try:
      if mode == 'PY':
        imports = _TruthyDict()
        try:
          rules = parse.ParseFile(text, import_root=import_root,
                                  parsed_imports=imports)['rule']
          imported = sum(len(i['rule']) for i in imports.values() if i)
          res['main_count'] = len(rules) - imported
        except TypeError:
          rules = parse.ParseFile(text, import_root=import_root)['rule']
      else:
        rules = parse.ParseFile(text, import_root=import_root)['rule']
      res[mode.lower()] = ('ok', ProjectTree(rules, True))
    except BaseException as e:  # pylint: disable=broad-except
      if isinstance(e, KeyboardInterrupt):
        raise
      res[mode.lower()] = ('rej', type(e).__name__, str(e)[:300])
  os.environ['LOGICA_PARSER'] = 'PY'
  return res


def FirstDifference(a, b, path=''):
  if type(a) != type(b):
    return path, a, b
  if isinstance(a, dict):
    for k in sorted(set(a) | set(b)):
      if k not in a or k not in b:
        return path + '/' + k, a.get(k, '<absent>'), b.get(k, '<absent>')
      d = FirstDifference(a[k], b[k], path + '/' + k)
      if d:
        return d
    return None
  if isinstance(a, list):
    if len(a) != len(b):
      return path + '#len', len(a), len(b)
    for i, (x, y) in enumerate(zip(a, b)):
      d = FirstDifference(x, y, '%s/%d' % (path, i))
      if d:
        return d
    return None
  return None if a == b else (path, a, b)


def CompareParsers(res):
  """The C06 relation on one text.  Returns None when the parsers agree,
  else {'kind': 'accept'|'main'|'imported', ...}."""
  py, cpp = res['py'], res['cpp']
  if py[0] != cpp[0]:
    return {'kind': 'accept', 'py': py[0], 'cpp': cpp[0],
            'py_cls': py[1] if py[0] == 'rej' else '',
            'py_msg': py[2] if py[0] == 'rej' else '',
            'cpp_msg': cpp[2] if cpp[0] == 'rej' else ''}
  if py[0] == 'rej':
    return None
  a, b = py[1], cpp[1]
  if a == b:
    return None
  k = res['main_count']
  if k is None:
    k = len(a)
  if a[:k] != b[:k]:
    d = FirstDifference(a[:k], b[:k])
    return {'kind': 'main', 'path': d[0], 'py_value': str(d[1])[:200],
            'cpp_value': str(d[2])[:200]}
  def Bag(rs):
    return sorted(json.dumps(r, sort_keys=True) for r in rs)
  if Bag(a[k:]) != Bag(b[k:]):
    return {'kind': 'imported', 'path': '', 'py_value': str(len(a) - k),
            'cpp_value': str(len(b) - k)}
  return None
