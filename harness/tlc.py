"""Running TLC (tla2tools 1.8, CommunityModules on the classpath) from the harness."""
import os
import re
import shutil
import subprocess
import tempfile
import time

from harness import common

JAR = '/opt/veriftools/tla/tla2tools.jar'


class TlcResult:
  def __init__(self, rc, out, wall):
    self.rc = rc
    self.out = out
    self.wall = wall
    m = re.findall(r'(\d[\d,]*) states generated, (\d[\d,]*) distinct states',
                   out)
    if m:
      self.generated = int(m[-1][0].replace(',', ''))
      self.distinct = int(m[-1][1].replace(',', ''))
    else:
      self.generated = self.distinct = 0
    m = re.search(r'The depth of the complete state graph search is (\d+)', out)
    self.depth = int(m.group(1)) if m else 0
    self.ok = (rc == 0 and 'Model checking completed. No error has been found'
               in out) or (rc == 0 and 'Finished in' in out and
                           'Error:' not in out)
    self.invariant_violated = re.findall(r'Invariant (\w+) is violated', out)
    self.property_violated = ('Temporal properties were violated' in out or
                              'Action property' in out and 'violated' in out)
    self.error = 'Error:' in out

  def Coverage(self):
    """-coverage output: {action name: (distinct, total)}."""
    cov = {}
    for m in re.finditer(r'<(\w+) line \d+, col \d+ to line \d+, col \d+ of '
                         r'module (\w+)>: (\d+):(\d+)', self.out):
      name = m.group(1)
      d, t = int(m.group(3)), int(m.group(4))
      od, ot = cov.get(name, (0, 0))
      cov[name] = (max(od, d), max(ot, t))
    return cov

  def Printed(self, marker):
    """Lines printed with PrintT(<<marker, ...>>) -- one tuple per line when
    run with -workers 1; bracket-matched otherwise."""
    res = []
    text = self.out
    key = '<<"%s"' % marker
    i = 0
    while True:
      j = text.find(key, i)
      if j < 0:
        break
      depth = 0
      k = j
      in_str = False
      while k < len(text):
        c = text[k]
        if in_str:
          if c == '\\':
            k += 1
          elif c == '"':
            in_str = False
        else:
          if c == '"':
            in_str = True
          elif text.startswith('<<', k):
            depth += 1
            k += 1
          elif text.startswith('>>', k):
            depth -= 1
            k += 1
            if depth == 0:
              break
        k += 1
      res.append(text[j:k + 1])
      i = k + 1
    return res


def Run(module, cfg=None, workers=None, timeout=3600, simulate=None, depth=None,
        seed=None, env=None, coverage=False, deadlock=False, extra=None,
        tag=None, dfs=False, cwd=None, heap='4g'):
  """Runs TLC on spec/<module>.tla with spec/<cfg> (default <module>.cfg)."""
  cwd = cwd or common.SPEC
  cfg = cfg or (module + '.cfg')
  meta = tempfile.mkdtemp(prefix='tlc_%s_' % (tag or module),
                          dir=common.BuildDir('tlc'))
  cmd = ['java', '-Xmx' + heap, '-Xss256m', '-XX:+UseParallelGC']
  if dfs:
    cmd.append('-Dtlc2.tool.queue.IStateQueue=StateDeque')
  cmd += ['-cp', JAR + ':/opt/veriftools/tla/CommunityModules-deps.jar',
          'tlc2.TLC']
  cmd += ['-config', cfg, '-metadir', meta, '-noGenerateSpecTE',
          '-workers', str(workers or common.NCPU)]
  if not deadlock:
    cmd.append('-deadlock')
  if coverage:
    cmd += ['-coverage', '1']
  if simulate is not None:
    cmd += ['-simulate', simulate]
  if depth is not None:
    cmd += ['-depth', str(depth)]
  if seed is not None:
    cmd += ['-seed', str(seed)]
  if extra:
    cmd += list(extra)
  cmd.append(module)
  e = dict(os.environ)
  if env:
    e.update({k: str(v) for k, v in env.items()})
  t0 = time.time()
  try:
    p = subprocess.run(cmd, cwd=cwd, env=e, capture_output=True, text=True,
                       timeout=timeout)
    rc, out = p.returncode, p.stdout + p.stderr
  except subprocess.TimeoutExpired as ex:
    rc = 124
    out = ((ex.stdout or b'').decode(errors='replace')
           if isinstance(ex.stdout, bytes) else (ex.stdout or ''))
    out += '\nTLC-TIMEOUT after %ss' % timeout
  finally:
    shutil.rmtree(meta, ignore_errors=True)
  return TlcResult(rc, out, time.time() - t0)


def Classpath():
  return JAR
