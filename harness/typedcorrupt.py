"""Single-point *type* corruptions of typed programs (C05).

Each operator takes a program built by harness/gentyped.py (expression nodes
carry "typ": the type the generator had in mind) and returns a list of
(kind, corrupted program).  Whether the result is ill typed is decided by
spec/LTyping.tla, never here: a corruption may leave the program well typed
(e.g. a literal replaced in a column nobody reads).

Kinds:
  lit_Num lit_Str lit_Bool lit_List   one sub-expression replaced by a literal
                                      of another ground type
  strcol_arith strcol_arg             a Str variable (bound from a Str column)
                                      used where Num is required: operand of
                                      + - *, argument for a Num column
  nofield                             a field that a closed record does not have
                                      is addressed (`{a: .., b: ..}.zz`, `r.zz`)
  recshape                            a record literal loses a field where the
                                      closed record type {a, b} is required
"""
import copy

from harness.ir import *  # pylint: disable=wildcard-import,unused-wildcard-import

LITS = {
    'Num': lambda: Lit(N(7)),
    'Str': lambda: Lit(S('zz')),
    'Bool': lambda: Lit(['b', 1]),
    'List': lambda: Lit(['l', [N(5)]]),
}
LIT_TYPE = {'Num': ['Num'], 'Str': ['Str'], 'Bool': ['Bool'],
            'List': ['L', ['Num']]}

EXPR_KINDS = ('var', 'lit', 'op', 'list', 'rec', 'sub', 'if', 'pcall', 'agg')


def Sites(prog):
  """All expression nodes: (path, node, parent, scope_depth).  path is a tuple
  of keys from prog; scope_depth counts enclosing agg / neg."""
  out = []

  def Go(x, path, parent, depth):
    if isinstance(x, dict):
      if x.get('k') in EXPR_KINDS:
        out.append((path, x, parent, depth))
      d = depth + (1 if x.get('k') in ('agg', 'neg') else 0)
      for key, v in x.items():
        if key in ('typ', 'v'):
          continue
        Go(v, path + (key,), x, d)
    elif isinstance(x, list):
      for i, v in enumerate(x):
        Go(v, path + (i,), parent, depth)
  Go(prog['preds'], ('preds',), None, 0)
  return out


def Replace(prog, path, new):
  p = copy.deepcopy(prog)
  x = p
  for key in path[:-1]:
    x = x[key]
  x[path[-1]] = new
  return p


def At(prog, path):
  x = prog
  for key in path:
    x = x[key]
  return x


def LitCorruptions(prog, rng):
  cands = []
  for path, node, parent, _ in Sites(prog):
    t = node.get('typ')
    if not t:
      continue
    if parent is not None and parent.get('k') == 'cmp':
      # a conjunct must be a proposition syntactically: `..., 7, ...` does
      # not parse, so the site is outside the space of programs
      continue
    for name in LITS:
      if LIT_TYPE[name] != t:
        cands.append((path, name))
  return cands


def RuleOf(path):
  # ('preds', pi, 'rules', ri, ...)
  return path[:4]


def TopLevelVars(rule):
  """name -> typ of the variables that occur outside aggregating expressions
  and negations (visible in the whole rule)."""
  out = {}

  def Go(x):
    if isinstance(x, dict):
      if x.get('k') in ('agg', 'neg'):
        return
      if x.get('k') == 'var' and x.get('typ'):
        out.setdefault(x['name'], x['typ'])
      for key, v in x.items():
        if key != 'typ':
          Go(v)
    elif isinstance(x, list):
      for v in x:
        Go(v)
  Go(rule)
  return out


def BoundStrVars(rule):
  """Variables bound positionally by a top-level atom.  Their generator type
  is not recorded on the node (AtomOver builds them), so the caller looks the
  column type up in gamma."""
  out = []
  for c in rule['body']:
    if c['k'] == 'atom':
      for a in c['args']:
        if a['e']['k'] == 'var':
          out.append((c['p'], a['f'], a['e']['name']))
  return out


def StrColCorruptions(prog, gamma):
  cands = []
  sites = Sites(prog)
  for path, node, parent, _ in sites:
    if node['k'] != 'var' or node.get('typ') != ['Num']:
      continue
    if parent is None:
      continue
    if parent.get('k') == 'op' and parent['op'] in ('+', '-', '*'):
      kind = 'strcol_arith'
    elif 'f' in parent and 'e' in parent and 'agg' not in parent and \
        parent.get('k') is None:
      kind = 'strcol_arg'     # {f, e} of an atom / pcall / record literal
    else:
      continue
    rule = At(prog, RuleOf(path))
    strs = [v for p, f, v in BoundStrVars(rule)
            if gamma.get(p, {}).get(f) == ['Str'] and v != node['name']]
    strs += [v for v, t in TopLevelVars(rule).items() if t == ['Str']]
    for s in sorted(set(strs)):
      cands.append((path, kind, s))
  return cands


def NoFieldCorruptions(prog):
  return [path for path, node, _, _ in Sites(prog) if node['k'] == 'sub']


def RecShapeCorruptions(prog):
  return [path for path, node, _, _ in Sites(prog)
          if node['k'] == 'rec' and node.get('typ') and len(node['fields']) > 1]


def Corruptions(prog, gamma, rng, total):
  """Up to `total` corrupted programs, kinds taken in turn (the kinds that
  apply to few programs first): [(kind, site description, prog)]."""
  pools = {k: [] for k in KINDS}
  for path, name in LitCorruptions(prog, rng):
    pools['lit_' + name].append((path, LITS[name]()))
  for path, kind, s in StrColCorruptions(prog, gamma):
    pools[kind].append((path, Var(s)))
  for path in NoFieldCorruptions(prog):
    node = copy.deepcopy(At(prog, path))
    node['f'] = 'zz'
    pools['nofield'].append((path, node))
  for path in RecShapeCorruptions(prog):
    node = copy.deepcopy(At(prog, path))
    node['fields'] = node['fields'][:-1]
    pools['recshape'].append((path, node))
  for k in pools:
    rng.shuffle(pools[k])
  order = ['recshape', 'nofield', 'strcol_arg', 'strcol_arith', 'lit_Bool',
           'lit_List', 'lit_Str', 'lit_Num']
  start = rng.randrange(len(order))
  order = order[:3] + [order[3 + (start + i) % 5] for i in range(5)]
  out = []
  used = set()
  while len(out) < total and any(pools.values()):
    for k in order:
      if len(out) >= total:
        break
      while pools[k]:
        path, new = pools[k].pop()
        if path in used:
          continue
        used.add(path)
        out.append((k, '/'.join(str(x) for x in path), Replace(prog, path, new)))
        break
  return out


KINDS = ['lit_Num', 'lit_Str', 'lit_Bool', 'lit_List', 'strcol_arith',
         'strcol_arg', 'nofield', 'recshape']
