"""Two program families for C05 that harness/gentyped.py reaches too rarely.

RuleOrder ("A"): a predicate L with >= 2 rules whose FIRST rule mentions only
  light predicates (facts) and whose LATER rule calls a predicate H that sits
  on a dependency chain of depth >= 2 (H <- K <- facts), so that H depends on
  more predicates than anything the first rule mentions; the type of L's
  column (or the clash) reaches L only through that later call.  Clashing and
  well-typed variants; every rule order of L and several declaration orders
  of the predicates.  Whatever the order: same accept/reject, same signatures.

OpenRecord ("B"): an injectible predicate / function whose parameter is only
  constrained through field access (`Price(r) = r.amount * 2`,
  `Big(r) :- r.amount > 1`): its column type is the OPEN record of the fields
  its own body addresses.  k call sites pass records with MORE and DIFFERENT
  extra fields: the program is well typed, and the callee's signature stays
  the open record of its own body (call sites never write into it).  Clashing
  variants: a caller whose record lacks the field / has it at another type.

Every base comes with gamma (the column typing written down here, with
["O", {...}] for open records) for the well-typed variants and with the
expected verdict; spec/LTyping.tla decides, the expectation is only checked
against the specification (a difference is a machinery failure).
"""
import copy
import itertools

from harness.ir import *  # pylint: disable=wildcard-import,unused-wildcard-import

NUM, STR, BOOL = ['Num'], ['Str'], ['Bool']
NAMES = ['amount', 'price', 'qty', 'name', 'code']
EXTRA = ['currency', 'shop', 'note', 'unit', 'tag']


def _Fact(*vals):
  return Rule([('col%d' % i, Lit(v), '') for i, v in enumerate(vals)])


def _Val(t, rng):
  return N(rng.choice([0, 1, 2, 3])) if t == NUM else \
      S(rng.choice(['a', 'b', 'ab', 'c']))


def _Facts(name, types, rng):
  return Pred(name, [_Fact(*[_Val(t, rng) for t in types])
                     for _ in range(rng.randint(1, 3))])


def _Arith(t, e, rng):
  """An expression of type t built from e : t."""
  if rng.random() < 0.5:
    return e
  if t == NUM:
    return Op(rng.choice(['+', '*', '-']), e, Lit(N(rng.choice([1, 2]))))
  return Op('++', e, Lit(S(rng.choice(['a', 'b']))))


# ---- family A ---------------------------------------------------------------

def RuleOrderBase(rng, clash):
  """(prog, gamma or None, multi-rule predicate name)."""
  t_heavy = rng.choice([NUM, STR])
  t_other = STR if t_heavy == NUM else NUM
  t_light = t_other if clash else t_heavy
  pn, pc = 'Name', 'Code'
  preds = [_Facts(pn, [STR], rng), _Facts(pc, [NUM], rng)]
  src = {tuple(NUM): pc, tuple(STR): pn}
  x, y, z = Var('x'), Var('y'), Var('z')
  gamma = {pn: {'col0': STR}, pc: {'col0': NUM}}
  # chain K1 <- facts, K2 <- K1, ... , H = last
  depth = rng.randint(2, 3)
  prev = None
  chain = []
  for d in range(depth):
    name = 'K%d' % (d + 1)
    if prev is None:
      body = [Atom(src[tuple(t_heavy)], [('col0', x)]),
              Atom(src[tuple(t_other)], [('col0', y)])]
      if rng.random() < 0.6:
        body.append(Cmp(Op(rng.choice(['<', '>', '>=']), y,
                           Lit(_Val(t_other, rng)))))
    else:
      body = [Atom(prev, [('col0', x)])]
      if rng.random() < 0.5:
        body.append(Atom(src[tuple(t_heavy)], [('col0', x)]))
      if rng.random() < 0.4:
        body.append(Atom(src[tuple(t_other)], [('col0', z)]))
    rng.shuffle(body)
    preds.append(Pred(name, [Rule([('col0', _Arith(t_heavy, x, rng), '')],
                                  body)]))
    gamma[name] = {'col0': t_heavy}
    chain.append(name)
    prev = name
  heavy = prev
  # L: first rule light, later rule(s) through the heavy predicate
  light_body = [Atom(src[tuple(t_light)], [('col0', x)])]
  if rng.random() < 0.4:
    light_body.append(Cmp(Op('<=', x,
                             Lit(_Val(t_light, rng)))))
  if not clash and rng.random() < 0.5:
    # the first rule says nothing about the type (`null`): the column's type
    # is known only through the later call
    rules = [Rule([('col0', Lit(NULL), '')], light_body)]
  else:
    rules = [Rule([('col0', _Arith(t_light, x, rng), '')], light_body)]
  how = rng.choice(['atom', 'atom_expr', 'assign'])
  if how == 'atom':
    rules.append(Rule([('col0', x, '')], [Atom(heavy, [('col0', x)])]))
  elif how == 'atom_expr':
    rules.append(Rule([('col0', _Arith(t_heavy, x, rng), '')],
                      [Atom(heavy, [('col0', x)])]))
  else:
    rules.append(Rule([('col0', y, '')],
                      [Atom(heavy, [('col0', x)]), Unify(y, x)]))
  if rng.random() < 0.3:
    rules.append(Rule([('col0', Lit(_Val(t_light, rng)), '')], []))
  preds.append(Pred('L', rules))
  gamma['L'] = {'col0': t_heavy}
  # a reader of L: the signature has to flow on
  if rng.random() < 0.7:
    preds.append(Pred('U', [Rule(
        [('col0', x, ''), ('col1', _Arith(t_heavy, x, rng), '')],
        [Atom('L', [('col0', x)])])]))
    gamma['U'] = {'col0': t_heavy, 'col1': t_heavy}
  return Prog(preds), (None if clash else gamma), 'L'


def RuleOrderArrangements(prog, multi, rng, n_decl=2, cap=8):
  """Every order of the rules of `multi`, each under the original and n_decl
  shuffled declaration orders of the predicates (text order = IR order)."""
  out = []
  pi = [i for i, p in enumerate(prog['preds']) if p['name'] == multi][0]
  rules = prog['preds'][pi]['rules']
  orders = list(itertools.permutations(range(len(rules))))
  decls = [list(range(len(prog['preds'])))]
  for _ in range(n_decl):
    d = list(range(len(prog['preds'])))
    rng.shuffle(d)
    decls.append(d)
  # one declaration order that puts the multi-rule predicate first and the
  # chain last (caller before callee)
  decls.append([pi] + [i for i in reversed(range(len(prog['preds'])))
                       if i != pi])
  seen = set()
  for d in decls:
    for o in orders:
      key = (tuple(d), o)
      if key in seen or (d == decls[0] and o == orders[0]):
        continue
      seen.add(key)
      p = copy.deepcopy(prog)
      p['preds'][pi]['rules'] = [p['preds'][pi]['rules'][k] for k in o]
      p['preds'] = [p['preds'][k] for k in d]
      out.append(('decl%s_rules%s' % (''.join(map(str, d)),
                                      ''.join(map(str, o))), p))
  # always keep the pure reorderings of the rules (original declarations)
  pure = out[:len(orders) - 1]
  rest = out[len(orders) - 1:]
  rng.shuffle(rest)
  return (pure + rest)[:max(cap, len(pure))]


# ---- family B ---------------------------------------------------------------

def OpenRecordBase(rng, mode):
  """mode: 'one' (one caller, wider record), 'two' (>= 2 callers, different
  extra fields), 'missing' (a caller lacks the field), 'wrongtype' (a caller
  has the field at another type).  Returns (prog, gamma or None, callee)."""
  r, x = Var('r'), Var('x')
  nf = rng.randint(1, 2)
  fields = rng.sample(NAMES, nf)
  ftypes = {f: rng.choice([NUM, STR]) for f in fields}
  functional = rng.random() < 0.6
  preds = []
  gamma = {}

  def Use(f):
    e = Sub(Var('r'), f)
    if ftypes[f] == NUM:
      return Op(rng.choice(['*', '+']), e, Lit(N(2)))
    return Op('++', e, Lit(S('a')))

  def Test(f):
    e = Sub(Var('r'), f)
    if ftypes[f] == NUM:
      return Cmp(Op(rng.choice(['>', '<']), e, Lit(N(1))))
    return Cmp(Op('==', e, Lit(S('a'))))
  if functional:
    vt = ftypes[fields[0]]
    body = [Test(f) for f in fields[1:]]
    preds.append(Pred('Price', [Rule([('col0', r, ''),
                                      ('logica_value', Use(fields[0]), '')],
                                     body)], inline=True))
    callee = 'Price'
    gamma[callee] = {'col0': ['O', dict(ftypes)], 'logica_value': vt}
  else:
    preds.append(Pred('Big', [Rule([('col0', r, '')],
                                   [Test(f) for f in fields])], inline=True))
    callee = 'Big'
    gamma[callee] = {'col0': ['O', dict(ftypes)]}
  k = 1 if mode == 'one' else rng.randint(2, 3)
  extras = rng.sample(EXTRA, k + 1)
  bad_caller = rng.randrange(k) if mode in ('missing', 'wrongtype') else -1
  for c in range(k):
    ex = [extras[c]] + ([extras[k]] if rng.random() < 0.3 else [])
    ext = {e: rng.choice([NUM, STR]) for e in ex}
    rec_t = dict(ftypes)
    rec_t.update(ext)
    if c == bad_caller and mode == 'missing':
      del rec_t[fields[0]]
    if c == bad_caller and mode == 'wrongtype':
      rec_t[fields[0]] = STR if ftypes[fields[0]] == NUM else NUM
    names = sorted(rec_t)
    rng.shuffle(names)

    def Lit1():
      return RecE([(f, Lit(_Val(rec_t[f], rng))) for f in names])
    cname = 'C%d' % (c + 1)
    via_table = rng.random() < 0.5
    if via_table:
      tname = 'T%d' % (c + 1)
      preds.append(Pred(tname, [Rule([('col0', Lit1(), '')], [])
                                for _ in range(rng.randint(1, 2))]))
      gamma[tname] = {'col0': ['R', dict(rec_t)]}
      arg = Var('r')
      body = [Atom(tname, [('col0', Var('r'))])]
    else:
      arg = Lit1()
      body = []
    if functional:
      head = [('col0', PCall(callee, [('col0', arg)]), '')]
      gamma[cname] = {'col0': gamma[callee]['logica_value']}
      if via_table and rng.random() < 0.5:
        head.append(('col1', Var('r'), ''))
        gamma[cname]['col1'] = ['R', dict(rec_t)]
    else:
      body = body + [Atom(callee, [('col0', arg)])]
      if via_table:
        head = [('col0', Var('r'), '')]
        gamma[cname] = {'col0': ['R', dict(rec_t)]}
      else:
        head = [('col0', Lit(N(1)), '')]
        gamma[cname] = {'col0': NUM}
    rng.shuffle(body)
    preds.append(Pred(cname, [Rule(head, body)]))
  rng.shuffle(preds)
  ok = mode in ('one', 'two')
  return Prog(preds), (gamma if ok else None), callee


# ---- family C: one record variable read from two predicates ------------------

def RecordJoinBase(rng, clash):
  """`P(..) :- Q(r), R(r)`: Q and R hold records with the same fields; in the
  clashing variant one field has another type in R.  Tables have >= 2 rows
  (a single fact would be injected into the reader)."""
  nf = rng.randint(2, 3)
  fields = rng.sample(NAMES, nf)
  tq = {f: rng.choice([NUM, STR]) for f in fields}
  tr = dict(tq)
  if clash:
    f = rng.choice(fields)
    tr[f] = STR if tq[f] == NUM else NUM

  def Table(name, ts):
    rows = []
    for _ in range(rng.randint(2, 3)):
      names = list(ts)
      rng.shuffle(names)
      rows.append(Rule([('col0', RecE([(f, Lit(_Val(ts[f], rng)))
                                       for f in names]), '')], []))
    return Pred(name, rows)
  r = Var('r')
  body = [Atom('Q', [('col0', r)]), Atom('R', [('col0', r)])]
  rng.shuffle(body)
  how = rng.choice(['whole', 'field', 'both'])
  keep = rng.choice([f for f in fields if tq[f] == tr[f]] or fields)
  if how == 'whole':
    head = [('col0', r, '')]
    g = {'col0': ['R', dict(tq)]}
  elif how == 'field':
    head = [('col0', Sub(Var('r'), keep), '')]
    g = {'col0': tq[keep]}
  else:
    head = [('col0', r, ''), ('col1', Sub(Var('r'), keep), '')]
    g = {'col0': ['R', dict(tq)], 'col1': tq[keep]}
  preds = [Table('Q', tq), Table('R', tr), Pred('P', [Rule(head, body)])]
  rng.shuffle(preds)
  gamma = {'Q': {'col0': ['R', dict(tq)]}, 'R': {'col0': ['R', dict(tr)]},
           'P': g}
  return Prog(preds), (None if clash else gamma)


# ---- family D: else-if chains ---------------------------------------------------

def IfChainBase(rng, n_branches, bad_pos, bad_kind):
  """`Q(a, (if c1 then v1 else if c2 then v2 ... else w)) :- T(a, b)`: one
  else-if chain (not nested parenthesised ifs) of n_branches conditions.
  bad_pos (None: well typed) is the position of the one condition that is not
  Bool: a bare Num variable, a bare Str variable or an arithmetic expression."""
  a, b = Var('a'), Var('b')
  t = Pred('T', [_Fact(N(rng.choice([0, 1, 2])), S(rng.choice(['x', 'y'])))
                 for _ in range(rng.randint(2, 3))])
  vt = rng.choice([NUM, STR])

  def GoodCond():
    if rng.random() < 0.5:
      return Op(rng.choice(['==', '<', '>=']), a, Lit(N(rng.choice([0, 1]))))
    return Op(rng.choice(['==', '!=']), b, Lit(S(rng.choice(['x', 'y']))))

  def BadCond():
    return {'num': a, 'str': b,
            'expr': Op('+', a, Lit(N(1)))}[bad_kind]
  conds = [BadCond() if k == bad_pos else GoodCond()
           for k in range(n_branches)]
  vals = [Lit(_Val(vt, rng)) for _ in range(n_branches + 1)]
  node = vals[-1]
  for k in reversed(range(n_branches)):
    node = If(conds[k], vals[k], node)
    node['form'] = 'chain_inner'
  node['form'] = 'chain'
  body = [Atom('T', [('col0', a), ('col1', b)])]
  if rng.random() < 0.6:
    body.append(Cmp(Op('<=', a, Lit(N(3)))))
  if rng.random() < 0.4:
    body.append(Cmp(Op('!=', b, Lit(S('zz')))))
  q = Pred('Q', [Rule([('col0', a, ''), ('col1', node, '')], body)])
  preds = [t, q]
  gamma = {'T': {'col0': NUM, 'col1': STR}, 'Q': {'col0': NUM, 'col1': vt}}
  if rng.random() < 0.5:
    preds.append(Pred('U', [Rule([('col0', Var('v'), '')],
                                 [Atom('Q', [('col0', Var('k')),
                                             ('col1', Var('v'))])])]))
    gamma['U'] = {'col0': vt}
  return Prog(preds), (gamma if bad_pos is None else None)


# ---- family E: one list-typed variable read from two predicates -----------------

def ListJoinBase(rng, clash, shape):
  """`Q(id, l) :- T(id, l), S(id, l)`; the list types of T and S differ in the
  clashing variant.  No list literal / `in` / Element / field access on l in
  the rule.  shape: 'list' ([t]), 'recfield' ({l: [t], n: Num}), 'listrec'
  ([{a: t}]).  Tables have >= 2 rows (not injected)."""
  et = rng.choice([NUM, STR])
  eo = (STR if et == NUM else NUM) if clash else et

  def Col(e):
    if shape == 'list':
      return ['L', e]
    if shape == 'recfield':
      return ['R', {'l': ['L', e], 'n': NUM}]
    return ['L', ['R', {'a': e}]]

  def Value(e):
    items = [Lit(_Val(e, rng)) for _ in range(rng.randint(1, 2))]
    if shape == 'list':
      return ListE(items)
    if shape == 'recfield':
      fs = [('l', ListE(items)), ('n', Lit(N(rng.choice([1, 2]))))]
      rng.shuffle(fs)
      return RecE(fs)
    return ListE([RecE([('a', it)]) for it in items])

  def Table(name, e):
    return Pred(name, [Rule([('col0', Lit(N(k)), ''), ('col1', Value(e), '')],
                            [])
                       for k in range(rng.randint(2, 3))])
  i, l = Var('i'), Var('l')
  body = [Atom('T', [('col0', i), ('col1', l)]),
          Atom('S', [('col0', i), ('col1', l)])]
  rng.shuffle(body)
  if rng.random() < 0.4:
    body.append(Cmp(Op('>=', i, Lit(N(0)))))
  head = [('col0', i, ''), ('col1', l, '')] if rng.random() < 0.7 else \
      [('col0', i, '')]
  preds = [Table('T', et), Table('S', eo), Pred('Q', [Rule(head, body)])]
  rng.shuffle(preds)
  gamma = {'T': {'col0': NUM, 'col1': Col(et)},
           'S': {'col0': NUM, 'col1': Col(eo)},
           'Q': {'col0': NUM, 'col1': Col(et)} if len(head) == 2
                else {'col0': NUM}}
  return Prog(preds), (None if clash else gamma)


def DeclOrders(prog, rng, n):
  out = []
  for j in range(n):
    p = copy.deepcopy(prog)
    rng.shuffle(p['preds'])
    for pred in p['preds']:
      for rule in pred['rules']:
        rng.shuffle(rule['body'])
    out.append(('decl%d' % j, p))
  return out


IFCHAIN_CLASH = [(2, 0), (2, 1), (3, 0), (3, 1), (3, 2)]
LISTJOIN_SHAPES = ['list', 'recfield', 'listrec']


def Cases(rng, n_a, n_b, n_c=None, n_d=0, n_e=0):
  """[(family id, kind, expect_ok, prog, gamma, variants [(name, prog)])]"""
  out = []
  for i in range(n_a):
    clash = i % 2 == 0
    prog, gamma, multi = RuleOrderBase(rng, clash)
    out.append(('fa%d' % i, 'ruleorder_clash' if clash else 'ruleorder_ok',
                not clash, prog, gamma,
                RuleOrderArrangements(prog, multi, rng)))
  modes = ['one', 'two', 'two', 'missing', 'wrongtype']
  for i in range(n_b):
    mode = modes[i % len(modes)]
    prog, gamma, _ = OpenRecordBase(rng, mode)
    out.append(('fb%d' % i, 'openrec_' + mode, mode in ('one', 'two'), prog,
                gamma, DeclOrders(prog, rng, 2)))
  for i in range(n_b if n_c is None else n_c):
    clash = i % 2 == 0
    prog, gamma = RecordJoinBase(rng, clash)
    out.append(('fc%d' % i, 'recjoin_clash' if clash else 'recjoin_ok',
                not clash, prog, gamma, DeclOrders(prog, rng, 1)))
  kinds = ['num', 'str', 'expr']
  for i in range(n_d):
    if i % 3 == 2:
      prog, gamma = IfChainBase(rng, 2 + (i // 3) % 2, None, None)
      kind = 'ifchain_ok'
    else:
      j = (i - i // 3)
      n, pos = IFCHAIN_CLASH[j % len(IFCHAIN_CLASH)]
      prog, gamma = IfChainBase(rng, n, pos, kinds[j % 3])
      kind = 'ifchain_clash_pos%d' % pos
    out.append(('fd%d' % i, kind, gamma is not None, prog, gamma,
                DeclOrders(prog, rng, 1)))
  for i in range(n_e):
    clash = i % 3 != 2
    shape = LISTJOIN_SHAPES[(i - i // 3) % 3 if clash else (i // 3) % 3]
    prog, gamma = ListJoinBase(rng, clash, shape)
    out.append(('fe%d' % i, ('listjoin_clash_' if clash else 'listjoin_ok_')
                + shape, not clash, prog, gamma, DeclOrders(prog, rng, 1)))
  return out


KINDS = ['ruleorder_clash', 'ruleorder_ok', 'openrec_one', 'openrec_two',
         'openrec_missing', 'openrec_wrongtype', 'recjoin_clash', 'recjoin_ok',
         'ifchain_clash_pos0', 'ifchain_clash_pos1', 'ifchain_clash_pos2',
         'ifchain_ok', 'listjoin_clash_list', 'listjoin_clash_recfield',
         'listjoin_clash_listrec', 'listjoin_ok_list', 'listjoin_ok_recfield',
         'listjoin_ok_listrec']
