"""The small hand-made set of programs on which TLC checks the model-level
lemmas of spec/LTyping.tla (spec/LTypingLemma.tla): invariance of WellTyped /
Signature under every permutation of predicates, rules, conjuncts and
alternatives; agreement with the verdict written here by hand; soundness of
the inferred typing (WellTypedUnder(prog, Signature))."""
import json
import os

from harness import common
from harness import gentyped
from harness import semcheck
from harness.ir import *  # pylint: disable=wildcard-import,unused-wildcard-import

NUM, STR, BOOL = ['Num'], ['Str'], ['Bool']


def L(t):
  return ['L', t]


def R(**fs):
  return ['R', dict(fs)]


def Fact(name, *vals):
  return Rule([('col%d' % i, Lit(v), '') for i, v in enumerate(vals)])


def E():
  """E(Num, Str)."""
  return Pred('E', [Fact('E', N(1), S('a')), Fact('E', N(2), S('b'))])


def P1(name, head, body, distinct=False):
  return Pred(name, [Rule(head, body, distinct)])


def Exy():
  return Atom('E', [('col0', Var('x')), ('col1', Var('y'))])


X, Y, Z = Var('x'), Var('y'), Var('z')
ESIG = {'col0': NUM, 'col1': STR}


def HandMade():
  """[(name, prog, well typed?, determined?, {pred: {col: type}} or None)]"""
  out = []

  def Add(name, preds, ok, det=None, sig=None, with_e=True):
    if det is None:
      det = ok
    if sig is not None and with_e:
      sig = dict(sig)
      sig['E'] = ESIG
    out.append((name, Prog(([E()] if with_e else []) + preds), ok, det, sig))

  lt = Cmp(Op('<', X, Lit(N(2))))
  Add('basic', [P1('P', [('col0', X, ''), ('col1', Y, '')], [Exy(), lt])],
      True, sig={'P': {'col0': NUM, 'col1': STR}})
  Add('var_two_types', [P1('P', [('col0', X, '')], [Exy(), Unify(X, Y)])],
      False)
  Add('rules_disagree',
      [Pred('P', [Rule([('col0', X, '')], [Exy()]),
                  Rule([('col0', Y, '')], [Exy()])])], False)
  Add('rules_agree',
      [Pred('P', [Rule([('col0', X, '')], [Exy()]),
                  Rule([('col0', Op('+', X, Lit(N(1))), '')], [Exy(), lt])])],
      True, sig={'P': {'col0': NUM}})
  Add('list_in',
      [P1('P', [('col0', X, ''), ('col1', Var('l'), '')],
          [Exy(), Unify(Var('l'), ListE([X, Lit(N(1))])), Inc(Z, Var('l')),
           Cmp(Op('>', Z, Lit(N(0))))])],
      True, sig={'P': {'col0': NUM, 'col1': L(NUM)}})
  Add('list_mixed',
      [P1('P', [('col0', Var('l'), '')], [Exy(), Unify(Var('l'),
                                                     ListE([X, Y]))])], False)
  Add('list_of_lists',
      [P1('P', [('col0', Var('l'), '')],
          [Exy(), Unify(Var('l'), ListE([ListE([X])]))])], False)
  q = P1('Q', [('col0', Var('r'), '')],
         [Exy(), Unify(Var('r'), RecE([('a', X), ('b', Y)]))])
  Add('record_field',
      [q, P1('S', [('col0', Z, '')], [Atom('Q', [('col0', Var('r'))]),
                                     Unify(Z, Sub(Var('r'), 'a'))])],
      True, sig={'Q': {'col0': R(a=NUM, b=STR)}, 'S': {'col0': NUM}})
  Add('record_missing_field',
      [q, P1('S', [('col0', Z, '')], [Atom('Q', [('col0', Var('r'))]),
                                     Unify(Z, Sub(Var('r'), 'c'))])], False)
  Add('record_shape',
      [q, P1('S', [('col0', Lit(N(1)), '')],
          [Atom('Q', [('col0', RecE([('a', Lit(N(1)))]))])])], False)
  Add('record_field_type',
      [q, P1('S', [('col0', Op('++', Sub(Var('r'), 'a'), Lit(S('u'))), '')],
          [Atom('Q', [('col0', Var('r'))])])], False)
  Add('aggregation',
      [P1('P', [('s', X, 'Sum'), ('l', Y, 'List'), ('m', Y, 'Max'),
                ('c', Y, 'Count'), ('am', Op('->', Y, X), 'ArgMin')],
          [Exy()], True)],
      True, sig={'P': {'s': NUM, 'l': L(STR), 'm': STR, 'c': NUM, 'am': STR}})
  Add('count_arguments_differ',
      [Pred('P', [Rule([('c', X, 'Count')], [Exy()], True),
                  Rule([('c', Y, 'Count')], [Exy()], True)])], False)
  Add('count_arguments_agree',
      [Pred('P', [Rule([('c', Y, 'Count')], [Exy()], True),
                  Rule([('c', Op('++', Y, Lit(S('u'))), 'Count')], [Exy()],
                       True)])], True, sig={'P': {'c': NUM}})
  Add('argmin_values_differ',
      [Pred('P', [Rule([('c', Op('->', X, X), 'ArgMin')], [Exy()], True),
                  Rule([('c', Op('->', X, Y), 'ArgMin')], [Exy()], True)])],
      False)
  Add('sum_of_str', [P1('P', [('s', Y, 'Sum')], [Exy()], True)], False)
  zw = Atom('E', [('col0', Z), ('col1', Var('w'))])
  wz = Atom('E', [('col0', Var('w')), ('col1', Z)])
  Add('combine_locals',
      [P1('P', [('col0', Var('a'), ''), ('col1', Var('b'), '')],
          [Exy(), Unify(Var('a'), AggE('Sum', Z, [zw])),
           Unify(Var('b'), AggE('Max', Z, [wz]))])],
      True, sig={'P': {'col0': NUM, 'col1': STR}})
  Add('combine_outer_clash',
      [P1('P', [('col0', Var('a'), '')],
          [Exy(), Unify(Var('a'), AggE('Sum', Y, [Exy()]))])], False)
  Add('combine_list',
      [P1('P', [('col0', X, ''), ('col1', Var('a'), '')],
          [Exy(), Unify(Var('a'), AggE('List', Z, [
              Atom('E', [('col0', X), ('col1', Z)])]))])],
      True, sig={'P': {'col0': NUM, 'col1': L(STR)}})
  g = Pred('G', [Rule([('col0', Var('p'), ''), ('col1', Var('q'), ''),
                       ('logica_value', Op('+', Var('p'), Var('q')), '')])],
           inline=True)
  gsig = {'col0': NUM, 'col1': NUM, 'logica_value': NUM}
  Add('injection',
      [g, P1('P', [('col0', PCall('G', [('col0', X), ('col1', X)]), '')],
             [Exy()])], True, sig={'G': gsig, 'P': {'col0': NUM}})
  Add('injection_clash',
      [g, P1('P', [('col0', PCall('G', [('col0', X), ('col1', Y)]), '')],
             [Exy()])], False)
  Add('function_value_clash',
      [Pred('F', [Rule([('col0', X, ''), ('logica_value', Y, '')], [Exy()])]),
       P1('P', [('col0', Op('+', PCall('F', [('col0', X)]), Lit(N(1))), '')],
          [Exy()])], False)
  Add('if_ok',
      [P1('P', [('col0', If(Op('<', X, Lit(N(2))), Y, Lit(S('u'))), '')],
          [Exy()])], True, sig={'P': {'col0': STR}})
  Add('if_branches', [P1('P', [('col0', If(Op('<', X, Lit(N(2))), Y,
                                            Lit(N(1))), '')], [Exy()])], False)
  Add('if_condition', [P1('P', [('col0', If(X, Y, Lit(S('u'))), '')],
                          [Exy()])], False)
  alt = Or([[Unify(Z, X)], [Unify(Z, Y)]])
  Add('disjunction_own_variables',
      [P1('P', [('col0', Lit(N(1)), '')], [Exy(), alt])],
      True, sig={'P': {'col0': NUM}})
  Add('disjunction_column_clash', [P1('P', [('col0', Z, '')], [Exy(), alt])],
      False)
  Add('negation_ok',
      [P1('P', [('col0', X, '')],
          [Exy(), Neg([Atom('E', [('col0', X), ('col1', Var('w'))]),
                       Cmp(Op('>', Var('w'), Lit(S('a'))))])])],
      True, sig={'P': {'col0': NUM}})
  Add('negation_clash',
      [P1('P', [('col0', X, '')],
          [Exy(), Neg([Atom('E', [('col0', Var('w')), ('col1', X)])])])],
      False)
  pb = P1('B', [('col0', X, ''), ('col1', Op('<', X, Lit(N(2))), '')], [Exy()])
  bsig = {'col0': NUM, 'col1': BOOL}
  xb = Atom('B', [('col0', X), ('col1', Var('b'))])
  Add('bool_column',
      [pb, P1('P', [('col0', X, '')],
              [xb, Cmp(Op('&&', Var('b'), Op('>', X, Lit(N(0)))))])],
      True, sig={'B': bsig, 'P': {'col0': NUM}})
  Add('bool_as_num', [pb, P1('P', [('col0', Op('+', Var('b'), Lit(N(1))), '')],
                             [xb])], False)
  Add('concat_ok', [P1('P', [('col0', Op('++', Y, Lit(S('a'))), '')], [Exy()])],
      True, sig={'P': {'col0': STR}})
  Add('concat_num', [P1('P', [('col0', Op('++', X, Y), '')], [Exy()])], False)
  Add('neq_clash', [P1('P', [('col0', X, '')],
                       [Exy(), Cmp(Op('!=', X, Y))])], False)
  Add('size_element',
      [P1('P', [('col0', Op('+', Op('Size', ListE([Y])),
                            Op('Element', ListE([X]), Lit(N(0)))), '')],
          [Exy()])], True, sig={'P': {'col0': NUM}})
  Add('element_clash',
      [P1('P', [('col0', Op('+', Lit(N(1)),
                            Op('Element', ListE([Y]), Lit(N(0)))), '')],
          [Exy()])], False)
  Add('undetermined_parameter',
      [Pred('G', [Rule([('col0', Var('p'), ''),
                        ('logica_value', Var('p'), '')])], inline=True),
       P1('P', [('col0', PCall('G', [('col0', X)]), '')], [Exy()])],
      True, det=False)
  Add('caller_before_callee',
      [P1('P', [('col0', Op('+', Var('v'), Lit(N(1))), '')],
          [Atom('Q', [('col0', Var('v'))])]),
       Pred('Q', [Rule([('col0', X, '')], [Exy()]),
                  Rule([('col0', Op('Size', ListE([Y])), '')], [Exy()])])],
      True, sig={'P': {'col0': NUM}, 'Q': {'col0': NUM}})
  Add('callee_clash_far',
      [P1('P', [('col0', Op('++', Var('v'), Lit(S('u'))), '')],
          [Atom('Q', [('col0', Var('v'))])]),
       Pred('Q', [Rule([('col0', X, '')], [Exy()])])], False)
  # rule order / declaration order through a multi-rule predicate whose later
  # rule calls a predicate behind a dependency chain (every arrangement is a
  # state of LTypingLemma)
  def Chain(last_type_str):
    v = Var('v')
    known = P1('Known', [('col0', Y if last_type_str else X, '')],
               [Exy(), Cmp(Op('>', X, Lit(N(1))))])
    deep = P1('Deep', [('col0', v, '')], [Atom('Known', [('col0', v)])])
    label = Pred('Label', [Rule([('col0', X, '')], [Exy()]),
                           Rule([('col0', v, '')],
                                [Atom('Deep', [('col0', v)])])])
    return [known, deep, label]
  Add('rule_order_clash_through_later_call', Chain(True), False)
  Add('rule_order_same_type_through_later_call', Chain(False), True,
      sig={'Known': {'col0': NUM}, 'Deep': {'col0': NUM},
           'Label': {'col0': NUM}})
  # open-record parameter: what the callers pass never changes the callee
  rr = Var('r')
  price = Pred('Price', [Rule([('col0', rr, ''),
                               ('logica_value',
                                Op('*', Sub(rr, 'amount'), Lit(N(2))), '')])],
               inline=True)
  psig = {'col0': ['O', {'amount': NUM}], 'logica_value': NUM}

  one, ss = Lit(N(1)), Lit(S('s'))

  def Caller(name, fields):
    return P1(name, [('col0', PCall('Price', [('col0', RecE(fields))]), '')],
              [])
  Add('open_record_two_wider_callers',
      [price, Caller('A', [('amount', one), ('currency', ss)]),
       Caller('B', [('shop', ss), ('amount', Lit(N(3)))])],
      True, sig={'Price': psig, 'A': {'col0': NUM}, 'B': {'col0': NUM}},
      with_e=False)
  Add('open_record_caller_lacks_field',
      [price, Caller('A', [('amount', one), ('currency', ss)]),
       Caller('B', [('shop', ss)])], False, with_e=False)
  Add('open_record_caller_field_type',
      [price, Caller('A', [('amount', ss), ('currency', ss)])], False,
      with_e=False)
  # one record variable read from two predicates
  def RecTable(name, a_val):
    return Pred(name, [Rule([('col0', RecE([('a', Lit(a_val)),
                                            ('b', Lit(S('x')))]), '')]),
                       Rule([('col0', RecE([('b', Lit(S('z'))),
                                            ('a', Lit(a_val))]), '')])])
  join = P1('J', [('col0', Sub(rr, 'b'), '')],
            [Atom('Q', [('col0', rr)]), Atom('S', [('col0', rr)])])
  Add('record_join_field_types_differ',
      [RecTable('Q', N(1)), RecTable('S', S('s')), join], False, with_e=False)
  Add('record_join_same_types',
      [RecTable('Q', N(1)), RecTable('S', N(2)), join], True,
      sig={'Q': {'col0': R(a=NUM, b=STR)}, 'S': {'col0': R(a=NUM, b=STR)},
           'J': {'col0': STR}}, with_e=False)
  # every condition of an else-if chain is Bool (nested ifs in the IR)
  chain = If(Op('<', X, Lit(N(2))), Lit(S('one')),
             If(X, Lit(S('two')),
                If(Op('==', Y, Lit(S('a'))), Lit(S('three')), Lit(S('other')))))
  Add('else_if_chain_middle_condition', [P1('P', [('col0', chain, '')],
                                            [Exy()])], False)
  # one list variable read from two predicates: the element types must agree
  def ListTable(name, v):
    return Pred(name, [Rule([('col0', Lit(N(k)), ''),
                             ('col1', ListE([Lit(v)]), '')]) for k in (0, 1)])
  lj = P1('J', [('col0', Var('i'), ''), ('col1', Var('l'), '')],
          [Atom('T', [('col0', Var('i')), ('col1', Var('l'))]),
           Atom('S', [('col0', Var('i')), ('col1', Var('l'))])])
  Add('list_join_element_types_differ',
      [ListTable('T', N(1)), ListTable('S', S('s')), lj], False, with_e=False)
  return out


def WriteFile(path=None):
  path = path or os.path.join(common.BuildDir('c05'), 'lemma.ndjson')
  items = HandMade()
  with open(path, 'w') as f:
    for name, prog, ok, det, sig in items:
      line = {'name': name, 'prog': semcheck.NormProg(prog), 'ok': ok,
              'det': det, 'hassig': sig is not None,
              'sig': {p: gentyped.ColsForTlc(c) for p, c in (sig or {'$': {}}).items()}}
      f.write(json.dumps(line, separators=(',', ':')) + '\n')
  return path, items
