"""C05: run one program on the real pipeline with type checking enabled and
record what the property names: accepted / rejected (exception class), the
predicate signatures the type checker prints, and the rows SQLite returns.

Nothing is judged here; spec/LTypingTrace.tla (TLC) decides every case."""
import contextlib
import io
import re

from harness import common
from harness import gentyped
from harness import impl

ANSI = re.compile(r'\x1b\[[0-9;]*m')


class SigParseError(Exception):
  pass


def ParseType(s, i=0):
  """Parses a rendered type (reference_algebra.RenderType syntax) at s[i:].
  Returns (type term, next index).  Anything that is not a ground type
  constructor (Any, Singular, Sequential, an error rendering) is ["U", text]."""
  while i < len(s) and s[i] == ' ':
    i += 1
  if i < len(s) and s[i] == '[':
    t, i = ParseType(s, i + 1)
    if s[i] != ']':
      raise SigParseError(s)
    return ['L', t], i + 1
  if i < len(s) and s[i] == '{':
    i += 1
    fields = {}
    while True:
      while s[i] == ' ':
        i += 1
      if s[i] == '}':
        i += 1
        break
      m = re.compile(r'([A-Za-z_0-9]+): ').match(s, i)
      if not m:
        raise SigParseError(s)
      t, i = ParseType(s, m.end())
      fields[m.group(1)] = t
      if s[i] == ',':
        i += 1
    return ['R', fields], i
  if i < len(s) and s[i] == '(':
    # "(a != b)": rendering of an error
    depth, j = 0, i
    while j < len(s):
      if s[j] == '(':
        depth += 1
      elif s[j] == ')':
        depth -= 1
        if depth == 0:
          break
      j += 1
    return ['U', s[i:j + 1]], j + 1
  m = re.compile(r'[A-Za-z_0-9.]+').match(s, i)
  if not m:
    raise SigParseError(s)
  name = m.group(0)
  if name in ('Num', 'Str', 'Bool'):
    return [name], m.end()
  return ['U', name], m.end()


def ParseSignatureLine(line):
  """`type P(Num, a: Str) = [Num];` -> (P, {col0: .., a: .., logica_value: ..})"""
  m = re.match(r'type (\S+?)\((.*)\)( = (.*))?;$', line)
  if not m:
    raise SigParseError(line)
  name, args, _, value = m.groups()
  cols = {}
  i, pos = 0, 0
  while i < len(args):
    mm = re.compile(r' *([A-Za-z_][A-Za-z_0-9]*): ').match(args, i)
    if mm:
      f = mm.group(1)
      i = mm.end()
    else:
      f = 'col%d' % pos
      pos += 1
    t, i = ParseType(args, i)
    cols[f] = t
    while i < len(args) and args[i] in ', ':
      i += 1
  if value is not None:
    t, j = ParseType(value, 0)
    if value[j:].strip():
      raise SigParseError(line)
    cols['logica_value'] = t
  return name, cols


def Signatures(program, names):
  """The printed signatures (`logica.py show_signatures`) of the predicates
  `names`, parsed."""
  out = {}
  for line in program.typing_engine.ShowPredicateTypes().split('\n'):
    m = re.match(r'type (\S+?)\(', line)
    if m and m.group(1) in names:
      name, cols = ParseSignatureLine(line)
      out[name] = cols
  return out


def RunCase(case):
  """case: {"id", "prog", "query"}.  Returns
  {"text", "ctor": "ok"|cls, "msg", "sigs": {p: {f: t}},
   "preds": {p: {"status", "cls", "msg", "rows"}}}"""
  text = case.get('text') or gentyped.Render(case['prog'])
  out = {'text': text, 'ctor': 'ok', 'msg': '', 'sigs': {}, 'preds': {}}
  m = impl.Mods()
  names = {p['name'] for p in case['prog']['preds']}
  err = io.StringIO()
  try:
    with contextlib.redirect_stderr(err), contextlib.redirect_stdout(err):
      rules = m['parse'].ParseFile(text)['rule']
      program = m['universe'].LogicaProgram(rules)
      if program.typing_engine is None:
        out['ctor'] = 'NoTypechecker'
        return out
      out['sigs'] = Signatures(program, names)
  except BaseException as e:  # pylint: disable=broad-except
    if isinstance(e, KeyboardInterrupt):
      raise
    out['ctor'] = type(e).__name__
    out['msg'] = ANSI.sub('', impl.ExcText(e))[:600]
    return out
  # Every queried predicate is compiled and run the way `logica.py run` does:
  # a fresh LogicaProgram per predicate (the one built above serves the first).
  for k, p in enumerate(case['query']):
    out['preds'][p] = _CompileAndRun(m, rules, p, program if k == 0 else None)
  return out


def _CompileAndRun(m, rules, p, program=None):
  res = {'status': 'ok', 'cls': '', 'msg': '', 'rows': []}
  err = io.StringIO()
  with contextlib.redirect_stderr(err), contextlib.redirect_stdout(err):
    try:
      if program is None:
        program = m['universe'].LogicaProgram(rules)
      program.FormattedPredicateSql(p)
      ex = program.execution
      statements = [ex.preamble] + ex.defines_and_exports + [
          ex.main_predicate_sql]
    except BaseException as e:  # pylint: disable=broad-except
      if isinstance(e, KeyboardInterrupt):
        raise
      res.update(status=impl.Classify(e), cls=type(e).__name__,
                 msg=ANSI.sub('', impl.ExcText(e))[:600])
      return res
    try:
      con = m['sqlite3_logica'].SqliteConnect()
      cur = con.cursor()
      for s in statements[:-1]:
        cur.executescript(s)
      cur.execute(statements[-1])
      rows = cur.fetchall()
      cols = [d[0] for d in cur.description]
      con.close()
    except BaseException as e:  # pylint: disable=broad-except
      if isinstance(e, KeyboardInterrupt):
        raise
      res.update(status='sqlerror', cls=type(e).__name__,
                 msg=ANSI.sub('', impl.ExcText(e))[:600])
      return res
  res['rows'] = [{c: impl.Tag(v) for c, v in zip(cols, r)} for r in rows]
  return res


def _Safe(case):
  try:
    return RunCase(case)
  except BaseException as e:  # pylint: disable=broad-except
    return {'text': '', 'ctor': 'Harness:' + type(e).__name__,
            'msg': str(e)[:500], 'sigs': {}, 'preds': {}}


def RunAll(cases, workers=None):
  return common.ParallelMap(_Safe, cases, workers=workers, chunksize=2)
