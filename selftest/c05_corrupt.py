#!/venv/bin/python
"""Converse sensitivity for C05: an accepted recording with one field corrupted
must be rejected by TLC (LTypingTrace), and a flipped hand-written label must
violate LTypingLemma!AsLabelled.

  /venv/bin/python selftest/c05_corrupt.py
"""
import copy
import json
import os
import sys

sys.path.insert(0, os.path.dirname(os.path.dirname(os.path.abspath(__file__))))
from checks import c05
from harness import common, gen, gentyped, tlc, typedlemma, typedrun

rng = common.Rng('c05corrupt')
cases = []
for i in range(6):
  prog, query, gamma, feats = gentyped.Generate(rng, gen.CORE)
  cases.append({'id': 'g%d' % i, 'kind': 'clean', 'perm_of': None,
                'prog': prog, 'query': query, 'gamma': gamma})
results = typedrun.RunAll(cases)
lines = [c05.Line(c, r) for c, r in zip(cases, results)]
base = [l for l in lines if l['obs']['ctor'] == 'ok' and
        any(pr['rows'] for pr in l['obs']['preds']) and
        not any(p['inline'] for p in l['prog']['preds'])][0]
out = [dict(base, id='orig')]
a = copy.deepcopy(base)
a['id'] = 'sig_changed'
cols = a['obs']['sigs'][-1]['cols']
f = [k for k in cols if k != '$'][0]
cols[f] = ['Str'] if cols[f] != ['Str'] else ['Num']
out.append(a)
b = copy.deepcopy(base)
b['id'] = 'value_changed'
for pr in b['obs']['preds']:
  if pr['rows']:
    col = sorted(pr['rows'][0])[0]
    v = pr['rows'][0][col]
    pr['rows'][0][col] = ['s', [120]] if v[0] != 's' else ['n', 5]
    break
out.append(b)
c = copy.deepcopy(base)
c['id'] = 'rejected'
c['obs'] = {'ctor': 'TypeErrorCaughtException', 'sigs': [], 'preds': []}
out.append(c)
verdicts, _, errors = c05.Validate(out, 'c05corrupt', shards=1)
for k in ('orig', 'sig_changed', 'value_changed', 'rejected'):
  v = verdicts[k]
  print(k, 'ok' if v['ok'] else 'BAD', '-', v['why'])
good = verdicts['orig']['ok'] and not any(
    verdicts[k]['ok'] for k in ('sig_changed', 'value_changed', 'rejected'))
path, _ = typedlemma.WriteFile(os.path.join(common.BuildDir('c05'),
                                            'lemma_flip.ndjson'))
ls = [json.loads(l) for l in open(path)]
ls[0]['ok'] = not ls[0]['ok']
open(path, 'w').write('\n'.join(json.dumps(l) for l in ls[:3]) + '\n')
r = tlc.Run('LTypingLemma', workers=2, env={'LEMMA_FILE': path}, tag='c05flip')
print('lemma with one flipped label: invariants violated', r.invariant_violated)
os.unlink(path)
print(r.Printed('LEMMA-FAILED')[:1])
sys.exit(0 if good and r.invariant_violated == ['AllLemmas'] else 1)
