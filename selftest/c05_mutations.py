#!/venv/bin/python
"""Sensitivity demonstration for C05 (not part of the quick/thorough verdicts).

  /venv/bin/python selftest/c05_mutations.py [name ...]   (C05_N=20 bases)

For every mutation: copy /repo to /tmp/c05_mut_<name>, patch one file, run
`LOGICA_REPO=/tmp/c05_mut_<name> VERIF_N=$C05_N ./check C05 --tier quick`,
expect exit 1 with VIOLATION lines, delete the copy.  Results:
build/c05_mutations.json.  Run `./check C05 --tier quick` afterwards: every run
of the check rewrites evidence/C05.json.
"""
import json
import os
import shutil
import subprocess
import sys
import time

HERE = os.path.dirname(os.path.dirname(os.path.abspath(__file__)))
TI = 'type_inference/research/'

MUTATIONS = {
    'unify': (TI + 'reference_algebra.py',
              "    if concrete_a == concrete_b:\n      return  # It's all fine.",
              "    if concrete_a == concrete_b or True:\n      return  # It's all fine.",
              'Unify: Num / Str / Bool / Time never clash'),
    'incl': (TI + 'infer.py',
             "    Walk(self.rule, self.ActMindingInclusion)\n", "    pass\n",
             '`x in l` is not typed'),
    'comb': (TI + 'infer.py',
             "    Walk(self.rule, self.ActMindingCombine)\n", "    pass\n",
             'the value of an aggregating expression is not typed'),
    'plus': (TI + 'types_of_builtins.py',
             "        '+': {\n            'left': 'Num',\n            'right': 'Num',",
             "        '+': {\n            'left': 'Any',\n            'right': 'Any',",
             'signature of + widened'),
    'sort': (TI + 'infer.py',
             "self.parsed_rules = list(sorted(self.parsed_rules, key=lambda x: "
             "self.complexities[x['head']['predicate_name']]))",
             "self.parsed_rules = list(self.parsed_rules)",
             'rules are inferred in textual order (no sort by complexity)'),
    'firstruledeps': (TI + 'infer.py',
                      "    result[p] = list(set(sorted(set(ds) - set([p]))) | "
                      "set(result.get(p, [])))",
                      "    if p not in result:\n      result[p] = "
                      "list(set(sorted(set(ds) - set([p]))))",
                      'dependencies of a predicate taken from its first rule '
                      'only (rule-order dependence)'),
    'nocopy': (TI + 'infer.py',
               "      copy = copier.CopyConcreteOrReferenceType\n"
               "      if output_value:",
               "      copy = copier.CopyConcreteOrReferenceType\n"
               "      if predicate_name not in types_of_builtins.TypesOfBultins():\n"
               "        copy = lambda t: t\n"
               "      if output_value:",
               'call sites of user predicates write into the callee signature'),
    'lastcondonly': (TI + 'infer.py',
                     "      for if_then in node['implication']['if_then']:\n"
                     "        reference_algebra.Unify(\n"
                     "          if_then['condition']['type']['the_type'],\n"
                     "          reference_algebra.TypeReference('Bool')\n"
                     "        )\n",
                     "      for if_then in node['implication']['if_then']:\n"
                     "        pass\n"
                     "      reference_algebra.Unify(\n"
                     "        if_then['condition']['type']['the_type'],\n"
                     "        reference_algebra.TypeReference('Bool'))\n"
                     "      for if_then in node['implication']['if_then']:\n",
                     'only the last condition of an else-if chain must be Bool'),
    'listelemclash': (TI + 'reference_algebra.py',
                      "      if a_element.TargetTypeClassName() == 'BadType':\n"
                      "        a.target, b.target = (\n"
                      "          Incompatible(a.target, b.target),\n"
                      "          Incompatible(b.target, a.target))\n"
                      "        return\n"
                      "      a.target = [a_element]",
                      "      a.target = [a_element]",
                      'an element clash between two lists is not a clash of '
                      'the lists'),
    'listsig': (TI + 'types_of_builtins.py',
                "        'List': {\n            0: e,\n            'logica_value': list_of_e",
                "        'List': {\n            0: e,\n            'logica_value': e",
                'List gives an element instead of a list'),
}


def Run(name):
  path, old, new, what = MUTATIONS[name]
  copy = '/tmp/c05_mut_%s' % name
  shutil.rmtree(copy, ignore_errors=True)
  shutil.copytree(os.environ.get('LOGICA_REPO', '/repo'), copy, symlinks=True)
  try:
    f = os.path.join(copy, path)
    s = open(f).read()
    assert s.count(old) >= 1, (name, 'pattern not found')
    open(f, 'w').write(s.replace(old, new, 1))
    env = dict(os.environ, LOGICA_REPO=copy,
               VERIF_N=os.environ.get('C05_N', '20'))
    t0 = time.time()
    p = subprocess.run([os.path.join(HERE, 'check'), 'C05', '--tier', 'quick'],
                       env=env, capture_output=True, text=True, cwd=HERE)
    n = sum(1 for l in p.stdout.split('\n') if l.startswith('VIOLATION'))
    return {'mutation': name, 'what': what, 'file': path, 'rc': p.returncode,
            'violation_lines': n, 'caught': p.returncode == 1 and n > 0,
            'wall_s': round(time.time() - t0, 1)}
  finally:
    shutil.rmtree(copy, ignore_errors=True)


def main():
  names = sys.argv[1:] or list(MUTATIONS)
  out = [Run(n) for n in names]
  for r in out:
    print(json.dumps(r))
  os.makedirs(os.path.join(HERE, 'build'), exist_ok=True)
  with open(os.path.join(HERE, 'build', 'c05_mutations.json'), 'w') as f:
    json.dump(out, f, indent=1)
  return 0 if all(r['caught'] for r in out) else 1


if __name__ == '__main__':
  sys.exit(main())
