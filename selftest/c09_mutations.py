#!/venv/bin/python
"""Sensitivity demonstration for C09 (not part of the quick/thorough verdicts).

  /venv/bin/python selftest/c09_mutations.py [name ...]      (C09_PROGRAMS=30
  in the environment makes each run use the first 30 quick programs only)

For every mutation: `git -C /repo worktree add --detach /tmp/c09_mut_<name>`,
patch one file, run (with its own VERIF_BUILD_DIR)
`LOGICA_REPO=/tmp/c09_mut_<name> ./check C09 --tier quick`, expect exit 1 with
VIOLATION lines, remove the worktree.  Results: build/c09_mutations.json.  The
evidence file of the unchanged tree has to be rewritten afterwards by a normal
`./check C09 --tier quick` (every run of the check rewrites it).
"""
import json
import os
import re
import shutil
import subprocess
import sys
import time

HERE = os.path.dirname(os.path.dirname(os.path.abspath(__file__)))

MUTATIONS = {
    'bracket': ('compiler/dialects.py',
                "    return 'UNNEST({0}) as pushkin({1})'\n\n"
                "  def ArrayPhrase(self):\n    return 'ARRAY[%s]'\n\n"
                "  def GroupBySpecBy(self):\n    return 'index'\n\n"
                "  def DecorateCombineRule(self, rule, var):\n    return rule\n"
                "\n\nclass ClickHouseDialect",
                "    return 'UNNEST({0}) as pushkin({1})'\n\n"
                "  def ArrayPhrase(self):\n    return 'ARRAY[%s'\n\n"
                "  def GroupBySpecBy(self):\n    return 'index'\n\n"
                "  def DecorateCombineRule(self, rule, var):\n    return rule\n"
                "\n\nclass ClickHouseDialect",
                'Trino list literal template loses its closing bracket'),
    'alias': ('compiler/dialects.py',
              "return 'JSON_EACH({0}) as {1}'",
              "return 'JSON_EACH({0}) as {1}_u'",
              'SQLite unnest alias differs from the alias the expressions use'),
    'with': ('compiler/universe.py',
             "    for dependency in dependencies:\n      table_name = "
             "self.execution.table_to_defined_table_map[dependency]",
             "    for dependency in reversed(dependencies):\n      table_name = "
             "self.execution.table_to_defined_table_map[dependency]",
             'WITH tables emitted in reverse dependency order'),
    'leak': ('compiler/dialects.py',
             "'Size': 'LEN({0})',", "'Size': 'LEN({0}, %s)',",
             'DuckDB Size template mixes %s and {0}: `{0}` stays in the text'),
    'internal': ('compiler/dialects.py',
                 "  def Subscript(self, record, subscript, record_is_table):\n"
                 "    return '(%s).%s' % (record, subscript)",
                 "  def Subscript(self, record, subscript):\n"
                 "    return '(%s).%s' % (record, subscript)",
                 'PostgreSQL.Subscript signature mismatch (internal error)'),
    'string': ('compiler/expr_translate.py',
               """      return '\\'%s\\'' % (literal['the_string'].replace("'", "''"))""",
               """      return '\\'%s' % (literal['the_string'].replace("'", "''"))""",
               'string literal loses its closing quote (5 dialects)'),
    'shapeA_with_second_parent': (
        'compiler/universe.py',
        "        _ = self.program.PredicateSql(table, self.allocator)\n",
        "        pass\n",
        'second WITH parent of a shared table does not get the tables it reads'),
    'shapeB_duckdb_quote': (
        'compiler/expr_translate.py',
        "          .replace('\\\\', '\\\\\\\\')\n          .replace(\"'\", \"''\")",
        "          .replace(\"'\", \"\\\\'\")\n          .replace('\\\\', '\\\\\\\\')",
        "DuckDB: apostrophe written as \\' and the backslash then doubled"),
    'shapeB_clickhouse_quote': (
        'compiler/expr_translate.py',
        "literal['the_string'].replace('\\\\', '\\\\\\\\').replace(\"'\", \"''\"))",
        "literal['the_string'].replace(\"'\", \"\\\\'\").replace('\\\\', '\\\\\\\\'))",
        "ClickHouse: apostrophe written as \\' and the backslash then doubled"),
    'shapeC_truncate_table_name': (
        'compiler/rule_translate.py',
        "      self.table_num += 1\n    self.allocated_tables.add(t)",
        "      self.table_num += 1\n    t = t[:63]\n    self.allocated_tables.add(t)",
        'allocated table names cut to 63 characters after the uniqueness test'),
    'shapeD_clickhouse_record_check': (
        'compiler/expr_translate.py',
        "      if self.dialect.Name() == 'ClickHouse' and record_type is None:",
        "      if self.dialect.Name() in ('Clickhouse',) and record_type is None:",
        'ClickHouse "Record needs type" diagnostic lost: AssertionError instead'),
}


def Drop(scratch):
  subprocess.run(['git', '-C', '/repo', 'worktree', 'remove', '--force',
                  scratch], capture_output=True)
  shutil.rmtree(scratch, ignore_errors=True)
  subprocess.run(['git', '-C', '/repo', 'worktree', 'prune'],
                 capture_output=True)


def RunMutation(name):
  rel, old, new, what = MUTATIONS[name]
  scratch = '/tmp/c09_mut_' + name
  Drop(scratch)
  subprocess.run(['git', '-C', '/repo', 'worktree', 'add', '--detach', scratch],
                 check=True, capture_output=True)
  path = os.path.join(scratch, rel)
  with open(path) as f:
    text = f.read()
  assert text.count(old) == 1, (name, text.count(old))
  with open(path, 'w') as f:
    f.write(text.replace(old, new))
  t0 = time.time()
  p = subprocess.run([os.path.join(HERE, 'check'), 'C09', '--tier', 'quick'],
                     cwd=HERE, capture_output=True, text=True,
                     env=dict(os.environ, LOGICA_REPO=scratch,
                              VERIF_BUILD_DIR=os.path.join(
                                  HERE, 'build', 'alt_c09mut_' + name)))
  Drop(scratch)
  shutil.rmtree(os.path.join(HERE, 'build', 'alt_c09mut_' + name, 'tlc'),
                ignore_errors=True)
  clauses = {}
  for rp in re.findall(r'VIOLATION property=C09 replay=(\S+)', p.stdout):
    try:
      with open(rp) as f:
        sig = json.load(f)['signature']
      key = '%s/%s/%s' % (sig['engine'], sig['kind'],
                          sig.get('clause') or sig.get('cls'))
      clauses[key] = clauses.get(key, 0) + 1
    except (OSError, ValueError, KeyError):
      pass
  return {'mutation': name, 'what': what, 'exit': p.returncode,
          'violations': p.stdout.count('VIOLATION property=C09'),
          'by_engine_kind_clause': clauses,
          'machinery': [l[:300] for l in p.stdout.splitlines()
                        if l.startswith('MACHINERY')],
          'detected': p.returncode == 1, 'wall_s': round(time.time() - t0, 1)}


def main():
  names = sys.argv[1:] or list(MUTATIONS)
  out = []
  for n in names:
    r = RunMutation(n)
    print(json.dumps(r), flush=True)
    out.append(r)
  os.makedirs(os.path.join(HERE, 'build'), exist_ok=True)
  with open(os.path.join(HERE, 'build', 'c09_mutations.json'), 'w') as f:
    json.dump(out, f, indent=1)
  sys.exit(0 if all(r['detected'] for r in out) else 1)


if __name__ == '__main__':
  main()
