"""Sensitivity of the trace specs: an accepted trace with one recorded field
corrupted must be rejected by TLC."""
import copy
import os
import sys
sys.path.insert(0, os.path.dirname(os.path.dirname(os.path.abspath(__file__))))
from harness import strlit, flagscheck
S = ["a", "a'a", 'a"a', "%{}", "a;--", "é\U0001D11E"]
recs = strlit._UnitChunk(S) + strlit._PipeTask(('fact', 'top', 'sq', S)) + strlit._SqlTask(('bigquery', 'concat', 'top', 'sq', S))
bad, summ, err, st = strlit.Validate(recs, 'c10corrupt', nshards=1)
print('clean trace: records', len(recs), 'bad', sorted(bad), 'errors', len(err))
c = copy.deepcopy(recs)
c[1]['lit']['sqlite'] = "'a'a'"     # unit: emitted text loses the doubled quote
c[len(S) + 2]['got'] = 'a"a '        # pipe: returned value gets a trailing blank
r = c[2 * len(S) + 3]                # sql: one character inside the literal changed
r['sql'] = r['sql'][:r['mpos'] + 1] + 'a' + r['sql'][r['mpos'] + 2:]
bad, summ, err, st = strlit.Validate(c, 'c10corrupt', nshards=1)
print('corrupted trace: bad', {k: [b.get('why') or (b['d'], b['via'], b['why']) for b in v['bad']] for k, v in bad.items()}, 'errors', len(err))
# flags
r, cases = flagscheck.RunModel('FlagsQ2')
cs = [x for x in cases if not x['cyclic']][:40]
fr = flagscheck.RunUnit(cs)
bad, summ, err, st = flagscheck.Validate(fr, 'c10corruptf', nshards=1)
print('flags clean: records', len(fr), 'bad', len(bad), 'errors', len(err))
fr2 = copy.deepcopy(fr)
k = [i for i, x in enumerate(fr2) if x['via'] == 'param' and x['status'] == 'ok' and x['out']][0]
fr2[k]['out'] = fr2[k]['out'] + [120]
k2 = [i for i, x in enumerate(fr2) if x['via'] == 'param' and x['status'] == 'ok' and i != k
      and not any(tok[0] == 'r' for side in ('def', 'usr') for v in x[side].values() for tok in v['v'])][-1]
fr2[k2]['status'] = 'diagnosed'; fr2[k2]['out'] = []
bad2, summ, err, st = flagscheck.Validate(fr2, 'c10corruptf', nshards=1)
print('flags corrupted: bad', {i: v['why'] for i, v in bad2.items() if i not in bad}, 'errors', len(err))
import shutil
from harness import common
for tag in ('c10corrupt', 'c10corruptf'):
  shutil.rmtree(os.path.join(common.BUILD, 'trace', tag), ignore_errors=True)
