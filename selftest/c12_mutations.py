#!/venv/bin/python
"""Sensitivity of the C12 check (R5) (a further mutation, moving the import
resolution loop of ParseFile before the own-prefix loop, is a block move and was
applied by hand in a git worktree: see checks/c12.notes.md round 3): each mutation of the import machinery is
applied to a scratch copy of /repo OUTSIDE /repo and /verif, the check is run
with LOGICA_REPO=<copy> and must print VIOLATION; the copy is deleted.

  selftest/c12_mutations.py [name ...]        (default: all)

`base: fixed` mutations would be applied on top of proposed_fixes/C12-*.diff;
since /repo contains that fix (commit 3b7e016) every mutation now starts from
/repo.  Results: build/c12/mutations.json.
"""
import json
import os
import shutil
import subprocess
import sys

VERIF = os.path.dirname(os.path.dirname(os.path.abspath(__file__)))
COPY = '/tmp/c12_mut'
PY = 'parser_py/parse.py'
CPP = 'parser_cpp/logica_parse.cpp'

MUTATIONS = [
    dict(name='prefix_loop_removed', base='repo', file=PY,
         old="""    while this_file_prefix in existing_prefixes:
      idx -= 1
      if -idx <= len(parts):
        this_file_prefix = parts[idx] + this_file_prefix
      else:
        # All parts of the path are used up (e.g. `util` imported after
        # `lib.util`, or paths equal modulo symbols _ and /).
        this_file_prefix = 'X' + this_file_prefix
""",
         new="",
         also=[("""        assert some_parsed_import[
            'predicates_prefix'] not in existing_prefixes
""", "")],
         why='two files with one base name get the same prefix: their private '
             'Helper predicates collide'),
    dict(name='none_marker_removed', base='repo', file=PY,
         old="  parsed_imports[file_import_str] = None\n", new="",
         why='a circular import is no longer detected: RecursionError instead '
             'of a ParsingException'),
    dict(name='alias_ignored', base='repo', file=PY,
         old="predicate_imported_as = s['synonym'] or imported_predicate_name",
         new="predicate_imported_as = imported_predicate_name",
         why='`import f.P as Q` no longer resolves Q'),
    dict(name='override_check_removed', base='repo', file=PY,
         old="      if any(p[0] != '@' for p in defined_predicates & new_predicates):",
         new="      if False:",
         why='main redefining an imported predicate is silently accepted'),
    dict(name='file_included_twice', base='repo', file=PY,
         old="      rules.extend(i['rule'])\n",
         new="      rules.extend(i['rule'])\n      rules.extend(copy.deepcopy(i['rule']))\n",
         why='every imported file is included twice: rows double'),
    dict(name='own_rename_skips_helper', base='repo', file=PY,
         old="      if p[0] != '@' and p != '++?':\n        RenamePredicate(rules, p, this_file_prefix + p)",
         new="      if p[0] != '@' and p != '++?' and p != 'Helper':\n        RenamePredicate(rules, p, this_file_prefix + p)",
         why='private predicates called Helper are not renamed: they collide'),
    dict(name='last_root_wins', base='repo', file=PY,
         old="    for root in import_root:\n      file_path = os.path.join(root, '/'.join(file_import_parts) + '.l')",
         new="    for root in reversed(import_root):\n      file_path = os.path.join(root, '/'.join(file_import_parts) + '.l')",
         why='with several import roots the LAST root that has the module '
             'path wins instead of the first: silently different rows'),
    dict(name='aux_predicates_unprefixed', base='repo', file=PY,
         old="      if p[0] != '@' and p != '++?':\n        RenamePredicate(rules, p, this_file_prefix + p)",
         new="      if p[0] != '@' and p != '++?' and not p.endswith('_MultBodyAggAux'):\n        RenamePredicate(rules, p, this_file_prefix + p)",
         why='auxiliary predicates of multi-body aggregation keep their '
             'unprefixed name: two files with a same-named aggregating '
             'predicate collide'),
    dict(name='cpp_last_root_wins', base='repo', file=CPP,
         old='  for (const auto& root : roots) {\n    std::filesystem::path p = std::filesystem::path(root) / rel;',
         new='  std::reverse(roots.begin(), roots.end());\n  for (const auto& root : roots) {\n    std::filesystem::path p = std::filesystem::path(root) / rel;',
         why='C++ parser: the last import root wins'),
    dict(name='cpp_only_capitalised_names_prefixed', base='repo', file=CPP,
         old='if (!p.empty() && p[0] != \'@\' && p != "++?") {\n        Json rr(rules);',
         new='if (!p.empty() && std::isupper(static_cast<unsigned char>(p[0]))) {\n        Json rr(rules);',
         why='C++ parser: private predicates with lower-case / underscore / '
             'backtick names keep their unprefixed name and collide'),
    dict(name='field_rename_only_for_predicate_values', base='repo', file=PY,
         old="    if 'field' in e and e['field'] == old_name:",
         new="    if ('field' in e and e['field'] == old_name and\n        'the_predicate' in str(e.get('value', {}).get('expression', {}).get('literal', {}))):",
         why='functor argument names with a constant value are not renamed: '
             'VeryBig := Big(Threshold: 4) fails inside an imported module'),
    dict(name='cpp_alias_ignored', base='repo', file=CPP,
         old='std::string imported_as = ip.at("synonym").is_null() ? imported_pred_name : ip.at("synonym").as_string();',
         new='std::string imported_as = imported_pred_name;',
         why='C++ parser: `import f.P as Q` no longer resolves Q'),
    dict(name='cpp_unused_check_removed', base='repo', file=CPP,
         old='    if (rename_count == 0) {\n      throw ParsingException("Predicate imported but not used."',
         new='    if (false) {\n      throw ParsingException("Predicate imported but not used."',
         why='C++ parser: unused (and redefined) imports are accepted'),
]


def Apply(root, rel, old, new):
  p = os.path.join(root, rel)
  with open(p) as f:
    s = f.read()
  assert s.count(old) == 1, (rel, old, s.count(old))
  with open(p, 'w') as f:
    f.write(s.replace(old, new))


def Main():
  want = sys.argv[1:]
  results = []
  for m in MUTATIONS:
    if want and m['name'] not in want:
      continue
    shutil.rmtree(COPY, ignore_errors=True)
    shutil.copytree('/repo', COPY, symlinks=True)
    try:
      if m['base'] == 'fixed':
        for d in sorted(os.listdir(os.path.join(VERIF, 'proposed_fixes'))):
          if d.startswith('C12-'):
            subprocess.run(['git', 'apply', os.path.join(VERIF, 'proposed_fixes', d)],
                           cwd=COPY, check=True)
      Apply(COPY, m['file'], m['old'], m['new'])
      for old, new in m.get('also', []):
        Apply(COPY, m['file'], old, new)
      t = subprocess.run(
          ['/venv/bin/python', '-m', 'pytest', '-q', '-p', 'no:cacheprovider',
           'type_inference', 'common'], cwd=COPY, capture_output=True, text=True)
      tail = (t.stdout.strip().splitlines() or [''])[-1]
      r = subprocess.run([os.path.join(VERIF, 'check'), 'C12', '--tier', 'quick'],
                         env=dict(os.environ, LOGICA_REPO=COPY),
                         capture_output=True, text=True, cwd=VERIF)
      viol = [l for l in r.stdout.splitlines() if l.startswith('VIOLATION')]
      results.append({'name': m['name'], 'base': m['base'], 'file': m['file'],
                      'why': m['why'], 'rc': r.returncode,
                      'violations': len(viol), 'first': viol[:1],
                      'pinned_tests': tail,
                      'summary': [l for l in r.stdout.splitlines()
                                  if l.startswith('C12 ')]})
      print(json.dumps(results[-1]), flush=True)
    finally:
      shutil.rmtree(COPY, ignore_errors=True)
  out = os.path.join(VERIF, 'build', 'c12')
  os.makedirs(out, exist_ok=True)
  with open(os.path.join(out, 'mutations.json'), 'w') as f:
    json.dump(results, f, indent=1)
  bad = [r['name'] for r in results if r['rc'] != 1 or not r['violations']]
  print('mutations not detected: %s' % bad)
  return 1 if bad else 0


if __name__ == '__main__':
  sys.exit(Main())
