#!/venv/bin/python
"""Sensitivity demonstration for C16 (not part of the quick/thorough verdicts).

  /venv/bin/python selftest/c16_mutations.py [name ...]

For every mutation: copy /repo to /tmp/c16_mut, patch
type_inference/research/reference_algebra.py, run
`LOGICA_REPO=/tmp/c16_mut ./check C16 --tier quick`, expect exit 1 with
VIOLATION lines, delete the copy.  Then the converse: corrupt one recorded
rendering of an accepted trace and expect TLC (TypeAlgebraTrace) to reject it.
Results: build/c16_mutations.json (the unchanged-tree evidence file is
rewritten by the last line of this script's caller, not here).
"""
import json
import os
import shutil
import subprocess
import sys
import time

HERE = os.path.dirname(os.path.dirname(os.path.abspath(__file__)))
sys.path.insert(0, HERE)
FILE = 'type_inference/research/reference_algebra.py'
SCRATCH = '/tmp/c16_mut'

MUTATIONS = {
    'rank_swap_singular_sequential': (
        "  if x == 'Singular':\n    return 1\n  if x == 'Sequential':\n    return 2\n",
        "  if x == 'Singular':\n    return 2\n  if x == 'Sequential':\n    return 1\n"),
    'rank_swap_num_list': (
        "  if x == 'Num':\n    return 3\n",
        "  if x == 'Num':\n    return 7.5\n"),
    'open_closed_subset_permissive': (
        "      if set(concrete_a) <= set(concrete_b):\n",
        "      if True:\n"),
    'singular_accepts_list': (
        "    if isinstance(concrete_b, list):\n      a.target, b.target = (\n"
        "          Incompatible(a.target, b.target),\n"
        "          Incompatible(b.target, a.target))\n      return\n"
        "    if concrete_b == 'Sequential':",
        "    if concrete_b == 'Sequential':"),
    'sequential_accepts_num': (
        "    if concrete_b in ('Str', 'Sequential') or isinstance(concrete_b, list):",
        "    if concrete_b in ('Str', 'Sequential', 'Num') or isinstance(concrete_b, list):"),
    'singular_and_sequential_not_str': (
        "      a.target = b\n      b.target = 'Str'\n      return\n",
        "      a.target = b\n      return\n"),
    'friendly_records_drop_fields_of_b': (
        "  for f in set(concrete_a) | set(concrete_b):\n",
        "  for f in set(concrete_a):\n"),
    'closed_closed_subset_instead_of_equal': (
        "      if set(concrete_a) == set(concrete_b):\n",
        "      if set(concrete_a) <= set(concrete_b):\n"),
    'close_record_on_alias_not_root': (
        "    a = self\n    while a.WeMustGoDeeper():\n      a = a.target\n"
        "    if isinstance(a.target, BadType):\n      return\n"
        "    assert isinstance(a.target, dict), a.target\n"
        "    a.target = ClosedRecord(a.target)\n",
        "    a = self\n    while a.WeMustGoDeeper():\n      a = a.target\n"
        "    if isinstance(a.target, BadType):\n      return\n"
        "    assert isinstance(a.target, dict), a.target\n"
        "    self.target = ClosedRecord(a.target)\n"),
    'any_meets_ground_scalar_not_linked': (
        "  if concrete_a == 'Any':\n    a.target = b\n    return\n",
        "  if concrete_a == 'Any':\n"
        "    if concrete_b in ('Num', 'Str', 'Bool', 'Time'):\n"
        "      a.target = concrete_b\n    else:\n      a.target = b\n"
        "    return\n"),
    'list_element_clash_ignored': (
        "      if a_element.TargetTypeClassName() == 'BadType':\n",
        "      if False:\n"),
}


def RunMutation(name):
  old, new = MUTATIONS[name]
  shutil.rmtree(SCRATCH, ignore_errors=True)
  shutil.copytree('/repo', SCRATCH, symlinks=True)
  path = os.path.join(SCRATCH, FILE)
  text = open(path).read()
  assert text.count(old) == 1, (name, text.count(old))
  open(path, 'w').write(text.replace(old, new))
  env = dict(os.environ, LOGICA_REPO=SCRATCH)
  t0 = time.time()
  p = subprocess.run([os.path.join(HERE, 'check'), 'C16', '--tier', 'quick'],
                     env=env, capture_output=True, text=True, cwd=HERE)
  shutil.rmtree(SCRATCH, ignore_errors=True)
  lines = p.stdout.splitlines()
  viol = [l for l in lines if l.startswith('VIOLATION')]
  detail = [l for l in lines if l.startswith('  ')][:3]
  total = [l for l in lines if 'failing cases in total' in l or
           l.startswith('C16 quick:')]
  return {'mutation': name, 'exit': p.returncode, 'violation_lines': len(viol),
          'first': detail, 'summary': total, 'wall_s': round(time.time() - t0)}


def CorruptRecordedField():
  """Accepted trace -> change one recorded rendering -> TLC must reject."""
  from checks import c16
  from harness import common
  ra = c16.Algebra()
  A = ['rec', 'open', [['a', ['atom', 'Any']]]]
  B = ['rec', 'closed', [['a', ['atom', 'Num']], ['b', ['atom', 'Str']]]]
  case = {'id': 'selftest/pair', 'k': 'pair', 'style': 'ref', 'src': 's',
          'terms': [A, B]}
  d = common.BuildDir('trace', 'C16_selftest')
  good = os.path.join(d, 'good.ndjson')
  bad = os.path.join(d, 'bad.ndjson')
  c16.WriteShard(ra, [case], good)
  r_good = c16.JudgeShard(good, 'C16_selftest')
  lines = open(good).read().splitlines()
  tab = json.loads(lines[0])
  rec = json.loads(lines[1])
  # The recorded result {a: Num, b: Str} (closed) becomes {a: Num, b: Num}.
  tab['terms'].append(['rec', 'closed', [['a', ['atom', 'Num']],
                                         ['b', ['atom', 'Num']]]])
  rec['runs'][0]['obs'][0][1] = len(tab['terms'])
  with open(bad, 'w') as f:
    f.write(json.dumps(tab) + '\n' + json.dumps(rec) + '\n')
  r_bad = c16.JudgeShard(bad, 'C16_selftest')
  return {'accepted_trace_fails': len(r_good['fails']),
          'accepted_summary_failed_cases': r_good['summary'][0],
          'corrupted_trace_fails': len(r_bad['fails']),
          'corrupted_clauses': sorted({x['clause'] for f in r_bad['fails']
                                       for x in f['fails']}),
          'corrupted_summary_failed_cases': r_bad['summary'][0]}


def main():
  names = sys.argv[1:] or list(MUTATIONS)
  res_path = os.path.join(HERE, 'build', 'c16_mutations.json')
  out = {'mutations': [], 'corruption': None}
  if os.path.exists(res_path):      # keep earlier rows of mutations not re-run
    try:
      out['mutations'] = [m for m in json.load(open(res_path))['mutations']
                          if m['mutation'] not in names]
    except (ValueError, KeyError):
      pass
  if names != ['corrupt']:
    for n in names:
      r = RunMutation(n)
      print(json.dumps(r), flush=True)
      out['mutations'].append(r)
  out['corruption'] = CorruptRecordedField()
  print(json.dumps(out['corruption']), flush=True)
  os.makedirs(os.path.join(HERE, 'build'), exist_ok=True)
  with open(res_path, 'w') as f:
    json.dump(out, f, indent=1)


if __name__ == '__main__':
  main()
