#!/venv/bin/python
"""Sensitivity demonstration for C06 / C15 (not a registered check).

  /venv/bin/python selftest/mut_c06_c15.py C15|C06 [mutation name ...]

For every mutation: copy $LOGICA_REPO (default /repo) to a scratch directory
outside /repo and /verif, apply one source edit, run `./check <ID> --tier
quick` with LOGICA_REPO pointing at the copy, report the VIOLATION lines,
delete the copy.  Results are appended to build/selftest_<ID>.json.
"""
import json
import os
import shutil
import subprocess
import sys
import time

VERIF = os.path.dirname(os.path.dirname(os.path.abspath(__file__)))
REPO = os.environ.get('LOGICA_REPO', '/repo')

PY = 'parser_py/parse.py'
CPP = 'parser_cpp/logica_parse.cpp'
BRIDGE = 'parser_cpp/logica_parse_cpp.py'

MUTATIONS = {
    'C15': [
        ('strip_no_restrip_between_layers', PY,
         "  while True:\n    s = StripSpaces(s)\n    if (len(s) >= 2 and s[0] == '(' and s[-1] == ')' and\n        IsWhole(s[1:-1])):\n      s = s[1:-1]\n    else:\n      return s\n", "  s = StripSpaces(s)\n  while (len(s) >= 2 and s[0] == '(' and s[-1] == ')' and\n         IsWhole(s[1:-1])):\n    s = s[1:-1]\n  return StripSpaces(s)\n",
         'Strip strips blanks once, peels parentheses in a loop, strips once '
         'more: "( (e) )" with layout between the layers breaks (PY)'),
        ('bridge_astral_counts_two', BRIDGE,
         '      if (byt & 0xC0) != 0x80:\n        chars += 1\n', '      if (byt & 0xC0) != 0x80:\n        chars += 2 if byt >= 0xF0 else 1\n',
         '_DecodePooledHeritageOutput counts a 4-byte UTF-8 character as two '
         'characters: spans after it shift (CPP bridge)'),
        ('strip_keeps_parens', PY,
         "    if (len(s) >= 2 and s[0] == '(' and s[-1] == ')' and\n"
         "        IsWhole(s[1:-1])):\n      s = s[1:-1]\n",
         "    if (len(s) >= 2 and s[0] == '(' and s[-1] == ')' and\n"
         "        IsWhole(s[1:-1]) and False):\n      s = s[1:-1]\n",
         'Strip no longer removes outer parentheses (PY)'),
        ('stripspaces_space_only', PY,
         "  while left_idx < len(s) and s[left_idx].isspace():",
         "  while left_idx < len(s) and s[left_idx] == ' ':",
         'StripSpaces strips only blanks on the left (PY): newline noise'),
        ('parsestring_off_by_one', PY,
         "      '\"' not in s[1:-1]):\n    return {'the_string': s[1:-1]}",
         "      '\"' not in s[1:-1]):\n    return {'the_string': s[1:-2]}",
         'ParseString drops the last character of "..." literals (PY)'),
        ('getslice_shifted', PY,
         "    substring.start = self.start + start\n",
         "    substring.start = self.start + start + (1 if start > 3 else 0)\n",
         'HeritageAwareString.GetSlice reports a shifted start (PY)'),
        ('traverse_hash_in_string', PY,
         "    elif State() == '\"':\n      track_parenthesis = False\n",
         "    elif State() == '\"':\n      track_parenthesis = False\n"
         "      if c == '#':\n        state += '#'\n        continue\n",
         'Traverse starts a comment at # inside a "..." literal (PY)'),
        ('bridge_span_shift', BRIDGE,
         "      start_c = min(start_b, len(heritage))\n",
         "      start_c = min(start_b + (1 if start_b > 5 else 0), "
         "len(heritage))\n",
         '_DecodePooledHeritageOutput shifts span starts (CPP bridge)'),
        ('cpp_block_comment_kept', CPP,
         '      } else if (sub2(static_cast<size_t>(idx)) == "/*") {\n'
         "        state.push_back('/');",
         '      } else if (sub2(static_cast<size_t>(idx)) == "/*" && false) {\n'
         "        state.push_back('/');",
         'C++ Traverser no longer recognises block comments (CPP)'),
    ],
    'C06': [
        ('py_underscore_is_word_char', PY,
         '        if (idx > 0 and s[idx - 1].isalnum() or\n            idx + l < len(s) and s[idx + l].isalnum()):\n          continue\n', "        if (idx > 0 and (s[idx - 1].isalnum() or s[idx - 1] == '_') or\n            idx + l < len(s) and (s[idx + l].isalnum() or s[idx + l] == '_')):\n          continue\n",
         'PY SplitRaw counts _ as a word character in the word-boundary test '
         'of alphanumeric separators; CPP still uses alnum only (one-sided)'),
        ('strip_no_restrip_between_layers', PY,
         "  while True:\n    s = StripSpaces(s)\n    if (len(s) >= 2 and s[0] == '(' and s[-1] == ')' and\n        IsWhole(s[1:-1])):\n      s = s[1:-1]\n    else:\n      return s\n", "  s = StripSpaces(s)\n  while (len(s) >= 2 and s[0] == '(' and s[-1] == ')' and\n         IsWhole(s[1:-1])):\n    s = s[1:-1]\n  return StripSpaces(s)\n",
         'Strip strips blanks once, peels parentheses in a loop, strips once '
         'more: "( (e) )" with layout between the layers breaks (PY)'),
        ('bridge_astral_counts_two', BRIDGE,
         '      if (byt & 0xC0) != 0x80:\n        chars += 1\n', '      if (byt & 0xC0) != 0x80:\n        chars += 2 if byt >= 0xF0 else 1\n',
         '_DecodePooledHeritageOutput counts a 4-byte UTF-8 character as two '
         'characters: spans after it shift (CPP bridge)'),
        ('cpp_operator_order', CPP,
         '"->", "==", "<=", ">=", "<", ">", "!=",',
         '"->", "==", "<", ">", "<=", ">=", "!=",',
         'C++ operator list tries < > before <= >= (one-sided)'),
        ('py_dnf_order', PY,
         "    for d in dnfs:\n      result += d\n",
         "    for d in reversed(dnfs):\n      result += d\n",
         'PY DNF expansion emits disjuncts in reverse order (one-sided)'),
        ('py_aux_suffix', PY,
         "  SUFFIX = '_MultBodyAggAux'",
         "  SUFFIX = '_MultiBodyAggAux'",
         'PY names the multi-body aggregation auxiliary differently'),
        ('cpp_too_many_bodies_accepted', CPP,
         'if (parts.size() > 2) {\n    throw ParsingException("Too many :- in a rule.',
         'if (parts.size() > 99) {\n    throw ParsingException("Too many :- in a rule.',
         'C++ accepts a rule with two :- (accept/reject disagreement)'),
        ('cpp_strip_keeps_parens', CPP, None, None,
         'C++ Strip no longer removes outer parentheses (one-sided)'),
    ],
}


def Apply(root, rel, old, new):
  path = os.path.join(root, rel)
  with open(path) as f:
    s = f.read()
  if old not in s:
    raise RuntimeError('mutation anchor not found in %s: %r' % (rel, old[:60]))
  with open(path, 'w') as f:
    f.write(s.replace(old, new, 1))


def main():
  prop = sys.argv[1]
  only = set(sys.argv[2:])
  out_path = os.path.join(VERIF, 'build', 'selftest_%s.json' % prop)
  results = []
  if os.path.exists(out_path):
    with open(out_path) as f:
      results = json.load(f)
  for name, rel, old, new, what in MUTATIONS[prop]:
    if only and name not in only:
      continue
    if old is None:
      continue
    scratch = '/tmp/%s_mut_%s' % (prop.lower(), name)
    shutil.rmtree(scratch, ignore_errors=True)
    shutil.copytree(REPO, scratch, symlinks=True)
    try:
      Apply(scratch, rel, old, new)
      env = dict(os.environ, LOGICA_REPO=scratch)
      t0 = time.time()
      p = subprocess.run([os.path.join(VERIF, 'check'), prop, '--tier',
                          'quick'], env=env, capture_output=True, text=True,
                         cwd=VERIF)
      lines = [l for l in (p.stdout + p.stderr).splitlines()
               if l.startswith('VIOLATION') or l.startswith('  {')
               or l.startswith('MACHINERY')]
      res = {'mutation': name, 'what': what, 'file': rel, 'rc': p.returncode,
             'violations': sum(1 for l in lines if l.startswith('VIOLATION')),
             'first': lines[:4], 'wall_s': round(time.time() - t0, 1)}
      results = [r for r in results if r['mutation'] != name] + [res]
      print(json.dumps(res, indent=1), flush=True)
    finally:
      shutil.rmtree(scratch, ignore_errors=True)
    with open(out_path, 'w') as f:
      json.dump(results, f, indent=1)


if __name__ == '__main__':
  main()
