#!/bin/sh
# Offline setup of the verification framework: nothing is downloaded.
#  - builds the C++ parser of the current /repo tree into /verif/build/cpp/<sha> (cache; checks rebuild if the source changes)
#  - parses every TLA+ module once so that a broken spec is reported here rather than inside a check
set -e
cd "$(dirname "$0")"
mkdir -p build evidence
/venv/bin/python -c "import sys; sys.path.insert(0, '.'); from harness import cppbuild; print('C++ parser:', cppbuild.Prepare())"
cd spec
if ! java -cp /opt/veriftools/tla/tla2tools.jar:/opt/veriftools/tla/CommunityModules-deps.jar tla2sany.SANY *.tla > ../build/sany.out 2>&1; then
  echo "SANY reported errors:"; grep -i -B2 -A8 "error" ../build/sany.out | head -60; exit 1
fi
if grep -q "Semantic errors\|Parse Error\|Fatal errors" ../build/sany.out; then
  echo "SANY reported errors:"; grep -i -B2 -A8 "error" ../build/sany.out | head -60; exit 1
fi
echo "TLA+ modules parsed: $(ls *.tla | wc -l)"
