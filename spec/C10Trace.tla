------------------------------ MODULE C10Trace ------------------------------
(***************************************************************************)
(* Trace validation for C10: what the REAL code of the repository did      *)
(* with strings is judged here, by the lexical specifications StrLit (SQL  *)
(* dialects) and LLexStr (Logica literals).                                *)
(*                                                                         *)
(* Input: ndjson ($TRACE_FILE).  First line is a header                    *)
(*   [k |-> "hdr", shard, nshards]                                         *)
(* followed by records of three kinds (text = sequence of code points):    *)
(*  "unit" [id, s, lit: [dialect -> text], flag: [dialect -> text]]        *)
(*         what QL.ConvertToSql emitted for the string literal s and for   *)
(*         FlagValue of a flag whose value is s, in each dialect.          *)
(*  "pipe" [id, pos, ctx, form, lit, status, got]                               *)
(*         the whole pipeline on SQLite: the Logica literal text `lit`     *)
(*         (or, for pos = "user", the command-line flag value) was placed  *)
(*         in position pos; SQLite returned the string got.                *)
(*  "sql"  [id, d, pos, ctx, form, lit, status, ref, mpos, sql]            *)
(*         compile-only: `ref` is the statement compiled with the plain    *)
(*         marker string (whose characters start at ref[mpos]; the extent  *)
(*         of its literal is found by StrLit!LitSpan), `sql` the statement *)
(*         compiled with the literal `lit` in the same place.              *)
(*                                                                         *)
(* One TLC state per record.  A verdict tuple <<"V", json>> is printed for *)
(* every record that is not "ok"; <<"S", json>> summarises coverage.       *)
(* Acceptance (POSTCONDITION): every record was judged, every record's key *)
(* string lies in this shard's residue class (so shards are disjoint and   *)
(* the distinct counts add up), and the number of bad records is reported  *)
(* through TLC register 1.                                                 *)
(***************************************************************************)
EXTENDS StrLit, LLexStr, Json, IOUtils, TLCExt

All == ndJsonDeserialize(IOEnv.TRACE_FILE)
Hdr == All[1]
NRec == Len(All) - 1
Rec(i) == All[i + 1]

Marker == <<113, 122, 113>>       \* the plain string "qzq"

(* A flag value (default: d.., user-supplied: u..) read with FlagValue and  *)
(* concatenated ("a" ++ .. ++ "a"), compared with a string column holding  *)
(* the same string (the row must come back), as a list element, as a       *)
(* record field, and read through the ${flag} form inside "a${flag}a".     *)
(* Flag values are strings whatever they look like (02139, 1.50, -0, true).*)
FlagPositions == {"dcat", "deq", "dlist", "drec", "dparam",
                  "ucat", "ueq", "ulist", "urec", "uparam"}
UserPositions == {"user", "ucat", "ueq", "ulist", "urec", "uparam"}

(* Positions of the literal.  The second group makes it an argument of a   *)
(* built-in call whose SQL text is produced from a template ({0}-style:    *)
(* Element, Join, Size, Like; %s-style: Greatest, ToString, Format; Upper   *)
(* has no template and is passed through):                                 *)
(*   element  Element([lit, "a"], 0)        joinsep  Join(["a", "a"], lit) *)
(*   greatest Greatest(lit, "")             tostring ToString(lit)         *)
(*   format   Format("%s", lit)             upper    Upper(lit)            *)
(*   size     ToString(Size([lit]))         like     ToString(Like(lit, "%")) *)
Positions == {"fact", "list", "record", "concat", "default", "user",
              "element", "joinsep", "greatest", "tostring", "format",
              "upper", "size", "like"} \cup FlagPositions

UpperAscii(s) == [i \in 1..Len(s) |-> IF s[i] >= 97 /\ s[i] <= 122
                                       THEN s[i] - 32 ELSE s[i]]

(* What the query must return when string s is placed in position pos      *)
(* (SQLite: "" is the least string; UPPER changes ASCII letters only; a     *)
(* one-element list has size 1; every string is LIKE "%").                 *)
Ctx(pos, s) ==
  CASE pos \in {"concat", "joinsep", "dcat", "ucat", "dparam", "uparam"} ->
         <<97>> \o s \o <<97>>
    [] pos = "upper" -> UpperAscii(s)
    [] pos \in {"size", "like"} -> <<49>>
    [] OTHER -> s

(* The string a record is about: given directly (unit, user flag) or       *)
(* denoted by the Logica literal that was written into the program.        *)
Denoted(r) ==
  IF r.k = "unit" THEN [ok |-> TRUE, val |-> r.s]
  ELSE IF r.pos \in UserPositions THEN [ok |-> TRUE, val |-> r.lit]
  ELSE LET d == LDecode(r.lit) IN [ok |-> d.ok /\ d.form = LexForm(r.form), val |-> d.val]

RECURSIVE SumSeq(_)
SumSeq(s) == IF s = <<>> THEN 0 ELSE (Head(s) % 1000) + SumSeq(Tail(s))

InShard(r) == SumSeq(Denoted(r).val) % Hdr.nshards = Hdr.shard

OverAlphabet(s) == \A i \in 1..Len(s) : s[i] \in Alphabet \cup ExtraChars

-----------------------------------------------------------------------------
UnitBad(r) ==
  { [via |-> v, d |-> d, why |-> Verdict(d, r[v][d], r.s)] :
      v \in {"lit", "flag"}, d \in Dialects } \
  { [via |-> v, d |-> d, why |-> "ok"] : v \in {"lit", "flag"}, d \in Dialects }

PipeWhy(r) ==
  LET dn == Denoted(r)
      exp == Ctx(r.pos, dn.val)
  IN IF ~dn.ok THEN "harness-literal-not-decodable"
     ELSE IF r.pos \notin Positions THEN "harness-unknown-position"
     ELSE IF HasParamForm(dn.val) THEN
       (* documented parameter form: expansion semantics.  No flag of the  *)
       (* test programs has a name that short, so the parameter is         *)
       (* undefined: a diagnostic or verbatim transport are both allowed.  *)
       IF r.status = "reject" \/ (r.status = "ok" /\ r.got = exp)
       THEN "ok" ELSE "param-form-" \o r.status
     ELSE IF r.status # "ok" THEN "status-" \o r.status
     ELSE IF r.got # exp THEN "value-differs"
     ELSE "ok"

SqlWhy(r) ==
  LET dn == Denoted(r)
      sp == LitSpan(r.d, r.ref, r.mpos, Marker)
  IN IF ~dn.ok THEN "harness-literal-not-decodable"
     ELSE IF ~sp.ok THEN "marker-not-emitted-as-one-literal"
     ELSE IF HasParamForm(dn.val) THEN
       IF r.status = "reject" \/ (r.status = "ok" /\
            SameShapeAt(r.d, r.ref, sp.at, sp.len, r.sql, dn.val))
       THEN "ok" ELSE "param-form-" \o r.status
     ELSE IF r.status # "ok" THEN "status-" \o r.status
     ELSE IF ~SameShapeAt(r.d, r.ref, sp.at, sp.len, r.sql, dn.val)
       THEN LET suf == Len(r.ref) - (sp.at + sp.len) + 1
                mid == SubSeq(r.sql, sp.at, Len(r.sql) - suf)
            IN "shape-" \o Verdict(r.d, mid, dn.val)
     ELSE "ok"

Judge(r) ==
  CASE r.k = "unit" -> LET b == UnitBad(r) IN
                         [id |-> r.id, k |-> r.k, ok |-> b = {}, bad |-> b]
    [] r.k = "pipe" -> LET w == PipeWhy(r) IN
                         [id |-> r.id, k |-> r.k, ok |-> w = "ok", bad |-> {[why |-> w]}]
    [] r.k = "sql"  -> LET w == SqlWhy(r) IN
                         [id |-> r.id, k |-> r.k, ok |-> w = "ok", bad |-> {[why |-> w]}]

-----------------------------------------------------------------------------
VARIABLE i

Init == i = 1 /\ TLCSet(1, 0) /\ TLCSet(2, 0)

Next ==
  /\ i <= NRec
  /\ LET r == Rec(i)
         v == Judge(r)
     IN /\ IF v.ok THEN TRUE
           ELSE PrintT(<<"V", ToJson(v)>>) /\ TLCSet(1, TLCGet(1) + 1)
        /\ IF InShard(r) /\ OverAlphabet(Denoted(r).val) THEN TRUE
           ELSE TLCSet(2, TLCGet(2) + 1)
  /\ i' = i + 1

Spec == Init /\ [][Next]_i

Idx(kind) == {j \in 1..NRec : Rec(j).k = kind}

Summary ==
  [shard |-> Hdr.shard, records |-> NRec, bad |-> TLCGet(1), misplaced |-> TLCGet(2),
   unit_distinct |-> Cardinality({Rec(j).s : j \in Idx("unit")}),
   unit_maxlen |-> IF Idx("unit") = {} THEN 0
                   ELSE CHOOSE m \in 0..16 : (\E j \in Idx("unit") : Len(Rec(j).s) = m)
                                           /\ \A j \in Idx("unit") : Len(Rec(j).s) <= m,
   pipe_distinct |-> Cardinality({<<Rec(j).pos, Rec(j).ctx, Rec(j).form, Denoted(Rec(j)).val>> : j \in Idx("pipe")}),
   sql_distinct |-> Cardinality({<<Rec(j).d, Rec(j).pos, Rec(j).ctx, Rec(j).form, Denoted(Rec(j)).val>> : j \in Idx("sql")})]

(* Accepted: every record was visited.  The verdict itself (number of bad  *)
(* records) is in the summary; the harness classifies each bad record.     *)
Accepted ==
  /\ PrintT(<<"S", ToJson(Summary)>>)
  /\ TLCGet("stats").diameter - 1 = NRec
  /\ TLCGet(2) = 0
=============================================================================
