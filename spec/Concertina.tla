----------------------------- MODULE Concertina -----------------------------
(***************************************************************************)
(* C14 - ABSTRACT workflow scheduler (verdict level, DESIGN.md A.1).       *)
(*                                                                         *)
(* A configuration is a record                                            *)
(*   n     : number of table-producing statements; Action == 1..n          *)
(*   req   : [Action -> SUBSET Action]   what a statement reads            *)
(*   iters : Seq([members : Seq(Action),   declared order                  *)
(*                reps    : Nat,           declared repetitions            *)
(*                sig     : 0..1,          1 = the iteration has a stop    *)
(*                                         signal                          *)
(*                ...])                    further fields are ignored here *)
(* plus three fields computed from these by Derive (memoised structure):   *)
(*   itof : [Action -> Nat]  iteration of a statement, 0 = not iterated    *)
(*   pos  : [Action -> Nat]  its position in the declared order           *)
(*   ext  : [Action -> SUBSET Action]  what it reads from outside its own  *)
(*                                     iteration                           *)
(* The configurations come from the input file (module ConcertinaCfg, one *)
(* per line); Init chooses a line `ci` and keeps its derived record in     *)
(* `cfg` (neither is changed by a step), so a single TLC run covers every  *)
(* configuration of a bounded family, and the trace specification          *)
(* (ConcertinaTrace) walks through the lines one after the other.          *)
(*                                                                         *)
(* What the property C14 says, and nothing more:                           *)
(*   AfterInputs   a statement runs only after everything it reads from    *)
(*                 outside its own iteration has been produced (finished); *)
(*   OnceEach      a non-iterated statement runs exactly once;             *)
(*   DeclaredOrder the members of an iteration run round-robin in their    *)
(*                 declared order: the k-th run of member j needs the k-th *)
(*                 run of every earlier member and the (k-1)-th run of     *)
(*                 every later one;                                        *)
(*   BoundedReps / Complete                                                *)
(*                 each member runs exactly the declared number of times,  *)
(*                 or stops at its first run that ends after the stop      *)
(*                 signal was raised;                                      *)
(*   Termination   under weak fairness of running, everything finishes.    *)
(* Nothing is said about *which* topological order is used, about halves,  *)
(* queues or re-queue positions: those live in ConcertinaImpl.             *)
(*                                                                         *)
(* A declared repetition count below 1 is read as 1 (a statement whose     *)
(* table is read by others has to be produced at least once; the property  *)
(* would contradict itself otherwise).                                     *)
(***************************************************************************)
EXTENDS ConcertinaCfg

VARIABLES ci,               \* line of the input file (constant along a behaviour)
          cfg,              \* its configuration = ConfigOf(ci)    (ditto)
          runs,             \* [Action -> Nat]  completed runs
          finished,         \* SUBSET Action
          raised            \* SUBSET Iter: iterations whose stop signal is up

vars == <<ci, cfg, runs, finished, raised>>
(* cfg is a function of ci: states are told apart without hashing it *)
View == <<ci, runs, finished, raised>>

Action       == 1..cfg.n
Iter         == DOMAIN cfg.iters
Members(i)   == cfg.iters[i].members
Reps(i)      == Max(1, cfg.iters[i].reps)
HasSig(i)    == cfg.iters[i].sig = 1
Iterated(a)  == cfg.itof[a] # 0
ItOf(a)      == cfg.itof[a]
Pos(a)       == cfg.pos[a]
External(a)  == cfg.ext[a]

-----------------------------------------------------------------------------
Init == /\ ci \in DOMAIN Lines
        /\ cfg = ConfigOf(ci)
        /\ runs = [a \in Action |-> 0]
        /\ finished = {}
        /\ raised = {}

(* The enabling condition of Run(a), clause by clause (ConcertinaTrace     *)
(* names the clause that fails).                                           *)
NotFinished(a) == a \notin finished
InputsReady(a) == External(a) \subseteq finished
RoundRobinOK(a) ==
  LET m == Members(ItOf(a))
      j == Pos(a)
      k == runs[a] + 1
  IN /\ \A e \in 1..(j - 1)      : m[e] \in finished \/ runs[m[e]] >= k
     /\ \A l \in (j + 1)..Len(m) : m[l] \in finished \/ runs[m[l]] >= k - 1
InTurn(a) == Iterated(a) => RoundRobinOK(a)
CanRun(a) == NotFinished(a) /\ InputsReady(a) /\ InTurn(a)

Step(a, fin) == /\ runs' = [runs EXCEPT ![a] = @ + 1]
                /\ finished' = IF fin THEN finished \cup {a} ELSE finished
                /\ UNCHANGED <<ci, cfg, raised>>

(* The four ways a run can end, kept as separate actions so that TLC's     *)
(* -coverage shows that none of them is vacuous.                           *)
RunPlain(a)   == CanRun(a) /\ ~Iterated(a) /\ Step(a, TRUE)
RunLast(a)    == CanRun(a) /\ Iterated(a) /\ runs[a] + 1 >= Reps(ItOf(a))
                           /\ Step(a, TRUE)
RunStopped(a) == CanRun(a) /\ Iterated(a) /\ runs[a] + 1 < Reps(ItOf(a))
                           /\ ItOf(a) \in raised /\ Step(a, TRUE)
RunAgain(a)   == CanRun(a) /\ Iterated(a) /\ runs[a] + 1 < Reps(ItOf(a))
                           /\ ItOf(a) \notin raised /\ Step(a, FALSE)

Run(a) == RunPlain(a) \/ RunLast(a) \/ RunStopped(a) \/ RunAgain(a)

RaiseSignal(i) == /\ HasSig(i) /\ i \notin raised
                  /\ raised' = raised \cup {i}
                  /\ UNCHANGED <<ci, cfg, runs, finished>>

(* top-level disjuncts are named so that TLC -coverage counts each *)
DoRunPlain    == \E a \in Action : RunPlain(a)
DoRunLast     == \E a \in Action : RunLast(a)
DoRunStopped  == \E a \in Action : RunStopped(a)
DoRunAgain    == \E a \in Action : RunAgain(a)
DoRaiseSignal == \E i \in Iter : RaiseSignal(i)
RunSome == DoRunPlain \/ DoRunLast \/ DoRunStopped \/ DoRunAgain
Next == DoRunPlain \/ DoRunLast \/ DoRunStopped \/ DoRunAgain \/ DoRaiseSignal

SafeSpec == Init /\ [][Next]_vars
Spec     == SafeSpec /\ WF_vars(RunSome)

-----------------------------------------------------------------------------
TypeOK == /\ runs \in [Action -> Nat]
          /\ finished \subseteq Action
          /\ raised \subseteq Iter

OnceEach    == \A a \in Action : ~Iterated(a) => runs[a] <= 1
BoundedReps == \A a \in Action : Iterated(a) => runs[a] <= Reps(ItOf(a))
(* finished only grows, so "a has run => its inputs are finished now" at   *)
(* every reachable state is the same as "were finished when it first ran". *)
AfterInputs == \A a \in Action : runs[a] > 0 => External(a) \subseteq finished
DeclaredOrder ==
  \A i \in Iter : \A e, j \in DOMAIN Members(i) : e < j =>
     LET x == Members(i)[e]  y == Members(i)[j]
     IN /\ x \in finished \/ runs[x] >= runs[y]
        /\ y \in finished \/ runs[y] + 1 >= runs[x]
FinishedMeansRan == \A a \in finished : runs[a] >= 1
Complete ==
  finished = Action =>
     /\ \A a \in Action : ~Iterated(a) => runs[a] = 1
     /\ \A a \in Action : Iterated(a) /\ ItOf(a) \notin raised
                            => runs[a] = Reps(ItOf(a))
     /\ \A a \in Action : runs[a] >= 1

Done == finished = Action
Termination == <>Done
=============================================================================
