---------------------------- MODULE ConcertinaCfg ----------------------------
(***************************************************************************)
(* C14 - workflow configurations: record structure, the derived fields,    *)
(* well-formedness, and the input file.                                    *)
(*                                                                         *)
(* Input: ndjson named by $C14_INPUT; every line is an object with a field *)
(* `cfg` = {"n", "req": [[..],..], "iters": [{"members", "mode", "reps",   *)
(* "sig", "raiseAt"}, ..]} (further fields - a recorded trace - are used   *)
(* by ConcertinaTrace only).  JSON arrays arrive as sequences; `req` is    *)
(* turned into a function to sets.  ConfigOf(k) is the configuration of    *)
(* line k with the derived fields                                          *)
(*   itof : [Action -> Nat]  iteration of a statement, 0 = not iterated    *)
(*   pos  : [Action -> Nat]  its position in the declared order           *)
(*   ext  : [Action -> SUBSET Action]  what it reads from outside its own  *)
(*                                     iteration                           *)
(* The specifications keep the derived record of the current line in a     *)
(* variable `cfg` (set in Init, never changed by a step): TLC re-evaluates *)
(* a constant function [k \in .. |-> Derive(..)] at every application, so  *)
(* memoising in the state is what makes a step cheap.                      *)
(***************************************************************************)
EXTENDS Naturals, Sequences, FiniteSets, Json, IOUtils

Range(s) == {s[k] : k \in DOMAIN s}
Max(a, b) == IF a >= b THEN a ELSE b

(***************************************************************************)
(* Structure of a raw configuration value c, and Derive.                   *)
(***************************************************************************)
RIterated(c, a) == \E i \in DOMAIN c.iters : a \in Range(c.iters[i].members)
RItOf(c, a) == IF RIterated(c, a)
               THEN CHOOSE i \in DOMAIN c.iters : a \in Range(c.iters[i].members)
               ELSE 0
RPos(c, a) == IF RIterated(c, a)
              THEN LET m == c.iters[RItOf(c, a)].members
                   IN CHOOSE j \in DOMAIN m : m[j] = a
              ELSE 0
(* What `a` reads from outside its own iteration. *)
RExternal(c, a) == c.req[a] \ (IF RIterated(c, a)
                               THEN Range(c.iters[RItOf(c, a)].members) ELSE {})
Derive(c) == [n |-> c.n, req |-> c.req, iters |-> c.iters,
              itof |-> [a \in 1..c.n |-> RItOf(c, a)],
              pos  |-> [a \in 1..c.n |-> RPos(c, a)],
              ext  |-> [a \in 1..c.n |-> RExternal(c, a)]]

(***************************************************************************)
(* Well-formed configurations: iteration groups are disjoint lists without *)
(* repetition, and the graph obtained by collapsing every iteration to one *)
(* node is acyclic (otherwise no schedule satisfying the property exists). *)
(* Checked once per configuration (ASSUME in the model modules).           *)
(***************************************************************************)
WUnit(c, a) == IF c.itof[a] # 0 THEN <<"it", c.itof[a]>> ELSE <<"a", a>>
WUnitEdge(c, u, v) == u # v /\ \E b \in 1..c.n : WUnit(c, b) = v /\
                                 \E a \in c.req[b] : WUnit(c, a) = u
RECURSIVE WPeels(_, _)
WPeels(c, S) ==
  IF S = {} THEN TRUE
  ELSE IF \E v \in S : \A u \in S : ~WUnitEdge(c, u, v)
       THEN WPeels(c, S \ {CHOOSE v \in S : \A u \in S : ~WUnitEdge(c, u, v)})
       ELSE FALSE
WellFormedCfg(c) ==
  /\ c.n \in Nat
  /\ DOMAIN c.req = 1..c.n
  /\ \A a \in 1..c.n : c.req[a] \subseteq 1..c.n
  /\ \A i \in DOMAIN c.iters :
        /\ Range(c.iters[i].members) \subseteq 1..c.n
        /\ Cardinality(Range(c.iters[i].members)) = Len(c.iters[i].members)
  /\ \A i, k \in DOMAIN c.iters :
        i # k => Range(c.iters[i].members) \cap Range(c.iters[k].members) = {}
  /\ c = Derive(c)
  /\ WPeels(c, {WUnit(c, a) : a \in 1..c.n})

(***************************************************************************)
(* The shape of the listed finding F-C14-lower-half-external: a "halves"   *)
(* group (first half of the list = upper, second half = lower; "diamond" = *)
(* everything upper) in which a lower-half member reads, from outside the  *)
(* group, something no upper-half member reads.                            *)
(***************************************************************************)
UpperOf(g) == IF g.mode = "diamond" THEN Range(g.members)
              ELSE {g.members[k] : k \in 1..(Len(g.members) \div 2)}
LowerOf(g) == Range(g.members) \ UpperOf(g)
UpperExt(c, g) == UNION {c.ext[u] : u \in UpperOf(g)}
LowerHalfExternalCfg(c) ==
  \E i \in DOMAIN c.iters :
     \E l \in LowerOf(c.iters[i]) : ~(c.ext[l] \subseteq UpperExt(c, c.iters[i]))

(* ---- input ---- *)
NormGroup(g) == [members |-> g.members, mode |-> g.mode, reps |-> g.reps,
                 sig |-> g.sig, raiseAt |-> g.raiseAt]
NormCfg(c) == [n |-> c.n,
               req |-> [a \in 1..c.n |-> Range(c.req[a])],
               iters |-> [k \in DOMAIN c.iters |-> NormGroup(c.iters[k])]]
Lines == ndJsonDeserialize(IOEnv.C14_INPUT)
ConfigOf(k) == Derive(NormCfg(Lines[k].cfg))
=============================================================================
